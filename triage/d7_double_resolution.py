"""D7: an outcome never changes once observable; callbacks at most once (C01)."""
import sys
sys.path.insert(0, '/repo')
import billiard.pool as bp
from billiard.einfo import ExceptionInfo

if __name__ == '__main__':
    calls = []
    cache = {}
    r = bp.ApplyResult(cache, lambda v: calls.append(('ok', v)), error_callback=lambda e: calls.append(('err',)))
    r._ack(None, 0.0, 123, None)
    # time-limit scanner fails the job ...
    try:
        raise bp.TimeLimitExceeded(1)
    except bp.TimeLimitExceeded:
        r._set(r._job, (False, ExceptionInfo()))
    first = (r.ready(), r._success)
    # ... and the late result of the same job arrives (both threads passed their ready() check)
    r._set(None, (True, 'value'))
    second = (r.ready(), r._success)
    print('first outcome', first, 'after late result', second, 'callbacks', calls)
    print('DEFECT: outcome flipped / both callbacks fired' if first != second or len(calls) != 1 else 'OK')
