"""D7b: MapResult: an outcome never changes once observable; callbacks at most once (C01).
History: the supervisor passed its `not job.ready()` test for a job with a lost-worker marker,
the result thread then completes the last chunk, the supervisor's failure arrives afterwards."""
import sys
sys.path.insert(0, '/repo')
import billiard.pool as bp
from billiard.einfo import ExceptionInfo

if __name__ == '__main__':
    calls = []
    cache = {}
    r = bp.MapResult(cache, 2, 4, lambda v: calls.append(('ok', list(v))),
                     error_callback=lambda e: calls.append(('err',)))
    r._ack(0, 0.0, 11); r._ack(1, 0.0, 12)
    r._set(0, (True, [0, 1]))
    r._set(1, (True, [2, 3]))          # last chunk: job is complete
    first = (r.ready(), r._success, r._value)
    try:
        raise bp.WorkerLostError('late')
    except bp.WorkerLostError:
        r._set(None, (False, ExceptionInfo()))   # supervisor's delayed mark_as_worker_lost
    second = (r.ready(), r._success, type(r._value).__name__)
    print('first', first, 'then', second, 'callbacks', [c[0] for c in calls])
    bad = second[1] is not True or len(calls) != 1
    print('DEFECT: completed map flipped to failure / both callbacks fired' if bad else 'OK')
