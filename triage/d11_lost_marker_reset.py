"""D11: the lost-worker marker of a job (detection time, exit status) is overwritten every time *another* worker is
reaped while the job waits out its lost-worker timeout: the report comes later than timeout + one supervision
period and names exit status 0 instead of the real one (C04).
Run: /venv/bin/python d11_lost_marker_reset.py   (BILLIARD_TREE=<tree> to test another tree)"""
import os, sys, time, signal
sys.path.insert(0, os.environ.get('BILLIARD_TREE', '/repo'))
from billiard.pool import Pool
from billiard.exceptions import WorkerLostError


def sleeper(t):
    time.sleep(t)
    return os.getpid()


if __name__ == '__main__':
    LOST = 4.0
    p = Pool(3, lost_worker_timeout=LOST)
    accepted = []
    r = p.apply_async(sleeper, (60,), accept_callback=lambda pid, t: accepted.append(pid))
    t0 = time.time()
    while not accepted and time.time() - t0 < 10:
        time.sleep(0.05)
    victim = accepted[0]
    os.kill(victim, signal.SIGKILL)
    t_kill = time.time()
    # while the job waits out its grace period, other (idle) workers go away one after the other
    for _ in range(3):
        time.sleep(1.5)
        idle = [w.pid for w in p._pool if w.pid != victim and w._is_alive()]
        if idle:
            os.kill(idle[0], signal.SIGTERM)
    try:
        r.get(timeout=30)
        out = 'no error'
    except WorkerLostError as e:
        out = str(e)
    except Exception as e:
        inner = getattr(e, 'exc', e)
        out = '%s: %s' % (type(inner).__name__, inner)
    dt = time.time() - t_kill
    print('job failed %.1fs after the kill with: %s' % (dt, out))
    late = dt > LOST + 2.5
    wrong = 'signal 9' not in out
    if late or wrong:
        print('DEFECT:%s%s' % (' reported %.1fs after the kill (timeout %.0fs + one supervision period expected);' % (dt, LOST) if late else '',
                               ' exit status named wrongly (expected signal 9 (SIGKILL))' if wrong else ''))
    else:
        print('OK: reported within timeout + one period, naming signal 9')
    p.terminate()
    sys.exit(1 if (late or wrong) else 0)
