"""D1: a task that cannot be pickled must fail *its own* job (C01) .
Run: /venv/bin/python d1_send_failure.py ; prints OK / DEFECT."""
import sys, time
sys.path.insert(0, '/repo')
import billiard.pool as bp

def f(x):
    return x

if __name__ == '__main__':
    p = bp.Pool(2)
    a = p.apply_async(f, (1,)); b = p.apply_async(f, (2,)); c = p.apply_async(f, (3,))
    a.get(10); b.get(10); c.get(10)
    bad = p.apply_async(f, (lambda: 1,))      # job id >= 3: cannot be pickled
    good = p.apply_async(f, (5,))
    t0 = time.time()
    while not bad.ready() and time.time() - t0 < 5:
        time.sleep(0.1)
    ok = bad.ready() and not bad.successful() and good.get(10) == 5
    print('bad.ready=%s (entry still in cache: %s -- see known finding D1c)' % (bad.ready(), bad._job in p._cache))
    print('OK' if ok else 'DEFECT: unsendable job never resolved')
    p.terminate()
