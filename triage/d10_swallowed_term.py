"""D10: a task that swallows the SystemExit raised by the worker's termination handler makes the worker go on
and take further jobs (C08: "... exits instead of going on to take further jobs").
Run: /venv/bin/python d10_swallowed_term.py   (BILLIARD_TREE=<tree> to test another tree)"""
import os, sys, time, signal
sys.path.insert(0, os.environ.get('BILLIARD_TREE', '/repo'))
import billiard
from billiard.pool import Pool


def stubborn(t):
    try:
        time.sleep(t)
    except BaseException as e:          # swallows SystemExit too
        return 'swallowed %s' % type(e).__name__
    return 'slept'


def whoami(_):
    return os.getpid()


if __name__ == '__main__':
    p = Pool(1)
    accepted = []
    r = p.apply_async(stubborn, (20,), accept_callback=lambda pid, t: accepted.append(pid))
    t0 = time.time()
    while not accepted and time.time() - t0 < 10:
        time.sleep(0.05)
    pid = accepted[0]
    time.sleep(0.3)
    os.kill(pid, signal.SIGTERM)        # what terminate_job() / a hard time limit / an operator sends
    out = r.get(timeout=10)
    r2 = p.apply_async(whoami, (0,))
    pid2 = r2.get(timeout=10)
    print('first job:', out, '| next job ran in pid', pid2, '| signalled pid', pid)
    ok = pid2 != pid
    print('OK: signalled worker exited, next job ran in a replacement' if ok else
          'DEFECT: the signalled worker %d swallowed the termination in task code and went on to take the next job' % pid)
    p.terminate()
    sys.exit(0 if ok else 1)
