"""D2 consequences: terminate() with a running task returns (C08); a one-process pool
survives a hard time limit (C05)."""
import os, sys, time, threading
sys.path.insert(0, '/repo')
import billiard.pool as bp

def slow(n):
    time.sleep(n)
    return 'done'

def quick():
    return os.getpid()

if __name__ == '__main__':
    p = bp.Pool(2)
    r = p.apply_async(slow, (30,))
    time.sleep(1)
    t0 = time.time()
    th = threading.Thread(target=p.terminate, daemon=True)
    th.start(); th.join(15)
    print('terminate() returned: %s after %.1fs' % (not th.is_alive(), time.time() - t0))
    ok1 = not th.is_alive()
    p2 = bp.Pool(1, timeout=1)
    r = p2.apply_async(slow, (30,))
    try:
        r.get(10)
        out = 'value'
    except BaseException as e:
        out = type(e).__name__ + ':' + repr(getattr(e, 'exc', e))[:60]
    print('hard-limited job ->', out)
    r2 = p2.apply_async(quick)
    try:
        v = r2.get(10)
        ok2 = True
    except BaseException as e:
        v = repr(e); ok2 = False
    print('next job on the 1-process pool ->', v)
    print('OK' if ok1 and ok2 else 'DEFECT')
    os._exit(0)
