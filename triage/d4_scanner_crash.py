"""D4 / D4b: a map or imap job on a pool with time limits crashes the time-limit scanner
(TypeError / AttributeError), and an imap job crashes the reaper when an unrelated worker exits.
Threads are disabled so that the crash can be observed instead of killing this process
(with threads the PoolThread.run wrapper calls os._exit(1))."""
import sys, time, os
sys.path.insert(0, '/repo')
import billiard.pool as bp

def f(x):
    time.sleep(0.2)
    return x

if __name__ == '__main__':
    out = []
    p = bp.Pool(2, timeout=30, threads=False)
    r = p.map_async(f, range(4), 1)
    p._task_handler.body.__func__  # exists
    # feed tasks and let a worker accept one
    item = p._taskqueue.get()
    for t in item[0]:
        p._quick_put(t)
    t0 = time.time()
    while not any(r._accepted) and time.time() - t0 < 5:
        p._result_handler.handle_event()
        time.sleep(0.05)
    try:
        p._timeout_handler.handle_event()
        out.append('map+timeout: scan ok')
    except Exception as e:
        out.append('map+timeout: scan raised %s: %s' % (type(e).__name__, e))
    it = p.imap(f, range(2))
    try:
        p._timeout_handler._it = None
        p._timeout_handler.handle_event()
        out.append('imap+timeout: scan ok')
    except Exception as e:
        out.append('imap+timeout: scan raised %s: %s' % (type(e).__name__, e))
    # reaper: kill an idle worker while the imap entry sits in the cache
    victim = p._pool[0]
    os.kill(victim.pid, 9)
    time.sleep(0.5)
    p._cache.pop(r._job, None)
    try:
        p._join_exited_workers()
        out.append('imap+worker exit: reaper ok')
    except Exception as e:
        out.append('imap+worker exit: reaper raised %s: %s' % (type(e).__name__, e))
    print('\n'.join(out))
    print('DEFECT' if any('raised' in o for o in out) else 'OK')
    for w in p._pool:
        try: os.kill(w.pid, 9)
        except OSError: pass
    os._exit(0)
