"""D12: a dead worker reaped by Pool.did_start_ok() (public API, reaps and throws the exit codes away) instead of the
supervision tick never gives its job's slot back: the tick that follows sees nobody to reap, starts the replacement
and releases nothing (C10: "Every slot taken for a job is given back when ... its worker is replaced").
Run: /venv/bin/python d12_reap_outside_tick_leaks_slot.py   (BILLIARD_TREE=<tree> for another tree)"""
import os, sys, time, signal, threading
sys.path.insert(0, os.environ.get('BILLIARD_TREE', '/repo'))
from billiard.pool import Pool


def sleeper(t):
    time.sleep(t)


if __name__ == '__main__':
    p = Pool(1, putlocks=True, threads=False, lost_worker_timeout=1.0)
    r = p.apply_async(sleeper, (60,))
    t0 = time.time()
    while not r._accepted and time.time() - t0 < 10:
        p._result_handler.handle_event()          # no result thread in this pool: drive it by hand
        time.sleep(0.05)
    pid = r._worker_pid
    free_before = p._putlock._value
    os.kill(pid, signal.SIGKILL)
    time.sleep(0.5)
    print('did_start_ok() ->', p.did_start_ok())  # reaps the dead worker, drops the exit codes
    for _ in range(40):                           # supervision ticks: replace the worker, fail the job
        p.maintain_pool()
        p._result_handler.handle_event()
        time.sleep(0.1)
    print('job resolved:', r.ready(), '| workers:', [w.pid for w in p._pool], '| free slots:', p._putlock._value,
          'of', p._putlock._initial_value, '(before the kill: %d)' % free_before)
    ok = p._putlock._value == p._putlock._initial_value
    print('OK: slot returned' if ok else 'DEFECT: the pool is quiet, the worker was replaced, and the slot of the lost '
          'job is gone for good: the next apply_async() blocks')
    for w in p._pool:
        try:
            os.kill(w.pid, signal.SIGKILL)
        except OSError:
            pass
    os._exit(0 if ok else 1)
