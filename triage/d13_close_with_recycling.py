"""D13: after close() the supervisor stops replacing workers, so with a per-child task quota the jobs still queued when
the last worker has used up its quota never run (C07: "After close(), every job submitted before it still resolves
with its real result"; C09: "no job is lost ... or held up because of recycling").
Run: /venv/bin/python d13_close_with_recycling.py   (BILLIARD_TREE=<tree> for another tree)"""
import os, sys, time, threading
sys.path.insert(0, os.environ.get('BILLIARD_TREE', '/repo'))
from billiard.pool import Pool


def work(x):
    time.sleep(0.3)
    return x * 2


if __name__ == '__main__':
    p = Pool(1, maxtasksperchild=1)
    rs = [p.apply_async(work, (i,)) for i in range(4)]
    p.close()
    t = threading.Thread(target=p.join, daemon=True)
    t0 = time.time()
    t.start()
    t.join(45)
    done = [r.ready() for r in rs]
    vals = [r.get(0) if r.ready() and r.successful() else None for r in rs]
    print('join returned: %s after %.1fs; ready: %s; values: %s' % (not t.is_alive(), time.time() - t0, done, vals))
    ok = all(done) and vals == [0, 2, 4, 6]
    print('OK: every job submitted before close() resolved' if ok else
          'DEFECT: jobs submitted before close() never ran: after close() nobody replaces the recycled worker')
    os._exit(0 if ok else 1)
