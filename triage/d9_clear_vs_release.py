"""D9: LaxBoundedSemaphore.clear() tests `_value < _initial_value` outside the condition lock and then
releases: a concurrent release() (result handler / supervisor) between test and increment pushes the
value above the configured size (C10).  The interleaving is forced by parking clear() at the lock."""
import sys, threading
sys.path.insert(0, '/repo')
from billiard.pool import LaxBoundedSemaphore

class GatedCond:
    def __init__(self, real, hook): self._real, self._hook = real, hook
    def __enter__(self):
        self._hook(); return self._real.__enter__()
    def __exit__(self, *exc): return self._real.__exit__(*exc)
    def __getattr__(self, name): return getattr(self._real, name)

if __name__ == '__main__':
    sem = LaxBoundedSemaphore(2)
    assert sem.acquire(False)                     # one slot taken: value 1 of 2
    at_gate, go, parked = threading.Event(), threading.Event(), []
    def hook():
        if threading.current_thread().name == 'closer' and not parked:
            parked.append(1); at_gate.set(); go.wait(10)
    sem._cond = GatedCond(sem._cond, hook)
    t = threading.Thread(target=sem.clear, name='closer', daemon=True)
    t.start(); at_gate.wait(10)                   # clear() saw 1 < 2 and is about to take the lock
    sem.release()                                 # the job's result arrives meanwhile: value 2
    go.set(); t.join(10)
    sem._cond = sem._cond._real
    print('value after clear() || release(): %d (configured size %d)' % (sem._value, sem._initial_value))
    print('DEFECT: semaphore exceeds its size' if sem._value > sem._initial_value else 'OK')
