"""D8: no soft-timeout signal on behalf of a job whose result was already processed (C06)."""
import sys
sys.path.insert(0, '/repo')
import billiard.pool as bp

class FakeJob:
    _worker_pid = 4242
    def __init__(self): self.cb = 0
    def ready(self): return True
    def handle_timeout(self, soft): self.cb += 1
class Proc: pid = 4242

if __name__ == '__main__':
    sent = []
    bp._kill = lambda pid, sig: sent.append((pid, sig))
    h = bp.TimeoutHandler([Proc()], {}, 1, None)
    j = FakeJob()
    h.on_soft_timeout(j)
    print('signals sent for a finished job:', sent, 'callbacks:', j.cb)
    print('DEFECT' if sent or j.cb else 'OK')
