"""D2: SIGTERM to a busy worker must end that worker (C08/C05/C01), not become the task's result."""
import os, signal, sys, time
sys.path.insert(0, '/repo')
import billiard.pool as bp

def slow(n):
    time.sleep(n)
    return os.getpid()

def quick():
    return os.getpid()

if __name__ == '__main__':
    p = bp.Pool(1)
    r = p.apply_async(slow, (30,))
    t0 = time.time()
    while not r._worker_pid and time.time() - t0 < 5:
        time.sleep(0.05)
    pid = r._worker_pid
    os.kill(pid, signal.SIGTERM)
    time.sleep(3)
    alive = True
    try:
        os.kill(pid, 0)
    except OSError:
        alive = False
    out = None
    if r.ready():
        try:
            r.get(0)
        except BaseException as e:
            out = repr(e)
    print('worker alive after SIGTERM: %s; job outcome: %s' % (alive, out))
    print('DEFECT: worker swallowed its termination signal' if alive else 'OK')
    os._exit(0)
