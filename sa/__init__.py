"""Static-analysis engine for the billiard property checks (stdlib ast only)."""
