"""C14 — the shared-memory heap never hands out overlapping or misplaced memory."""
import ast

from ..model import walk_own, dotted
from .. import q

INDEXES = ('_lengths', '_len_to_seq', '_start_to_block', '_stop_to_block', '_allocated_blocks', '_arenas')
MUTATING = ('append', 'pop', 'remove', 'add', 'discard', 'clear', 'extend', 'insert', 'update', 'setdefault',
            'popitem', 'sort', 'reverse')
PRIVATE = ('_malloc', '_free', '_absorb', '_free_pending_blocks')


def _mutations(fi, attrs):
    """[(ast node, attr, how)] for mutations of self.<attr> in fi"""
    out = []
    for n in walk_own(fi.node):
        targets = []
        if isinstance(n, ast.Assign):
            targets = n.targets
        elif isinstance(n, ast.AugAssign):
            targets = [n.target]
        elif isinstance(n, ast.Delete):
            targets = n.targets
        for t in targets:
            for y in ast.walk(t):
                if isinstance(y, ast.Attribute) and isinstance(y.value, ast.Name) and y.attr in attrs:
                    how = 'del' if isinstance(n, ast.Delete) else 'assign'
                    if isinstance(t, ast.Subscript) and how == 'assign':
                        how = 'setitem'
                    out.append((n, y.attr, how, t))
        if isinstance(n, ast.Call) and isinstance(n.func, ast.Attribute):
            recv = n.func.value
            if isinstance(recv, ast.Attribute) and isinstance(recv.value, ast.Name) and recv.attr in attrs and \
                    n.func.attr in MUTATING:
                out.append((n, recv.attr, n.func.attr, n))
            if fi.callee(n) == 'bisect.insort' and n.args and isinstance(n.args[0], ast.Attribute) and \
                    n.args[0].attr in attrs:
                out.append((n, n.args[0].attr, 'insort', n))
    return out


def _in_lock(fi, node_ast):
    """Is the ast node inside a critical section of self._lock in fi (with-statement, or a
    successful try-lock released in a finally)?"""
    for st in walk_own(fi.node):
        if isinstance(st, ast.With) and any(fi.canon(it.context_expr) == 'self._lock' for it in st.items) and \
                any(x is node_ast for b in st.body for x in ast.walk(b)):
            return 'with'
    cfg = fi.cfg
    ns = cfg.node_containing(node_ast)
    rel = q.nodes_calling(fi, 'self._lock.release')
    if ns and rel and all(q.has_guard(fi, n, 'self._lock.acquire(False)', True) for n in ns):
        if all(cfg.must_pass([n], [cfg.exit, cfg.raise_exit], rel)[0] for n in ns):
            return 'trylock'
    return None


def r14_1(ctx):
    ctx.rule('R14.1', 'lock discipline: the free-list indexes and the live set are mutated only by the heap\'s own '
                      'methods, the private mutators run only inside a critical section of Heap._lock, a failed '
                      'try-lock only defers the block, and deferred blocks are drained one by one', floor=8)
    m = ctx.model
    ci = m.cls('heap:Heap')
    allowed = set(PRIVATE) | {'malloc', 'free', '__init__'}
    for qn, fi in sorted(m.funcs.items()):
        muts = _mutations(fi, INDEXES)
        if not muts:
            continue
        if fi.module.name != 'heap':
            # same attribute names on other classes are not the heap's
            continue
        ok = fi.cls is ci and fi.name in allowed
        ctx.ob('R14.1', 'writer:%s' % fi.qual.split(':')[1], ok, fi, muts[0][0],
               'mutates %s' % sorted({a for (_, a, _, _) in muts}))
    # public methods do not touch the indexes outside the lock
    for name in ('malloc', 'free'):
        fi = ci.methods[name]
        for (n, attr, how, t) in _mutations(fi, INDEXES):
            ctx.ob('R14.1', '%s:%s.%s-under-lock' % (name, attr, how), _in_lock(fi, n) is not None, fi, n,
                   'inside a critical section of self._lock')
    # callers of the private mutators
    for fi in ci.methods.values():
        for c in [x for x in walk_own(fi.node) if isinstance(x, ast.Call)]:
            cal = fi.callee(c)
            if cal.startswith('self.') and cal.split('.')[1] in PRIVATE:
                if fi.name in PRIVATE:
                    ctx.ob('R14.1', '%s->%s' % (fi.name, cal.split('.')[1]), True, fi, c,
                           'private mutator called from a private mutator (lock held by the public caller)')
                else:
                    kind = _in_lock(fi, c)
                    ctx.ob('R14.1', '%s->%s' % (fi.name, cal.split('.')[1]), kind is not None, fi, c,
                           'called inside the lock (%s)' % kind if kind else 'called without holding Heap._lock')
    # nobody outside the class calls them
    for qn, fi in sorted(m.funcs.items()):
        if fi.cls is ci:
            continue
        for c in [x for x in walk_own(fi.node) if isinstance(x, ast.Call)]:
            d = fi.callee(c)
            if d.split('.')[-1] in PRIVATE and ('heap' in d.lower()):
                ctx.ob('R14.1', 'outside-call:%s' % fi.qual, False, fi, c, '%s called from outside Heap' % d)
    fr = ci.methods['free']
    cfg = fr.cfg
    failed = q.outcome_edges(fr, 'self._lock.acquire(False)', False)
    q.need(failed, 'Heap.free does not try-lock')
    r = cfg.reach([b for (a, b, l) in failed], include_src=True)
    touched = [n for (n, attr, how, t) in _mutations(fr, INDEXES) if any(x.id in r for x in cfg.node_containing(n))]
    deferred = [n for (n, attr, how, t) in _mutations(fr, ('_pending_free_blocks',))
                if how == 'append' and any(x.id in r for x in cfg.node_containing(n))]
    ctx.ob('R14.1', 'free:failed-trylock-only-defers', not touched and bool(deferred), fr, None,
           'when the lock is taken the block is only appended to _pending_free_blocks')
    # free() can run in the thread that is inside malloc (a finalizer run by the garbage collector): the try-lock
    # must fail then, i.e. the lock must not be re-entrant
    init = ci.methods['__init__']
    mk = [(dn, v) for (dn, t, v) in q.assigns(init, 'self._lock')]
    q.need(mk, 'Heap.__init__ does not create self._lock')
    for (dn, v) in mk:
        kind = init.canon(v.func) if isinstance(v, ast.Call) else ast.unparse(v)
        ok = kind in ('threading.Lock', '_thread.allocate_lock', '_thread.LockType')
        ctx.ob('R14.1', 'lock-is-not-reentrant', ok, init, dn,
               'self._lock = %s()' % kind if ok else
               'self._lock = %s(): free() called by a finalizer while the same thread is inside malloc acquires a '
               're-entrant lock and mutates the free lists under malloc\'s feet instead of deferring' % kind)
    # pending list: append in free, pop in the drain, nothing else
    n_p = 0
    for fi in ci.methods.values():
        for (n, attr, how, t) in _mutations(fi, ('_pending_free_blocks',)):
            n_p += 1
            ok = (fi.name == 'free' and how == 'append') or (fi.name == '_free_pending_blocks' and how == 'pop') or \
                (fi.name == '__init__' and how == 'assign')
            ctx.ob('R14.1', 'pending:%s.%s' % (fi.name, how), ok, fi, n,
                   'deferred blocks are added by free() and taken one at a time by the drain' if ok else
                   'bulk/other mutation of the deferred list: a block appended concurrently (GC, other thread) '
                   'can be dropped without ever being freed')
    q.need(n_p >= 3, 'deferred-free list not found')
    dr = ci.methods['_free_pending_blocks']
    pops = [(n, c) for (n, c) in q.calls(dr, 'self._pending_free_blocks.pop')]
    ok = bool(pops)
    for (n, c) in pops:
        var = ast.unparse(n.ast.targets[0]) if isinstance(n.ast, ast.Assign) else None
        rm = [x for (x, cc) in q.calls(dr, 'self._allocated_blocks.remove') if cc.args and ast.unparse(cc.args[0]) == var]
        fre = [x for (x, cc) in q.calls(dr, 'self._free') if cc.args and ast.unparse(cc.args[0]) == var]
        heads = [x for x in dr.cfg.where(lambda x: x.kind == 'loop')]
        ok = ok and var is not None and bool(rm) and bool(fre) and bool(heads) and \
            dr.cfg.must_pass([n], heads + [dr.cfg.exit], rm, skip_labels=('x',), completed=False)[0] and \
            dr.cfg.must_pass([n], heads + [dr.cfg.exit], fre, skip_labels=('x',))[0]
    ctx.ob('R14.1', 'drain:every-popped-block-is-freed', ok, dr, None,
           'block = pending.pop(); live set remove; _free(block) for each, until IndexError')


def _key(t):
    """(index attr, key text) for self.<idx>[key]"""
    if isinstance(t, ast.Subscript) and isinstance(t.value, ast.Attribute):
        return t.value.attr, ast.unparse(t.slice).replace(' ', '')
    return None, None


def r14_2(ctx):
    ctx.rule('R14.2', 'the free-list indexes move together: a block removed from / added to one index is removed '
                      'from / added to the others on every path, with (arena, start) / (arena, stop) as keys', floor=6)
    m = ctx.model
    ci = m.cls('heap:Heap')
    for name in ('_malloc', '_absorb'):
        fi = ci.methods[name]
        cfg = fi.cfg
        dels = {}
        for n in cfg.where(lambda n: n.kind == 'stmt' and isinstance(n.ast, ast.Delete)):
            for t in n.ast.targets:
                idx, key = _key(t)
                if idx:
                    dels.setdefault(idx, []).append((n, key))
        for idx, want in (('_start_to_block', '(arena,start)'), ('_stop_to_block', '(arena,stop)')):
            got = dels.get(idx, [])
            ok = bool(got) and all(k == want for (n, k) in got)
            ctx.ob('R14.2', '%s:%s-deleted-at-%s' % (name, idx, want), ok, fi, got[0][0] if got else None,
                   'del self.%s[%s]' % (idx, want))
        # on every normal path that hands out / deregisters an existing free block both deletions happen
        rem = [n for (n, c) in q.calls(fi, lambda s: s in ('seq.pop', 'seq.remove') or s.endswith('.pop') or s.endswith('.remove'))
               if not fi.callee(c).startswith('self._pending')]
        both = [n for (n, k) in dels.get('_start_to_block', [])], [n for (n, k) in dels.get('_stop_to_block', [])]
        ok = bool(rem)
        for group in both:
            blocked = {x.id for x in group}
            fwd = cfg.reach([cfg.entry.id], block_nodes=blocked, include_src=True, skip_labels=('x',))
            bwd = cfg.reach([cfg.exit.id], block_nodes=blocked, include_src=True, skip_labels=('x',), backwards=True)
            ok = ok and bool(group) and not any(r0.id in fwd and r0.id in bwd for r0 in rem)
        ctx.ob('R14.2', '%s:all-three-indexes-on-every-path' % name, ok, fi, rem[0] if rem else None,
               'every normal path on which the block leaves its length bucket also deletes it from both address indexes')
        # empty bucket is dropped, non-empty kept
        bucket = [n for n in cfg.where(lambda n: n.kind == 'stmt' and isinstance(n.ast, ast.Delete))
                  if any(_key(t)[0] == '_len_to_seq' for t in n.ast.targets)]
        lens = [n for n in cfg.where(lambda n: n.kind == 'stmt')
                if (isinstance(n.ast, ast.Delete) and any(_key(t)[0] == '_lengths' for t in n.ast.targets)) or
                any(fi.callee(c) == 'self._lengths.remove' for c in cfg.calls_at(n))]
        ok = bool(bucket) and bool(lens) and all(q.has_guard(fi, n, 'seq', False) for n in bucket + lens)
        ctx.ob('R14.2', '%s:empty-bucket-dropped' % name, ok, fi, bucket[0] if bucket else None,
               'the length bucket and its entry in _lengths are dropped exactly when the bucket became empty')
    fr = ci.methods['_free']
    cfg = fr.cfg
    sets = {}
    for (dn, t, v) in q.assigns(fr, lambda s: s.startswith('self._start_to_block[') or s.startswith('self._stop_to_block[')):
        idx, key = _key(t)
        sets.setdefault(idx, []).append((dn, key, ast.unparse(v)))
    for idx, want in (('_start_to_block', '(arena,start)'), ('_stop_to_block', '(arena,stop)')):
        got = sets.get(idx, [])
        ok = bool(got) and all(k == want and v == 'block' for (n, k, v) in got) and \
            all(cfg.must_pass([cfg.entry], [cfg.exit], [n for (n, k, v) in got], skip_labels=('x',))[0] for _ in [0])
        ctx.ob('R14.2', '_free:%s-registered-at-%s' % (idx, want), ok, fr, got[0][0] if got else None,
               'self.%s[%s] = block on every normal path' % (idx, want))
    blk = [(dn, v) for (dn, t, v) in q.assigns(fr, 'block') if v is not None]
    merged = [dn for (dn, v) in blk if ast.unparse(v).replace(' ', '') == '(arena,start,stop)' and isinstance(dn.ast.targets[0], ast.Name)]
    regs = [n for (n, k, v) in sets.get('_start_to_block', []) + sets.get('_stop_to_block', [])]
    ok = bool(merged) and all(cfg.must_pass([cfg.entry], [r0], merged, skip_labels=('x',))[0] for r0 in regs)
    ctx.ob('R14.2', '_free:registers-the-merged-extent', ok, fr, merged[0] if merged else None,
           'block = (arena, start, stop) is rebuilt after the merges and that block is registered')
    app = [n for (n, c) in q.calls(fr, lambda s: s.endswith('.append')) if c.args and ast.unparse(c.args[0]) == 'block']
    new = [dn for (dn, t, v) in q.assigns(fr, lambda s: s.startswith('self._len_to_seq[')) if ast.unparse(v) == '[block]']
    ins = [n for (n, c) in q.calls(fr, 'bisect.insort') if ast.unparse(c.args[0]) == 'self._lengths']
    ok = bool(app) and bool(new) and bool(ins) and \
        cfg.must_pass(new, [cfg.exit], ins, skip_labels=('x',))[0] and \
        cfg.exit.id not in cfg.reach([cfg.entry.id], block_nodes={n.id for n in app + new}, skip_labels=('x',))
    if not ok:
        # the same with dict.setdefault: seq = self._len_to_seq.setdefault(length, []); seq.append(block); the length
        # is inserted exactly when the bucket is new (holds one block)
        sd = [(dn, t) for (dn, t, v) in q.assigns(fr, None) if isinstance(v, ast.Call) and
              fr.callee(v) == 'self._len_to_seq.setdefault' and len(v.args) == 2 and ast.unparse(v.args[1]) == '[]'
              and isinstance(t, ast.Name)]
        if sd:
            sv = sd[0][1].id
            app2 = [n for (n, c) in q.calls(fr, sv + '.append') if c.args and ast.unparse(c.args[0]) == 'block']
            ok = bool(app2) and bool(ins) and \
                cfg.exit.id not in cfg.reach([cfg.entry.id], block_nodes={n.id for n in app2}, skip_labels=('x',)) and \
                all(q.has_guard(fr, n, q.eq_text('len(%s)' % sv, '1'), True) for n in ins) and \
                all(cfg.nodes[b] in ins or True for (a, b, l) in q.outcome_edges(fr, q.eq_text('len(%s)' % sv, '1'), True))
    ctx.ob('R14.2', '_free:length-index-updated', ok, fr, None,
           'appended to its bucket, or a new bucket is created and the length inserted in sorted order')
    lv = [v for (dn, t, v) in q.assigns(fr, 'length') if v is not None]
    ok = [ast.unparse(v).replace(' ', '') for v in lv] == ['stop-start'] and \
        all(ast.unparse(t.slice) == 'length' for (dn, t, v) in q.assigns(fr, lambda s: s.startswith('self._len_to_seq[')))
    ctx.ob('R14.2', '_free:bucket-key-is-merged-length', ok, fr, None, 'length = stop - start of the merged extent')


def r14_3(ctx):
    ctx.rule('R14.3', 'coalescing looks at the right neighbours: the stop index is probed with the block\'s start, the '
                      'start index with its stop, and what is found is absorbed into the extent', floor=4)
    m = ctx.model
    fr = m.func('heap:Heap._free')
    probes = {}
    soft = set()        # probes made with dict.get(): a missing neighbour is None, not KeyError
    for n in walk_own(fr.node):
        if isinstance(n, ast.Assign) and isinstance(n.value, ast.Subscript):
            idx, key = _key(n.value)
            if idx in ('_start_to_block', '_stop_to_block'):
                probes[idx] = (n, key, ast.unparse(n.targets[0]))
        elif isinstance(n, ast.Assign) and isinstance(n.value, ast.Call) and isinstance(n.value.func, ast.Attribute) \
                and n.value.func.attr == 'get' and len(n.value.args) == 1 and \
                ast.unparse(n.value.func.value) in ('self._start_to_block', 'self._stop_to_block'):
            idx = n.value.func.value.attr
            probes[idx] = (n, ast.unparse(n.value.args[0]).replace(' ', ''), ast.unparse(n.targets[0]))
            soft.add(idx)
    ok = probes.get('_stop_to_block', (None, None))[1] == '(arena,start)'
    ctx.ob('R14.3', '_free:left-neighbour-ends-at-start', ok, fr, probes.get('_stop_to_block', (None,))[0],
           'prev = self._stop_to_block[(arena, start)]')
    ok = probes.get('_start_to_block', (None, None))[1] == '(arena,stop)'
    ctx.ob('R14.3', '_free:right-neighbour-starts-at-stop', ok, fr, probes.get('_start_to_block', (None,))[0],
           'next = self._start_to_block[(arena, stop)]')
    absorbs = {}
    for n in walk_own(fr.node):
        if isinstance(n, ast.Assign) and isinstance(n.value, ast.Call) and fr.callee(n.value) == 'self._absorb':
            absorbs[ast.unparse(n.value.args[0])] = ast.unparse(n.targets[0]).replace(' ', '').strip('()')
        elif isinstance(n, ast.Assign) and isinstance(n.value, ast.Subscript) and isinstance(n.value.value, ast.Call) \
                and fr.callee(n.value.value) == 'self._absorb' and isinstance(n.value.slice, ast.Constant) and \
                n.value.slice.value in (0, 1) and n.value.value.args:
            # start = self._absorb(b)[0]  is  start, _ = self._absorb(b)
            t = ast.unparse(n.targets[0])
            absorbs[ast.unparse(n.value.value.args[0])] = (t + ',_') if n.value.slice.value == 0 else ('_,' + t)
    pv = probes.get('_stop_to_block', (None, None, None))[2]
    nx = probes.get('_start_to_block', (None, None, None))[2]
    ok = pv in absorbs and absorbs[pv].startswith('start,') and not absorbs[pv].endswith(',stop')
    ctx.ob('R14.3', '_free:left-merge-extends-start', ok, fr, None, 'start, _ = self._absorb(prev_block)')
    ok = nx in absorbs and absorbs[nx].endswith(',stop') and not absorbs[nx].startswith('start,')
    ctx.ob('R14.3', '_free:right-merge-extends-stop', ok, fr, None, '_, stop = self._absorb(next_block)')
    ab = m.func('heap:Heap._absorb')
    rets = [n for n in walk_own(ab.node) if isinstance(n, ast.Return)]
    ok = bool(rets) and all(ast.unparse(r.value).replace(' ', '') in ('start,stop', '(start,stop)') for r in rets)
    ctx.ob('R14.3', '_absorb:returns-its-extent', ok, ab, rets[0] if rets else None, 'return start, stop')
    for idx, (n, key, var) in probes.items():
        h = q.protected_by(fr, n.value, ['KeyError'])
        if idx in soft:
            # .get(): the absorb must be under `<probe> is not None`
            ab_nodes = [x for (x, c_) in q.calls(fr, 'self._absorb') if c_.args and ast.unparse(c_.args[0]) == var]
            okg = bool(ab_nodes) and all(q.has_guard(fr, x, var + ' is None', False) or q.has_guard(fr, x, var, True)
                                         for x in ab_nodes)
            ctx.ob('R14.3', '_free:no-neighbour-is-not-an-error@%s' % idx, okg, fr, n,
                   'probe with .get(), absorbed only when it found a block')
        else:
            ctx.ob('R14.3', '_free:no-neighbour-is-not-an-error@%s' % idx, h is not None, fr, n,
                   'probe inside try/except KeyError')
        # a neighbour that was found is absorbed whatever the other probe found: the only condition on the absorb is
        # its own probe's answer
        for (x, c_) in q.calls(fr, 'self._absorb'):
            if not (c_.args and ast.unparse(c_.args[0]) == var):
                continue
            others = sorted(t for (t, p_) in q.guards_norm(fr, x)
                            if t.replace(' ', '') not in (var + 'isNone', var))
            ctx.ob('R14.3', '_free:found-neighbour-is-absorbed@%s' % idx, not others, fr, c_,
                   'absorbing `%s` depends only on its own probe' % var if not others else
                   'absorbing `%s` also depends on `%s`: a freed block with free blocks on both sides merges with one '
                   'of them only, and the other stays a separate fragment next to it' % (var, others[0]))
        # both neighbours are looked up for every freed block: a "cannot have a neighbour" shortcut must be about the
        # block's own arena (start == 0 / stop == arena.size), nothing else -- arenas differ in size
        cn = fr.cfg.node_containing(n.value)
        g = set()
        for x in cn:
            g |= q.guards_norm(fr, x)
        g = {(t, p) for (t, p) in g}
        allowed = lambda t: t.replace(' ', '') in ('0<start', 'start<0', 'start==0', '0==start', 'stop<arena.size',
                                                    'arena.size<stop', 'arena.size==stop', 'stop==arena.size')
        odd = sorted(t for (t, p) in g if not allowed(t))
        ctx.ob('R14.3', '_free:neighbour-always-looked-up@%s' % idx, not odd, fr, n,
               'the probe is unconditional (or skipped only at the edge of the block\'s own arena)' if not odd else
               'the probe is skipped under `%s`, which is not about the edge of this block\'s arena: adjacent free '
               'blocks stay unmerged and a request that fits their sum maps a new arena' % odd[0])


def r14_4(ctx):
    ctx.rule('R14.4', 'malloc hands out exactly [start, start + size), returns the remainder iff there is one, records '
                      'the block as live before returning; free un-records before freeing; deferred frees are '
                      'drained first', floor=7)
    m = ctx.model
    fi = m.func('heap:Heap.malloc')
    cfg = fi.cfg
    P = fi.positional_params()[1]
    mal = [(n, c) for (n, c) in q.calls(fi, 'self._malloc')]
    q.need(mal, 'Heap.malloc does not call _malloc')
    mn, mc = mal[0]
    rounds = [(dn, v) for (dn, t, v) in q.assigns(fi, P) if isinstance(v, ast.Call) and fi.callee(v) == 'self._roundup']
    ok = bool(rounds) and ast.unparse(mc.args[0]) == P and cfg.dominated_by(mn, [dn for dn, v in rounds])[0]
    ctx.ob('R14.4', 'malloc:asks-for-the-rounded-size', ok, fi, mc, 'size = roundup(...); self._malloc(size)')
    tgt = ast.unparse(mn.ast.targets[0]).replace(' ', '') if isinstance(mn.ast, ast.Assign) else ''
    ctx.ob('R14.4', 'malloc:unpacks-extent', tgt in ('(arena,start,stop)', 'arena,start,stop'), fi, mn, tgt)
    ns = [ast.unparse(v).replace(' ', '') for (dn, t, v) in q.assigns(fi, 'new_stop') if v is not None]
    ctx.ob('R14.4', 'malloc:new_stop-is-start-plus-size', ns in (['start+%s' % P], ['%s+start' % P]), fi, None, str(ns))
    rem = [(n, c) for (n, c) in q.calls(fi, 'self._free')]
    ok = bool(rem)
    for (n, c) in rem:
        g = {x for x in q.guards_norm(fi, n)}
        ok = ok and ast.unparse(c.args[0]).replace(' ', '') == '(arena,new_stop,stop)' and ('new_stop < stop', True) in g
    ctx.ob('R14.4', 'malloc:remainder-freed-iff-nonempty', ok, fi, rem[0][1] if rem else None,
           'if new_stop < stop: self._free((arena, new_stop, stop))')
    # nothing else decides about the remainder: with new_stop < stop taken the free is on every path
    if rem:
        has = q.outcome_edges(fi, 'new_stop < stop', True)
        r = cfg.reach([b for (a, b, l) in has], block_nodes={n.id for (n, c) in rem}, include_src=True, skip_labels=('x',))
        ctx.ob('R14.4', 'malloc:every-nonempty-remainder-is-freed', bool(has) and cfg.exit.id not in r, fi, None,
               'no path with new_stop < stop skips the free (no byte is left in neither the live nor the free set)')
    blk = [(dn, v) for (dn, t, v) in q.assigns(fi, 'block') if v is not None]
    ok = [ast.unparse(v).replace(' ', '') for dn, v in blk] == ['(arena,start,new_stop)']
    ctx.ob('R14.4', 'malloc:block-is-start-to-new_stop', ok, fi, blk[0][0] if blk else None,
           'block = (arena, start, new_stop)')
    adds = [n for (n, c) in q.calls(fi, 'self._allocated_blocks.add') if ast.unparse(c.args[0]) == 'block']
    rets = [n for n in cfg.where(lambda n: isinstance(n.ast, ast.Return))]
    ok = bool(adds) and bool(rets) and all(ast.unparse(r.ast.value) == 'block' and cfg.dominated_by(r, adds)[0] for r in rets)
    ctx.ob('R14.4', 'malloc:recorded-live-before-return', ok, fi, None, 'self._allocated_blocks.add(block); return block')
    dr = q.nodes_calling(fi, 'self._free_pending_blocks')
    ok = bool(dr) and cfg.dominated_by(mn, dr, completed=True)[0]
    ctx.ob('R14.4', 'malloc:deferred-frees-drained-first', ok, fi, None, '_free_pending_blocks() before _malloc()')
    fr = m.func('heap:Heap.free')
    B = fr.positional_params()[1]
    rm = [n for (n, c) in q.calls(fr, 'self._allocated_blocks.remove') if ast.unparse(c.args[0]) == B]
    ff = [n for (n, c) in q.calls(fr, 'self._free') if ast.unparse(c.args[0]) == B]
    ok = bool(rm) and bool(ff) and all(fr.cfg.dominated_by(f, rm, completed=True)[0] for f in ff)
    ctx.ob('R14.4', 'free:unrecorded-before-freed', ok, fr, None, 'live set remove(block) precedes _free(block)')
    dr = q.nodes_calling(fr, 'self._free_pending_blocks')
    ok = bool(dr) and all(fr.cfg.dominated_by(f, dr)[0] for f in ff)
    ctx.ob('R14.4', 'free:drains-deferred-frees', ok, fr, None, 'the lock holder also frees what others deferred')


def r14_5(ctx):
    ctx.rule('R14.5', 'sizes are rounded up to a power-of-two alignment of at least 8 and never to zero', floor=3)
    m = ctx.model
    ci = m.cls('heap:Heap')
    al = ci.attrs.get('_alignment')
    v = al.value if isinstance(al, ast.Constant) else None
    ok = isinstance(v, int) and v >= 8 and v & (v - 1) == 0
    ctx.ob('R14.5', 'alignment-power-of-two>=8', ok, ci, al, '_alignment = %r' % v, line=getattr(al, 'lineno', 0))
    fi = ci.methods['malloc']
    P = fi.positional_params()[1]
    rounds = [v for (dn, t, v) in q.assigns(fi, P) if isinstance(v, ast.Call)]
    ok = [ast.unparse(v).replace(' ', '') for v in rounds] in (['self._roundup(max(%s,1),self._alignment)' % P],
                                                               ['self._roundup(max(1,%s),self._alignment)' % P])
    ctx.ob('R14.5', 'malloc:rounds-max(size,1)', ok, fi, None, str([ast.unparse(v) for v in rounds]))
    ru = ci.methods['_roundup']
    n_, a_ = ru.positional_params()[-2:]
    body = {ast.unparse(t): ast.unparse(v).replace(' ', '') for st in walk_own(ru.node) if isinstance(st, ast.Assign)
            for t, v in [(st.targets[0], st.value)]}
    rets = [ast.unparse(r.value).replace(' ', '') for r in walk_own(ru.node) if isinstance(r, ast.Return)]
    mask = [k for k, v in body.items() if v == '%s-1' % a_]
    forms = set()
    for mk in mask:
        forms |= {'%s+%s&~%s' % (n_, mk, mk), '(%s+%s)&~%s' % (n_, mk, mk)}
    forms |= {'(%s+%s-1)&~(%s-1)' % (n_, a_, a_), '%s+(%s-1)&~(%s-1)' % (n_, a_, a_), '(%s+(%s-1))&~(%s-1)' % (n_, a_, a_)}
    # ~(a - 1) == -a for every integer
    for mk in mask:
        forms |= {'%s+%s&-%s' % (n_, mk, a_), '(%s+%s)&-%s' % (n_, mk, a_)}
    forms |= {'(%s+%s-1)&-%s' % (n_, a_, a_), '%s+(%s-1)&-%s' % (n_, a_, a_), '(%s+(%s-1))&-%s' % (n_, a_, a_)}
    ok = len(rets) == 1 and rets[0] in forms
    ctx.ob('R14.5', '_roundup:(n+a-1)&~(a-1)', ok, ru, None, 'return %s' % rets)


def r14_6(ctx):
    ctx.rule('R14.6', 'best fit, and a new arena only when no free extent is large enough', floor=4)
    m = ctx.model
    fi = m.func('heap:Heap._malloc')
    cfg = fi.cfg
    S = fi.positional_params()[1]
    bis = [(dn, v) for (dn, t, v) in q.assigns(fi, None) if isinstance(v, ast.Call) and fi.callee(v) == 'bisect.bisect_left']
    ok = len(bis) == 1 and [ast.unparse(a) for a in bis[0][1].args] == ['self._lengths', S]
    ivar = ast.unparse(bis[0][0].ast.targets[0]) if bis else '?'
    ctx.ob('R14.6', '_malloc:smallest-sufficient-length', ok, fi, bis[0][0] if bis else None,
           'i = bisect_left(self._lengths, size)')
    arenas = [(n, c) for (n, c) in q.calls(fi, 'Arena')]
    none_fit = q.eq_text(ivar, 'len(self._lengths)')
    ok = bool(arenas) and all(q.has_guard(fi, n, none_fit, True) for (n, c) in arenas)
    ctx.ob('R14.6', '_malloc:new-arena-only-when-nothing-fits', ok, fi, arenas[0][1] if arenas else None,
           'Arena(...) only under i == len(self._lengths)')
    reuse = [dn for (dn, t, v) in q.assigns(fi, 'length') if v is not None and ast.unparse(v) == 'self._lengths[%s]' % ivar]
    ok = bool(reuse) and all(q.has_guard(fi, n, none_fit, False) for n in reuse)
    ctx.ob('R14.6', '_malloc:reuses-the-found-bucket', ok, fi, reuse[0] if reuse else None, 'length = self._lengths[i]')
    newlen = [v for (dn, t, v) in q.assigns(fi, 'length') if isinstance(v, ast.Call) and fi.callee(v) == 'self._roundup']
    ok = bool(newlen) and all(ast.unparse(v.args[0]).replace(' ', '') in ('max(self._size,%s)' % S, 'max(%s,self._size)' % S)
                              for v in newlen)
    ctx.ob('R14.6', '_malloc:new-arena-covers-the-request', ok, fi, None, 'length = roundup(max(self._size, size), PAGESIZE)')
    rets = [n for n in cfg.where(lambda n: isinstance(n.ast, ast.Return))
            if q.has_guard(fi, n, none_fit, True)]
    ok = bool(rets) and all(ast.unparse(r.ast.value).replace(' ', '') == '(arena,0,length)' for r in rets)
    ctx.ob('R14.6', '_malloc:new-arena-is-one-free-extent', ok, fi, rets[0] if rets else None, 'return (arena, 0, length)')
    ap = q.nodes_calling(fi, 'self._arenas.append')
    ctx.ob('R14.6', '_malloc:arena-kept-alive', bool(ap), fi, None, 'self._arenas.append(arena)')
    # the position found by the search stays valid until it is used: nothing that changes the free lists (a drain of
    # the pending frees, a free) runs between the search and the use of its result
    if bis:
        after = cfg.reach([bis[0][0].id], skip_labels=('x',))
        muts = [(n, c) for (n, c) in q.calls(fi, lambda t: t.startswith('self.') and t.split('.')[1] in PRIVATE)
                if n.id in after and fi.callee(c) != 'self._delete']
        uses = [n for n in reuse] + [n for (n, c) in arenas]
        stale = [(n, c) for (n, c) in muts if any(u.id in cfg.reach([n.id], skip_labels=('x',)) for u in uses)]
        ctx.ob('R14.6', '_malloc:search-result-not-invalidated', not stale, fi, stale[0][1] if stale else bis[0][0],
               'no free-list mutation between the search and the use of its index' if not stale else
               '`%s` changes the free lists after `%s` was computed and before it is used: the index points at another '
               '(possibly too small) extent and the block handed out overlaps its neighbour'
               % (ast.unparse(stale[0][1]), ivar))


def run(ctx):
    from .sweep import r14_9 as _r14_9
    _r14_9(ctx)
    from .sweep import r14_10 as _r14_10
    _r14_10(ctx)
    # free lists, live set and arena list belong to one heap object (and are re-created by its constructor, which
    # is how a forked child gets an empty heap)
    from .generic import per_instance_state
    per_instance_state(ctx, 'R14.7', ['heap'], floor=5)
    from .c15 import r15_5
    r15_5(ctx)
    from .generic import handlers_match_lookups
    handlers_match_lookups(ctx, 'R14.8', ['heap'], floor=1)
    r14_1(ctx)
    r14_2(ctx)
    r14_3(ctx)
    r14_4(ctx)
    r14_5(ctx)
    r14_6(ctx)
    ctx.assume('list.append / list.pop are atomic under the GIL (the deferred-free list is used without the lock)')


_H = 'billiard/heap.py'
MUTANTS = [
    ('absorbed-block-stays-in-its-bucket', 'billiard/heap.py', "        seq.remove(block)\n        if not seq:\n", "        if not seq:\n", 'R14.10'),
    ('pending-frees-drained-after-the-search', _H, "        i = bisect.bisect_left(self._lengths, size)\n        if i == len(self._lengths):\n",
     "        i = bisect.bisect_left(self._lengths, size)\n        if i == len(self._lengths) and self._pending_free_blocks:\n            self._free_pending_blocks()\n        if i == len(self._lengths):\n", 'R14.6'),
    ('free-list-index-shared-by-all-heaps', _H, "    _alignment = 8\n\n    def __init__(self, size=mmap.PAGESIZE):\n        self._lastpid = os.getpid()\n        self._lock = threading.Lock()\n        self._size = size\n        self._lengths = []\n        self._len_to_seq = {}\n",
     "    _alignment = 8\n    _len_to_seq = {}\n\n    def __init__(self, size=mmap.PAGESIZE):\n        self._lastpid = os.getpid()\n        self._lock = threading.Lock()\n        self._size = size\n        self._lengths = []\n", ('R14.7', 'R15.5')),
    ('child-keeps-the-inherited-free-lists', _H, "            self.__init__()                     # reinitialize after fork\n",
     "            self._lastpid = os.getpid()\n            self._lock = threading.Lock()\n            self._allocated_blocks = set()\n", 'R15.5'),
    ('reentrant-heap-lock', _H, "        self._lock = threading.Lock()", "        self._lock = threading.RLock()", 'R14.1'),
    ('free-without-lock', _H, "        if not self._lock.acquire(False):\n            # can't acquire the lock right now, add the block to the list of\n            # pending blocks to free\n            self._pending_free_blocks.append(block)\n        else:\n            # we hold the lock\n            try:\n                self._free_pending_blocks()\n                self._allocated_blocks.remove(block)\n                self._free(block)\n            finally:\n                self._lock.release()",
     "        self._free_pending_blocks()\n        self._allocated_blocks.remove(block)\n        self._free(block)", 'R14.1'),
    ('release-not-in-finally', _H, "            try:\n                self._free_pending_blocks()\n                self._allocated_blocks.remove(block)\n                self._free(block)\n            finally:\n                self._lock.release()",
     "            self._free_pending_blocks()\n            self._allocated_blocks.remove(block)\n            self._free(block)\n            self._lock.release()", 'R14.1'),
    ('failed-trylock-frees-anyway', _H, "            self._pending_free_blocks.append(block)\n        else:", "            self._allocated_blocks.remove(block)\n            self._pending_free_blocks.append(block)\n        else:", 'R14.1'),
    ('drain-snapshot-and-clear', _H, "        while 1:\n            try:\n                block = self._pending_free_blocks.pop()\n            except IndexError:\n                break\n            self._allocated_blocks.remove(block)\n            self._free(block)",
     "        for block in tuple(self._pending_free_blocks):\n            self._allocated_blocks.remove(block)\n            self._free(block)\n        del self._pending_free_blocks[:]", 'R14.1'),
    ('malloc-outside-lock', _H, "        with self._lock:\n            self._free_pending_blocks()\n            size = self._roundup(max(size, 1), self._alignment)",
     "        self._free_pending_blocks()\n        with self._lock:\n            size = self._roundup(max(size, 1), self._alignment)", 'R14.1'),
    ('stop-index-stale', _H, "        (arena, start, stop) = block\n        del self._start_to_block[(arena, start)]\n        del self._stop_to_block[(arena, stop)]\n        return block",
     "        (arena, start, stop) = block\n        del self._start_to_block[(arena, start)]\n        return block", 'R14.2'),
    ('absorb-wrong-key', _H, "        (arena, start, stop) = block\n        del self._start_to_block[(arena, start)]\n        del self._stop_to_block[(arena, stop)]\n\n        length = stop - start",
     "        (arena, start, stop) = block\n        del self._start_to_block[(arena, start)]\n        del self._stop_to_block[(arena, start)]\n\n        length = stop - start", 'R14.2'),
    ('bucket-never-dropped', _H, "        block = seq.pop()\n            if not seq:\n                del self._len_to_seq[length], self._lengths[i]", "        block = seq.pop()", 'R14.2'),
    ('free-registers-unmerged', _H, "        block = (arena, start, stop)\n        length = stop - start\n\n        try:", "        length = stop - start\n\n        try:", 'R14.2'),
    ('free-start-key-wrong', _H, "        self._start_to_block[(arena, start)] = block\n        self._stop_to_block[(arena, stop)] = block", "        self._start_to_block[(arena, stop)] = block\n        self._stop_to_block[(arena, stop)] = block", 'R14.2'),
    ('probe-swapped', _H, "            prev_block = self._stop_to_block[(arena, start)]", "            prev_block = self._start_to_block[(arena, start)]", 'R14.3'),
    ('right-probe-at-start', _H, "            next_block = self._start_to_block[(arena, stop)]", "            next_block = self._start_to_block[(arena, start)]", 'R14.3'),
    ('merge-not-applied', _H, "            start, _ = self._absorb(prev_block)", "            self._absorb(prev_block)", 'R14.3'),
    ('remainder-sliver-dropped', _H, "            if new_stop < stop:\n                self._free((arena, new_stop, stop))", "            if stop - new_stop > self._alignment:\n                self._free((arena, new_stop, stop))", 'R14.4'),
    ('block-keeps-whole-extent', _H, "            block = (arena, start, new_stop)", "            block = (arena, start, stop)", 'R14.4'),
    ('remainder-from-start', _H, "                self._free((arena, new_stop, stop))", "                self._free((arena, start, stop))", 'R14.4'),
    ('unrounded-request', _H, "            (arena, start, stop) = self._malloc(size)\n            new_stop = start + size", "            (arena, start, stop) = self._malloc(size)\n            new_stop = start + size - 1", 'R14.4'),
    ('not-recorded-live', _H, "            self._allocated_blocks.add(block)\n            return block", "            return block", 'R14.4'),
    ('alignment-6', _H, "    _alignment = 8", "    _alignment = 6", 'R14.5'),
    ('zero-size-block', _H, "self._roundup(max(size, 1), self._alignment)", "self._roundup(size, self._alignment)", 'R14.5'),
    ('roundup-down', _H, "        return (n + mask) & ~mask", "        return n & ~mask", 'R14.5'),
    ('first-fit-right', _H, "        i = bisect.bisect_left(self._lengths, size)", "        i = bisect.bisect_right(self._lengths, size)", 'R14.6'),
    ('always-new-arena', _H, "        if i == len(self._lengths):\n            length = self._roundup", "        if i <= len(self._lengths):\n            length = self._roundup", 'R14.6'),
    ('arena-too-small', _H, "            length = self._roundup(max(self._size, size), mmap.PAGESIZE)", "            length = self._roundup(self._size, mmap.PAGESIZE)", 'R14.6'),
]
TWINS = [
    ('remainder-flipped', _H, "            if new_stop < stop:\n                self._free((arena, new_stop, stop))", "            if stop > new_stop:\n                self._free((arena, new_stop, stop))"),
    ('while-true', _H, "        while 1:\n            try:\n                block = self._pending_free_blocks.pop()", "        while True:\n            try:\n                block = self._pending_free_blocks.pop()"),
    ('none-fit-flipped', _H, "        if i == len(self._lengths):\n            length = self._roundup", "        if len(self._lengths) == i:\n            length = self._roundup"),
]
