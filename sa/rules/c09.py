"""C09 — pool keeps its size; workers are recycled on schedule without harm."""
import ast

from ..model import walk_own, dotted
from .. import q
from .poolfacts import WorkloopAnchors
from .entryiface import r04_3


def _loop_over(fi, pred):
    return [n for n in fi.cfg.where(lambda n: n.kind == 'for') if pred(n.stmt)]


def r09_1(ctx, refill=True, state_recheck=True):
    """refill: the obligations about how many workers are started (C05, C09: the pool is brought back to size).
    state_recheck: no fork once the pool left RUN (C07, C08: every worker has exited after join()/terminate())."""
    ctx.rule('R09.1', '_repopulate_pool starts exactly the missing number of workers, re-checking the pool state '
                      'before every fork; _create_worker_process adds exactly one started worker',
             floor=7 if refill and state_recheck else 1 if not refill else 6)
    m = ctx.model
    fi = m.func('pool:Pool._repopulate_pool')
    cfg = fi.cfg
    creates = q.nodes_calling(fi, 'self._create_worker_process')
    q.need(creates, '_repopulate_pool does not call _create_worker_process')
    loops = [n for n in cfg.where(lambda n: n.kind == 'for') if any(q.inside(fi, c, n.stmt.body) for c in creates)]
    q.need(loops, '_repopulate_pool: creation is not inside a loop')
    loop = loops[0]
    if state_recheck:
        for c in creates:
            g = q.guards_norm(fi, c, srcs=[loop])
            ok = (q.eq_text('self._state', 'RUN'), True) in g
            ctx.ob('R09.1', '_repopulate_pool:state-rechecked-before-every-fork', ok, fi, c,
                   'within each iteration the fork is preceded by a test of self._state == RUN (terminate() may '
                   'have run since the previous fork)')
    if not refill:
        return
    it = loop.stmt.iter
    ok = isinstance(it, ast.Call) and fi.callee(it) == 'range' and len(it.args) == 1 and \
        q.expand(fi, it.args[0]).replace(' ', '') in ('self._processes-len(self._pool)',)
    ctx.ob('R09.1', '_repopulate_pool:trip-count-is-target-minus-live', ok, fi, it, 'for ... in %s' % ast.unparse(it))
    cids = {c.id for c in creates}
    r = cfg.count_range([loop], [loop], lambda n: n.id in cids, skip_labels=('x',), completed=True)
    ctx.ob('R09.1', '_repopulate_pool:one-worker-per-iteration', r == (1, 1), fi, loop,
           'creations on normal paths through one iteration: min,max = %r' % (r,))
    early = [n for n in q.loop_early_exits(fi, loop)]
    ok = all(q.has_guard(fi, n, q.eq_text('self._state', 'RUN'), False) for n in early)
    ctx.ob('R09.1', '_repopulate_pool:stops-early-only-when-not-running', ok, fi, early[0] if early else loop,
           'the loop is left early only under self._state != RUN')
    cw = m.func('pool:Pool._create_worker_process')
    c2 = cw.cfg
    apps = {n.id for n in q.nodes_calling(cw, 'self._pool.append')}
    r = c2.count_range([c2.entry], [c2.exit], lambda n: n.id in apps, skip_labels=('x',))
    ctx.ob('R09.1', '_create_worker_process:appends-exactly-one', r == (1, 1), cw, None,
           'self._pool.append on normal paths: min,max = %r' % (r,))
    starts = q.nodes_calling(cw, lambda t: t.endswith('.start'))
    ok, w = c2.must_pass([c2.entry], [c2.exit], starts, skip_labels=('x',)) if starts else (False, None)
    ctx.ob('R09.1', '_create_worker_process:starts-the-worker', ok, cw, None, 'w.start() on every normal path', path=w)
    # registrations keyed by the started worker's pid, same counter object that went into the Worker
    reg = [(n, t, v) for (n, t, v) in q.assigns(cw, lambda t: t.startswith('self._on_ready_counters['))]
    ok = bool(reg)
    wk = [c for (n, c) in q.calls(cw, 'self.Worker')]
    for (n, t, v) in reg:
        passed = [k.value for c in wk for k in c.keywords if k.arg == 'on_ready_counter']
        ok = ok and bool(passed) and all(ast.unparse(p) == ast.unparse(v) for p in passed) and \
            ast.unparse(t.slice).endswith('.pid') and \
            (c2.must_pass([c2.entry], [n], starts, skip_labels=('x',))[0] if starts else False)
    ctx.ob('R09.1', '_create_worker_process:counter-registered-under-own-pid', ok, cw, reg[0][0] if reg else None,
           'the counter handed to the Worker is the one registered under w.pid after start()')


def r09_2(ctx):
    ctx.rule('R09.2', 'each new worker gets a slot index not used by any live worker', floor=3)
    m = ctx.model
    ai = m.func('pool:Pool._avail_index')
    rets = [n for n in ai.cfg.where(lambda n: n.kind == 'stmt' and isinstance(n.ast, ast.Return))]
    ok = False
    detail = 'return not recognised'
    if len(rets) == 1 and isinstance(rets[0].ast.value, ast.Call) and ai.callee(rets[0].ast.value) == 'next':
        g = rets[0].ast.value.args[0]
        if isinstance(g, ast.GeneratorExp) and len(g.generators) == 1:
            gen = g.generators[0]
            var = ast.unparse(gen.target)
            used = None
            f0, neg = (gen.ifs[0], False) if len(gen.ifs) == 1 else (None, False)
            while isinstance(f0, ast.UnaryOp) and isinstance(f0.op, ast.Not):
                f0, neg = f0.operand, not neg
            if isinstance(f0, ast.Compare) and len(f0.ops) == 1 and ast.unparse(f0.left) == var and \
                    (isinstance(f0.ops[0], ast.NotIn) and not neg or isinstance(f0.ops[0], ast.In) and neg):
                used = f0.comparators[0]
            ok = ast.unparse(g.elt) == var and ast.unparse(gen.iter) == 'range(self._processes)' and used is not None
            if ok:
                udefs = [v for (dn, t, v) in q.assigns(ai, ast.unparse(used))] if isinstance(used, ast.Name) else [used]
                ok = len(udefs) == 1 and ast.unparse(udefs[0]).replace(' ', '').replace('((', '(').replace('))', ')') in (
                    'set(p.indexforpinself._pool)', '{p.indexforpinself._pool}', '[p.indexforpinself._pool]')
            detail = ast.unparse(rets[0].ast.value)
    ctx.ob('R09.2', '_avail_index:first-index-not-in-use', ok, ai, rets[0] if rets else None, detail)
    rp = m.func('pool:Pool._repopulate_pool')
    for (n, c) in q.calls(rp, 'self._create_worker_process'):
        ok = len(c.args) == 1 and ast.unparse(c.args[0]) == 'self._avail_index()'
        ctx.ob('R09.2', '_repopulate_pool:index-from-_avail_index', ok, rp, c, ast.unparse(c))
    cw = m.func('pool:Pool._create_worker_process')
    P = cw.positional_params()[1]
    idx = [dn for (dn, t, v) in q.assigns(cw, lambda t: t.endswith('.index')) if v is not None and ast.unparse(v) == P]
    apps = q.nodes_calling(cw, 'self._pool.append')
    ok = bool(idx) and bool(apps)
    ctx.ob('R09.2', '_create_worker_process:index-assigned-from-parameter', ok, cw, idx[0] if idx else None,
           'w.index = %s' % P)


def r09_9(ctx):
    ctx.rule('R09.9', 'the reaper removes exactly the workers that exited: it deletes by position only while walking '
                      'the list backwards (a deletion shifts every later position), or removes by identity', floor=1)
    m = ctx.model
    je = m.func('pool:Pool._join_exited_workers')
    cfg = je.cfg
    dels = [n for n in cfg.where(lambda n: n.kind == 'stmt' and isinstance(n.ast, ast.Delete) and
                                 any(isinstance(t, ast.Subscript) and je.canon(t.value) == 'self._pool'
                                     for t in n.ast.targets))]
    by_value = [n for (n, c) in q.calls(je, 'self._pool.remove')]
    q.need(dels or by_value, '_join_exited_workers removes nobody from the worker list')
    for d in dels:
        loops = [lp for lp in cfg.where(lambda x: x.kind == 'for') if q.inside(je, d, lp.stmt.body)]
        ok = False
        why = 'deletion by position outside a loop'
        if loops:
            it = ast.unparse(loops[-1].stmt.iter).replace(' ', '')
            idx = [ast.unparse(t.slice) for t in d.ast.targets if isinstance(t, ast.Subscript)][0]
            tgt = ast.unparse(loops[-1].stmt.target)
            backwards = it.startswith('reversed(range(len(self._pool)))') or it.startswith('range(len(self._pool)-1,-1,-1)')
            ok = backwards and idx == tgt
            why = 'for %s in %s: ... del self._pool[%s]' % (tgt, ast.unparse(loops[-1].stmt.iter), idx)
        ctx.ob('R09.9', 'reaper:positional-delete-only-walking-backwards', ok, je, d,
               why if ok else
               '%s -- after the first deletion of a pass the positions are shifted: the next exited worker stays in '
               'the list and a live neighbour is dropped from supervision' % why)
    for n in by_value:
        ctx.ob('R09.9', 'reaper:removes-by-identity', True, je, n, 'self._pool.remove(worker)')


def r09_7(ctx):
    ctx.rule('R09.7', 'workers are started from one place: the refill is called only by the supervision tick, the fork '
                      'only by the refill and the constructor -- "how many are missing / which slot is free" is '
                      'check-then-act without a lock, so a second caller (another thread) starts a worker too many '
                      'on a slot already taken', floor=3)
    m = ctx.model
    allowed = {'_repopulate_pool': {'_maintain_pool'}, '_create_worker_process': {'_repopulate_pool', '__init__'}}
    seen = {k: set() for k in allowed}
    for qn, fi in sorted(m.funcs.items()):
        if fi.module.name != 'pool':
            continue
        for (n, c) in q.calls(fi, lambda t: t.split('.')[-1] in allowed and t.startswith('self.')):
            callee = fi.callee(c).split('.')[-1]
            seen[callee].add(fi.name)
            ok = fi.cls is not None and fi.cls.name == 'Pool' and fi.name in allowed[callee]
            ctx.ob('R09.7', '%s:called-from-%s' % (callee, fi.name), ok, fi, c,
                   'the one place that starts workers' if ok else
                   'Pool.%s also starts workers: it runs in the caller\'s thread, concurrently with the supervisor\'s '
                   'refill -- both see the same missing count and the same free slot' % fi.name)
    q.need(all(seen[k] for k in allowed), 'callers of the refill / fork not found')


def r09_3(ctx):
    ctx.rule('R09.3', 'a supervision tick reaps first, then refills with what the reaper returned', floor=2)
    m = ctx.model
    fi = m.func('pool:Pool._maintain_pool')
    cfg = fi.cfg
    reap = [(n, c) for (n, c) in q.calls(fi, 'self._join_exited_workers')]
    fill = [(n, c) for (n, c) in q.calls(fi, 'self._repopulate_pool')]
    q.need(reap and fill, '_maintain_pool does not reap and refill')
    ok, w = cfg.must_pass([cfg.entry], [n for (n, c) in fill], [n for (n, c) in reap], completed=True)
    ctx.ob('R09.3', '_maintain_pool:reap-before-refill', ok, fi, fill[0][0],
           '_join_exited_workers() completes before _repopulate_pool()', path=w)
    var = ast.unparse(reap[0][0].ast.targets[0]) if isinstance(reap[0][0].ast, ast.Assign) else None
    ok = var is not None and all(len(c.args) == 1 and ast.unparse(c.args[0]) == var for (n, c) in fill)
    ctx.ob('R09.3', '_maintain_pool:refill-gets-reaper-result', ok, fi, fill[0][1], '_repopulate_pool(%s)' % var)
    ok, w = cfg.must_pass([cfg.entry], [cfg.exit], [n for (n, c) in fill], skip_labels=('x',))
    ctx.ob('R09.3', '_maintain_pool:refill-on-every-tick', ok, fi, None, 'not skippable', path=w)


def r09_4(ctx):
    """quota / memory-limit exit: shared with C03 (R03.4) and C07 (R07.7)."""
    from .c03 import r03_4
    from .c07 import r07_7
    A = WorkloopAnchors(ctx)
    r03_4(ctx, A)
    r07_7(ctx)


def r09_5(ctx):
    ctx.rule('R09.5', 'grow and shrink move the target size and the slot semaphore together; shrink lowers the '
                      'target before it terminates an inactive worker', floor=6)
    m = ctx.model
    gr = m.func('pool:Pool.grow')
    cfg = gr.cfg
    inc = [dn for (dn, t, v) in q.assigns(gr, 'self._processes') if isinstance(dn.ast, ast.AugAssign)
           and isinstance(dn.ast.op, ast.Add) and ast.unparse(dn.ast.value) == '1']
    sg = q.nodes_calling(gr, 'self._putlock.grow')
    loops = [n for n in cfg.where(lambda n: n.kind == 'for')]
    ok = bool(inc) and bool(sg) and bool(loops)
    if ok:
        no_sem = q.outcome_edges(gr, 'self._putlock', False) | q.outcome_edges(gr, 'self._putlock is None', True)
        ok1, _ = q.every_iteration_passes(gr, loops[0], inc)
        ok2, _ = q.every_iteration_passes(gr, loops[0], sg, block_edges=no_sem)
        ok = ok1 and ok2 and ast.unparse(loops[0].stmt.iter) == 'range(%s)' % gr.positional_params()[1]
    ctx.ob('R09.5', 'grow:target-and-semaphore-per-step', ok, gr, None,
           'n iterations, each: self._processes += 1 and self._putlock.grow()')
    sh = m.func('pool:Pool.shrink')
    c2 = sh.cfg
    dec = [dn for (dn, t, v) in q.assigns(sh, 'self._processes') if isinstance(dn.ast, ast.AugAssign)
           and isinstance(dn.ast.op, ast.Sub) and ast.unparse(dn.ast.value) == '1']
    ss = q.nodes_calling(sh, 'self._putlock.shrink')
    loops = [n for n in c2.where(lambda n: n.kind == 'for')]
    q.need(loops, 'Pool.shrink has no loop')
    loop = loops[0]
    var = None
    t = loop.stmt.target
    if isinstance(t, ast.Tuple):
        var = ast.unparse(t.elts[-1])
    elif isinstance(t, ast.Name):
        var = t.id
    term = q.nodes_calling(sh, (var + '.terminate_controlled',)) if var else []
    ok = 'self._iterinactive()' in ast.unparse(loop.stmt.iter)
    ctx.ob('R09.5', 'shrink:only-inactive-workers', ok, sh, loop.stmt.iter, 'iterates %s' % ast.unparse(loop.stmt.iter))
    ok = bool(term)
    ctx.ob('R09.5', 'shrink:controlled-termination', ok, sh, term[0] if term else None,
           'the worker taken from the inactive set is terminated with terminate_controlled()')
    no_sem = q.outcome_edges(sh, 'self._putlock', False) | q.outcome_edges(sh, 'self._putlock is None', True)
    ok = bool(dec) and bool(ss) and bool(term)
    if ok:
        a, _ = q.every_iteration_passes(sh, loop, dec)
        b, _ = q.every_iteration_passes(sh, loop, ss, block_edges=no_sem)
        c, _ = q.every_iteration_passes(sh, loop, term)
        ok = a and b and c
    ctx.ob('R09.5', 'shrink:target-semaphore-worker-per-step', ok, sh, None,
           'each iteration lowers the target, shrinks the semaphore and terminates one worker')
    for tn in term:
        ok, w = c2.must_pass([loop], [tn], dec, skip_labels=('x',), completed=True)
        ctx.ob('R09.5', 'shrink:target-lowered-before-terminate', ok, sh, tn,
               'self._processes -= 1 precedes terminate_controlled(): otherwise a supervision tick in between '
               '(the semaphore shrink can block) replaces the worker', path=w)
    ii = m.func('pool:Pool._iterinactive')
    ys = [n for n in ii.cfg.where(lambda n: n.kind == 'stmt' and isinstance(n.ast, ast.Expr)
                                  and isinstance(n.ast.value, ast.Yield))]
    ok = bool(ys) and all(any(t.startswith('self._worker_active(') and not p for (t, p) in q.guards_norm(ii, n)) for n in ys)
    if not ys:
        # return filterfalse(self._worker_active, self._pool) / a generator expression with the negated test
        for st in ast.walk(ii.node):
            if isinstance(st, ast.Return) and st.value is not None:
                txt = ast.unparse(st.value).replace(' ', '')
                if txt in ('itertools.filterfalse(self._worker_active,self._pool)',
                           'filterfalse(self._worker_active,self._pool)'):
                    ok = True
    ctx.ob('R09.5', '_iterinactive:yields-only-inactive', ok, ii, ys[0] if ys else None,
           'a worker is yielded only when self._worker_active(worker) is false')
    wa = m.func('pool:Pool._worker_active')
    rets = [n for n in wa.cfg.where(lambda n: n.kind == 'stmt' and isinstance(n.ast, ast.Return))]
    tr = [n for n in rets if isinstance(n.ast.value, ast.Constant) and n.ast.value.value is True]
    W = wa.positional_params()[1]
    ok = bool(tr) and all(any(t.startswith(W + '.pid in ') and t.endswith('.worker_pids()') and p
                              for (t, p) in q.guards_norm(wa, n)) for n in tr)
    if not tr:
        # the search read in its normal form (sa/normalize.py search_loops): next((True for job in <cache> if
        # <pid in owners>), False) -- or any(<pid in owners> for job in <cache>)
        def member(c):
            t = ast.unparse(c).replace(' ', '')
            return t.startswith(W + '.pidin') and t.endswith('.worker_pids()')
        for n in rets:
            v = n.ast.value
            if isinstance(v, ast.Call) and isinstance(v.func, ast.Name) and v.args and \
                    isinstance(v.args[0], ast.GeneratorExp) and len(v.args[0].generators) == 1:
                g = v.args[0]
                it = ast.unparse(g.generators[0].iter)
                over_cache = it.startswith('self._cache.') or it.startswith('list(self._cache.') or \
                    it.startswith('tuple(self._cache.')
                if v.func.id == 'next' and len(v.args) == 2 and ast.unparse(g.elt) == 'True' and \
                        ast.unparse(v.args[1]) == 'False' and len(g.generators[0].ifs) == 1 and \
                        member(g.generators[0].ifs[0]) and over_cache:
                    ok, tr = True, [n]
                elif v.func.id == 'any' and not g.generators[0].ifs and member(g.elt) and over_cache:
                    ok, tr = True, [n]
    ctx.ob('R09.5', '_worker_active:owner-of-a-cached-job', ok, wa, tr[0] if tr else None,
           'active iff its pid is among the owners of a job in the cache')
    lx = m.cls('pool:LaxBoundedSemaphore')
    s2 = lx.methods.get('shrink')
    q.need(s2 is not None, 'LaxBoundedSemaphore.shrink not found')
    d = [dn for (dn, t, v) in q.assigns(s2, 'self._initial_value') if isinstance(dn.ast, ast.AugAssign)
         and isinstance(dn.ast.op, ast.Sub)]
    ac = q.nodes_calling(s2, 'self.acquire')
    ok = bool(d) and bool(ac)
    ctx.ob('R09.5', 'LaxBoundedSemaphore.shrink:bound-and-value', ok, s2, None, '_initial_value -= 1 and acquire()')


def r09_10(ctx):
    ctx.rule('R09.10', 'the status a worker leaves with is the one of its last sys.exit(): the wrapper installed as '
                       'sys.exit records every status, unconditionally (a task that once called sys.exit(3) and was '
                       'handled must not decide the status of the recycle exit much later)', floor=1)
    m = ctx.model
    call = m.func('pool:Worker.__call__')
    # the wrapper: the nested function that __call__ installs as sys.exit
    installed = {ast.unparse(v) for (dn, t, v) in q.assigns(call, 'sys.exit') if v is not None}
    wrappers = [ch for name, ch in call.children.items() if name in installed]
    q.need(wrappers, 'Worker.__call__: the sys.exit wrapper that records the status was not found')
    for w in wrappers:
        P = w.positional_params()
        # the record: a one-element list used as a cell, or a nonlocal name
        recs = [(dn, t, v) for (dn, t, v) in q.assigns(w, None) if v is not None and P and ast.unparse(v) == P[0]]
        guarded = [dn for (dn, t, v) in recs if q.guards_norm(w, dn)]
        ok = bool(recs) and not guarded
        ctx.ob('R09.10', 'exit-wrapper:records-every-status', ok, w, (guarded[0] if guarded else None),
               '_exitcode[0] = status on every call' if ok else
               'the status is recorded only under `%s`: an earlier, already handled sys.exit() of a task decides the '
               'exit status of the worker' % sorted(t for (t, p) in q.guards_norm(w, guarded[0]))[0] if guarded else
               'the wrapper does not record its argument')


def r09_11(ctx):
    ctx.rule('R09.11', 'a leaving worker stops waiting for the parent only when every result it sent was counted, or '
                       'when the full retry budget is used up -- no other way out of the wait', floor=1)
    m = ctx.model
    fi = m.func('pool:Worker._ensure_messages_consumed')
    cfg = fi.cfg
    loops = [n for n in cfg.where(lambda n: n.kind == 'for')
             if 'GUARANTEE_MESSAGE_CONSUMPTION_RETRY_LIMIT' in ast.unparse(n.stmt.iter) or 'range' in ast.unparse(n.stmt.iter)]
    q.need(loops, '_ensure_messages_consumed: retry loop not found')
    P = fi.positional_params()[1]
    lp = loops[0]
    early = list(q.loop_early_exits(fi, lp))
    def is_reached(e):
        # <counter>.value >= completed, the counter possibly through a local alias
        if not (isinstance(e, ast.Compare) and len(e.ops) == 1):
            return False
        a, b = e.left, e.comparators[0]
        if isinstance(e.ops[0], ast.LtE):
            a, b = b, a
        elif not isinstance(e.ops[0], ast.GtE):
            return False
        return fi.canon(a) == 'self.on_ready_counter.value' and ast.unparse(b) == P
    reached = [t for t in cfg.where(lambda t: t.kind == 'test') if is_reached(t.ast)]
    bad = [n for n in early if not any(q.has_guard(fi, n, *q.norm_guard(fi, t.ast, True)) for t in reached)]
    ctx.ob('R09.11', '_ensure_messages_consumed:leaves-early-only-when-consumed', bool(reached) and not bad, fi,
           bad[0] if bad else lp,
           'the loop is left early only under on_ready_counter.value >= completed' if not bad else
           'the wait is given up before the retry budget is used although results are outstanding: the worker exits, '
           'is reaped, and its finished job is failed as lost')
    it = ast.unparse(lp.stmt.iter).replace(' ', '')
    ctx.ob('R09.11', '_ensure_messages_consumed:full-retry-budget', it == 'range(GUARANTEE_MESSAGE_CONSUMPTION_RETRY_LIMIT)',
           fi, lp, 'for retry in %s' % it)


def r09_12(ctx):
    ctx.rule('R09.12', 'every worker gets a consumed-results counter of its own, made for it: the counter that goes into '
                       'the Worker and into the per-pid table is a fresh Value created in _create_worker_process (a '
                       'counter handed on from the previous worker of the slot already holds that worker\'s count: the '
                       'new one stops waiting for its results at once)', floor=1)
    m = ctx.model
    cw = m.func('pool:Pool._create_worker_process')
    reg = [(dn, t, v) for (dn, t, v) in q.assigns(cw, lambda t: t.startswith('self._on_ready_counters['))]
    q.need(reg, '_create_worker_process does not register a counter')
    for (dn, t, v) in reg:
        name = ast.unparse(v)
        defs = [d for (n_, t_, d) in q.assigns(cw, name)] if isinstance(v, ast.Name) else [v]
        ok = bool(defs) and all(isinstance(d, ast.Call) and (cw.callee(d) or '').endswith('.Value') for d in defs)
        ctx.ob('R09.12', '_create_worker_process:counter-is-fresh', ok, cw, dn,
               '%s = self._ctx.Value(...) made in this call' % name if ok else
               'the counter registered for the new worker is `%s`, not a fresh Value: it carries the count of an earlier '
               'worker' % (ast.unparse(defs[0])[:50] if defs else name))


def run(ctx):
    from .sweep import r09_13 as _r09_13
    _r09_13(ctx)
    from .sweep import r09_14 as _r09_14
    _r09_14(ctx)
    # the consumed-results counter of a new worker starts at zero: Value('i') has no initialiser, the zero fill of
    # RawValue is all there is (borrowed from C15) -- heap blocks are recycled
    from .c15 import r15_1 as _r15_1b
    from ..report import Only as _OnlyS9
    _r15_1b(_OnlyS9(ctx, ('RawValue:',), floor=1, doc='RawValue zero-fills the block it hands out (the pool\'s per-worker counters rely on it)'))
    # shrink() ends a worker with the signal the workers handle (borrowed from C08)
    from .c08 import r08_12 as _r08_12b
    _r08_12b(_OnlyS9(ctx, ('Popen.terminate:',), floor=1, doc='Popen.terminate sends the (remappable) TERM_SIGNAL the workers handle'))
    r09_12(ctx)
    # whether a worker has exited is decided by waitpid alone (borrowed from C19)
    from .c19 import exit_decided_by_waitpid as _edw
    _edw(ctx, 'R19.11')
    r09_10(ctx)
    r09_11(ctx)
    # a replacement worker is entered in the per-pid tables before the user hook (borrowed from C07): a worker whose
    # first result was not credited waits out the 30 s guard when it is recycled, with its slot
    from .c07 import r07_14 as _r07_14
    _r07_14(ctx)
    # the status a recycled worker leaves with is the one it chose: os._exit on every edge of the farewell (borrowed from C08)
    from .c08 import r08_2 as _r08_2
    from ..report import Only as _Only9
    _r08_2(_Only9(ctx, ('_do_exit:',), floor=1, doc='the worker leaves through os._exit(status) on every edge of the DEATH put'))
    # replacements of recycled / grown workers are not charged to the restart limiter (borrowed from C11)
    from .c11 import r11_1 as _r11_1
    _r11_1(_Only9(ctx, ('_repopulate_pool:',), floor=2, doc='the limiter is consulted exactly for workers that left with an abnormal status'))
    r09_1(ctx, state_recheck=False)
    r09_7(ctx)
    r09_9(ctx)
    # "no job is ... failed because of recycling": the only way a worker's exit fails a job is the grace-period scan
    # of the reaper -- nobody declares a job lost on the spot, whatever the exit status
    from .c04 import r04_5
    from ..report import Only
    r04_5(Only(ctx, ('caller:',), floor=1, doc='a job is declared lost only by the reaper\'s grace-period scan'))
    # "no job is ... held up because of recycling" also while the pool is closing
    from .c07 import r07_12
    r07_12(ctx, 'R09.8')
    # a replacement worker's consumed-result counter is registered in the pool's table after the result handler was
    # built: the handler must look at that table itself, or recycled replacements wait out their 30 s guard
    from .c05 import helpers_hold_live_objects
    helpers_hold_live_objects(ctx, 'R09.6', only=('ResultHandler.counters',), floor=1)
    r09_2(ctx)
    r09_3(ctx)
    r09_4(ctx)
    r09_5(ctx)
    r04_3(ctx)
    from .c07 import r07_5
    r07_5(ctx)


_P = 'billiard/pool.py'
MUTANTS = [
    ('shrink-ends-one-worker-too-many', 'billiard/pool.py', '            if i >= n - 1:\n                break', '            if i > n - 1:\n                break', 'R09.14'),
    ('supervisor-does-not-maintain', 'billiard/pool.py', '            while self._state == RUN and pool._state == RUN:\n                pool._maintain_pool()\n                time.sleep(0.8)\n', '            while self._state == RUN and pool._state == RUN:\n                time.sleep(0.8)\n', 'R09.13'),
    ('counter-handed-on-to-the-next-worker-of-the-slot', _P, "        on_ready_counter = self._ctx.Value('i')\n", "        on_ready_counter = self._on_ready_counters.get(i) or self._ctx.Value('i')\n", 'R09.12'),
    ('reaper-skips-workers-whose-sentinel-is-quiet', _P, "            worker = self._pool[i]\n            exitcode = worker.exitcode\n", "            worker = self._pool[i]\n            if worker._popen is not None and not worker._popen.sentinel:\n                continue\n            exitcode = worker.exitcode\n", 'R19.11'),
    ('exit-wrapper-keeps-the-first-status', _P, "        def exit(status=None):\n            _exitcode[0] = status\n", "        def exit(status=None):\n            if _exitcode[0] is None:\n                _exitcode[0] = status\n", 'R09.10'),
    ('consumption-wait-gives-up-on-a-stall', _P, "            time.sleep(GUARANTEE_MESSAGE_CONSUMPTION_RETRY_INTERVAL)\n", "            if retry > 30:\n                break\n            time.sleep(GUARANTEE_MESSAGE_CONSUMPTION_RETRY_INTERVAL)\n", 'R09.11'),
    ('grow-starts-workers-itself', _P, "                self._putlock.grow()\n        self.on_grow(n)\n",
     "                self._putlock.grow()\n        self._repopulate_pool([])\n        self.on_grow(n)\n", 'R09.7'),
    ('one-too-many', _P, "        for i in range(self._processes - len(self._pool)):\n            if self._state != RUN:",
     "        for i in range(self._processes - len(self._pool) + 1):\n            if self._state != RUN:", 'R09.1'),
    ('create-only-abnormal', _P, "            except IndexError:\n                self.restart_state.step()\n            self._create_worker_process(self._avail_index())",
     "            except IndexError:\n                self.restart_state.step()\n                self._create_worker_process(self._avail_index())", 'R09.1'),
    ('worker-not-appended', _P, "        self._pool.append(w)\n        self._process_register_queues", "        self._process_register_queues", 'R09.1'),
    ('counter-other-object', _P, "        self._on_ready_counters[w.pid] = on_ready_counter\n", "        self._on_ready_counters[w.pid] = self._ctx.Value('i')\n", 'R09.1'),
    ('index-in-use', _P, "        return next(i for i in range(self._processes) if i not in indices)", "        return next(i for i in range(self._processes) if i in indices)", 'R09.2'),
    ('index-by-position', _P, "            self._create_worker_process(self._avail_index())", "            self._create_worker_process(len(self._pool))", 'R09.2'),
    ('refill-before-reap', _P, "        joined = self._join_exited_workers()\n        self._repopulate_pool(joined)\n",
     "        self._repopulate_pool([])\n        joined = self._join_exited_workers()\n", 'R09.3'),
    ('refill-ignores-result', _P, "        self._repopulate_pool(joined)\n", "        self._repopulate_pool([])\n", 'R09.3'),
    ('quota-le', _P, "(maxtasks and completed < maxtasks)", "(maxtasks and completed <= maxtasks)", 'R03.4'),
    ('increment-in-else', _P, "                        finally:\n                            del(tb)\n                    completed += 1\n",
     "                        finally:\n                            del(tb)\n                    else:\n                        completed += 1\n", 'R03.4'),
    ('guard-not-in-finally', _P, "        finally:\n            # Before exiting the worker, we want to ensure that that all\n            # messages produced by the worker have been consumed by the main\n            # process. This prevents the worker being terminated prematurely\n            # and messages being lost.\n            self._ensure_messages_consumed(completed=completed)",
     "        except Exception:\n            self._ensure_messages_consumed(completed=completed)\n            raise", 'R07.7'),
    ('grow-semaphore-once', _P, "        for i in range(n):\n            self._processes += 1\n            if self._putlock:\n                self._putlock.grow()\n",
     "        for i in range(n):\n            self._processes += 1\n        if self._putlock:\n            self._putlock.grow()\n", 'R09.5'),
    ('shrink-terminate-first', _P, "            self._processes -= 1\n            if self._putlock:\n                self._putlock.shrink()\n            worker.terminate_controlled()\n",
     "            worker.terminate_controlled()\n            if self._putlock:\n                self._putlock.shrink()\n            self._processes -= 1\n", 'R09.5'),
    ('shrink-any-worker', _P, "        for i, worker in enumerate(self._iterinactive()):", "        for i, worker in enumerate(self._pool):", 'R09.5'),
    ('shrink-plain-terminate', _P, "            worker.terminate_controlled()\n            self.on_shrink(1)", "            worker.terminate()\n            self.on_shrink(1)", 'R09.5'),
    ('inactive-inverted', _P, "            if not self._worker_active(worker):\n                yield worker", "            if self._worker_active(worker):\n                yield worker", 'R09.5'),
]
TWINS = [
    ('state-check-positive', _P, "            if self._state != RUN:\n                return\n            try:\n                if exitcodes and exitcodes[i]",
     "            if not self._state == RUN:\n                return\n            try:\n                if exitcodes and exitcodes[i]"),
    ('shrink-sem-after-dec', _P, "            self._processes -= 1\n            if self._putlock:\n                self._putlock.shrink()\n            worker.terminate_controlled()\n",
     "            self._processes -= 1\n            worker.terminate_controlled()\n            if self._putlock:\n                self._putlock.shrink()\n"),
]
