"""Rules used by more than one property."""
import ast

from ..model import walk_own
from .. import q
from .poolfacts import facts

EXIT_FLAG = '_should_have_exited[0]'


def _catches_systemexit(handler):
    return q.handler_catches(handler, ['SystemExit'])


def r08_1(ctx):
    """Exception-handler discipline in the worker process."""
    ctx.rule('R08.1', 'no handler in worker code can swallow the SystemExit raised by the '
                      'termination-signal handler: it re-raises whenever exit was requested', floor=1)
    m = ctx.model
    worker_funcs = [fi for qn, fi in sorted(m.funcs.items()) if qn.startswith('pool:Worker.')]
    q.need(worker_funcs, 'class pool:Worker not found')
    n_inst = 0
    for fi in worker_funcs:
        for tr in [n for n in walk_own(fi.node) if isinstance(n, ast.Try)]:
            earlier = False
            for h in tr.handlers:
                catches = _catches_systemexit(h) and not earlier
                if _catches_systemexit(h):
                    earlier_reraises = all(isinstance(s, ast.Raise) and s.exc is None for s in h.body[:1])
                if not catches:
                    if _catches_systemexit(h):
                        pass
                    continue
                # does this handler only re-raise?  then later handlers never see SystemExit
                cfg = fi.cfg
                hn = cfg.of(h)
                hn = [n for n in hn if n.kind == 'except']
                if not hn:
                    continue    # unreachable try
                n_inst += 1
                exc_name = h.name
                blocked = set(q.outcome_edges(fi, EXIT_FLAG, False))
                if exc_name:
                    def is_sysexit_test(txt, exc_name=exc_name):
                        return txt.startswith('isinstance(%s, ' % exc_name) and 'SystemExit' in txt
                    blocked |= q.outcome_edges(fi, is_sysexit_test, False)
                body_ids = {n.id for n in cfg.nodes if n.id in cfg.live and q.inside(fi, n, h.body)}
                escaped = set()
                for start in hn:
                    r = cfg.reach([start.id], block_edges=blocked, skip_labels=('x',))
                    escaped |= {i for i in r if i not in body_ids}
                ok = not escaped
                w = None
                if escaped:
                    w = cfg.path([hn[0].id], escaped, block_edges=blocked, skip_labels=('x',))
                body_has_task = any(isinstance(x, ast.Call) and isinstance(x.func, ast.Name)
                                    and x.func.id in ('fun', 'func') for st in tr.body for x in ast.walk(st))
                key = '%s:except-%s%s' % (fi.qual.split(':')[1],
                                          ast.unparse(h.type) if h.type else 'bare',
                                          '@task-call' if body_has_task else '')
                ctx.ob('R08.1', key, ok, fi, h,
                       'handler can catch SystemExit; with exit requested every path through it re-raises'
                       if ok else 'handler can catch SystemExit and completes normally although the '
                       'termination handler requested exit (the worker goes on to take further jobs)',
                       path=w)
                # the first handler whose type matches takes the exception: handlers after one that catches SystemExit
                # never see a SystemExit
                earlier = True
    # the flag tested is the one the signal handler sets, and reset_signals installs that handler
    common = m.modules.get('common')
    q.need(common is not None, 'billiard/common.py not found')
    sc = m.func('common:_shutdown_cleanup')
    sets = [dn for (dn, t, v) in q.assigns(sc, EXIT_FLAG) if v is not None and ast.unparse(v) == 'True']
    exits = q.nodes_calling(sc, 'sys.exit')
    q.need(exits, '_shutdown_cleanup does not call sys.exit')
    for en in exits:
        ok, w = sc.cfg.dominated_by(en, sets) if sets else (False, None)
        ctx.ob('R08.1', '_shutdown_cleanup:flag-set-before-exit', ok, sc, en,
               '%s = True dominates sys.exit()' % EXIT_FLAG, path=w)
    return n_inst
