"""C07 — close() then join() drains all work and leaves no processes behind."""
import ast

from ..model import walk_own, dotted
from .. import q
from ..roots import roots, SEEDS
from .poolfacts import facts, WorkloopAnchors, _msg_tuple
from .entryiface import flow


def r07_1(ctx):
    ctx.rule('R07.1', 'no job is accepted after close(): every construction of a job handle and every put on the '
                      'task queue in a submission method is under self._state == RUN; close() changes the state '
                      'before it enqueues the sentinel', floor=8)
    m = ctx.model
    F = facts(ctx)
    R = roots(m)
    entry_names = {c.name for c in F.entry_classes}
    pool = m.cls('pool:Pool')
    run_txt = q.eq_text('self._state', 'RUN')
    n = 0
    for name, fi in sorted(pool.methods.items()):
        if name.startswith('_') and name != '_map_async':
            continue
        for (cn, c) in q.calls(fi, None):
            callee = fi.callee(c)
            is_ctor = callee.split('.')[-1] in entry_names
            is_put = callee.endswith('.put') and R.root_of(fi, getattr(c.func, 'value', None)) == 'taskqueue' and \
                not (c.args and isinstance(c.args[0], ast.Constant) and c.args[0].value is None)
            is_quick = R.root_of(fi, c.func) == 'inq_put'
            is_deleg = callee in ('self.apply_async', 'self.map_async', 'self._map_async') and name not in ('map_async',)
            if not (is_ctor or is_put or is_quick):
                continue
            n += 1
            ok = q.has_guard(fi, cn, run_txt, True)
            ctx.ob('R07.1', '%s:%s-only-while-running' % (name, 'handle' if is_ctor else 'enqueue'), ok, fi, c,
                   '`%s` is dominated by self._state == RUN' % ast.unparse(c)[:60])
    q.need(n >= 8, 'R07.1 found only %d submission sites' % n)
    # map/map_async delegate to guarded methods
    for name in ('map_async', 'map', 'starmap', 'starmap_async', 'apply'):
        fi = pool.methods.get(name)
        if fi is None:
            continue
        calls_ = [c for (cn, c) in q.calls(fi, ('self._map_async', 'self.map_async', 'self.apply_async'))]
        ctx.ob('R07.1', '%s:delegates-to-guarded-method' % name, bool(calls_), fi, None,
               'goes through a method that tests the pool state')
    cl = m.func('pool:Pool.close')
    sets = [dn for (dn, t, v) in q.assigns(cl, 'self._state') if ast.unparse(v) == 'CLOSE']
    sent = [cn for (cn, c) in q.calls(cl, 'self._taskqueue.put')
            if c.args and isinstance(c.args[0], ast.Constant) and c.args[0].value is None]
    ok = bool(sets) and bool(sent) and all(cl.cfg.dominated_by(s, sets)[0] for s in sent)
    ctx.ob('R07.1', 'close:state-before-sentinel', ok, cl, sent[0] if sent else None,
           'self._state = CLOSE dominates self._taskqueue.put(None)')
    ok = all(q.has_guard(cl, s, run_txt, True) for s in sets + sent)
    ctx.ob('R07.1', 'close:only-from-running', ok, cl, None, 'close acts once, from the RUN state')
    wh = q.nodes_calling(cl, 'self._worker_handler.close')
    ctx.ob('R07.1', 'close:supervisor-closed', bool(wh), cl, None, 'self._worker_handler.close()')


def r07_2(ctx):
    ctx.rule('R07.2', 'the task feeder sends one sentinel to the result handler and one per worker on every way out; '
                      'the worker list it counts is the live list (shared roots are never rebound)', floor=6)
    m = ctx.model
    R = roots(m)
    to = m.func('pool:TaskHandler.tell_others')
    cfg = to.cfg
    outq = [cn for (cn, c) in q.calls(to, None) if to.callee(c).endswith('.put') and
            R.root_of(to, getattr(c.func, 'value', None)) == 'outqueue' and c.args and isinstance(c.args[0], ast.Constant)
            and c.args[0].value is None]
    ok, w = cfg.must_pass([cfg.entry], [cfg.exit], outq, skip_labels=('x',)) if outq else (False, None)
    ctx.ob('R07.2', 'tell_others:result-handler-sentinel', ok, to, outq[0] if outq else None,
           'outqueue.put(None) on every normal path', path=w)
    loops = [n for n in cfg.where(lambda n: n.kind == 'for') if R.root_of(to, n.stmt.iter) == 'workers']
    ok = bool(loops)
    if ok:
        puts = [cn for (cn, c) in q.calls(to, None) if R.root_of(to, c.func) == 'inq_put' and c.args and
                isinstance(c.args[0], ast.Constant) and c.args[0].value is None and q.inside(to, cn, loops[0].stmt.body)]
        ok = bool(puts) and q.every_iteration_passes(to, loops[0], puts)[0] and not q.loop_early_exits(to, loops[0])
        okp, w = cfg.must_pass([cfg.entry], [cfg.exit], loops, skip_labels=('x',))
        ok = ok and okp
    ctx.ob('R07.2', 'tell_others:one-sentinel-per-worker', ok, to, loops[0] if loops else None,
           'for p in <worker list>: put(None), on every normal path')
    body = m.func('pool:TaskHandler.body')
    tn = q.nodes_calling(body, 'self.tell_others')
    ok, w = body.cfg.must_pass([body.cfg.entry], [body.cfg.exit], tn, skip_labels=('x',)) if tn else (False, None)
    ctx.ob('R07.2', 'TaskHandler.body:tell_others-on-every-normal-exit', ok, body, None, 'self.tell_others()', path=w)
    ns = m.func('pool:TaskHandler.on_stop_not_started')
    ctx.ob('R07.2', 'TaskHandler.on_stop_not_started:tell_others', bool(q.nodes_calling(ns, 'self.tell_others')), ns, None,
           'a pool without threads still sends the sentinels when stopped')
    # shared roots never rebound
    pool = m.cls('pool:Pool')
    shared = {a for a, r in SEEDS.items() if r in ('cache', 'workers', 'counters', 'poolctrl')}
    n = 0
    for c in m.subclasses(pool):
        for name, fi in sorted(c.methods.items()):
            for (dn, t, v) in q.assigns(fi, lambda t: t.startswith('self.') and t.split('.')[1] in shared and t.count('.') == 1):
                n += 1
                ok = name == '__init__'
                ctx.ob('R07.2', 'rebind:%s.%s:%s' % (c.name, name, ast.unparse(t)), ok, fi, dn,
                       'helper threads hold a reference taken at construction; assigned only in __init__' if ok else
                       '%s is re-bound after the helper threads captured the old object: they keep counting / '
                       'scanning a stale snapshot' % ast.unparse(t))
    q.need(n >= 4, 'shared roots of Pool not found')


def r07_3(ctx):
    ctx.rule('R07.3', 'the result handler always ends in finish_at_shutdown, which keeps dispatching until the '
                      'cache is empty (or TERMINATE), and gives up only 5 s after all workers were seen joined',
             floor=6)
    m = ctx.model
    body = m.func('pool:ResultHandler.body')
    fs = q.nodes_calling(body, 'self.finish_at_shutdown')
    heads = [n for n in body.cfg.where(lambda n: n.kind == 'loop')]
    q.need(heads, 'ResultHandler.body has no receive loop')
    ok, w = body.cfg.must_pass(heads, [body.cfg.exit, body.cfg.raise_exit], fs) if fs else (False, None)
    ctx.ob('R07.3', 'ResultHandler.body:finish_at_shutdown-on-every-exit', ok, body, None,
           'reached on normal and exceptional exits (finally)', path=w)
    fi = m.func('pool:ResultHandler.finish_at_shutdown')
    cfg = fi.cfg
    loops = [n for n in cfg.where(lambda n: n.kind == 'loop')]
    q.need(loops, 'finish_at_shutdown has no drain loop')
    loop = loops[0]
    tests = [t for t in cfg.where(lambda t: t.kind == 'test' and t.stmt is loop.stmt)]
    first = [n for n in cfg.nodes if n.id in cfg.live and q.inside(fi, n, loop.stmt.body[:1])]
    q.need(first, 'finish_at_shutdown: drain loop has no body')
    # what holds when an iteration starts (independent of how the condition is spelled)
    txts = set.intersection(*[q.guards_norm(fi, n, srcs=[loop]) for n in first])
    ok = ('self.cache', True) in txts and (q.eq_text('self._state', 'TERMINATE'), False) in txts and len(tests) == 2
    ctx.ob('R07.3', 'finish_at_shutdown:loops-while-cache-nonempty', ok, fi, loop.stmt,
           'while cache and self._state != TERMINATE  (normal form %s)' % sorted(txts))
    polls = [(n, c) for (n, c) in q.calls(fi, 'self.poll') if q.inside(fi, n, loop.stmt.body)]
    disp = [n for (n, c) in q.calls(fi, 'self.on_state_change') if q.inside(fi, n, loop.stmt.body)]
    ok = bool(polls) and bool(disp)
    if ok:
        pn = polls[0][0]
        tvar = None
        if isinstance(pn.ast, ast.Assign) and isinstance(pn.ast.targets[0], ast.Tuple):
            rvar, tvar = [ast.unparse(e) for e in pn.ast.targets[0].elts]
            skip = q.outcome_edges(fi, rvar, False) | q.outcome_edges(fi, tvar + ' is None', True)
            r = cfg.reach([pn.id], block_nodes={d.id for d in disp} | {loop.id}, block_edges=skip, skip_labels=('x',))
            # anything of the loop body after the dispatch position reachable without dispatch?
            after = [n for (n, c) in q.calls(fi, 'self.join_exited_workers')]
            ok = bool(after) and not any(a.id in r for a in after)
        else:
            ok = False
    ctx.ob('R07.3', 'finish_at_shutdown:every-message-dispatched', ok, fi, disp[0] if disp else None,
           'a received non-sentinel message always reaches on_state_change before the reaper runs')
    # the give-up timer
    early = q.loop_early_exits(fi, loop)
    wj = [h for tr in walk_own(fi.node) if isinstance(tr, ast.Try) for h in tr.handlers
          if h.type is not None and 'WorkersJoined' in ast.unparse(h.type)]
    q.need(wj, 'finish_at_shutdown does not handle WorkersJoined')
    breaks = [n for n in early if isinstance(n.ast, ast.Break)]
    ok = bool(breaks)
    for b in breaks:
        g = q.guards_norm(fi, b)
        ok = ok and q.inside(fi, b, wj[0].body) and ('time_terminate', True) in g and \
            any(t == '5.0 < (now - time_terminate)' and p for (t, p) in g)
    ctx.ob('R07.3', 'finish_at_shutdown:gives-up-only-5s-after-workers-joined', ok, fi, breaks[0] if breaks else None,
           'break only inside `except WorkersJoined`, with the timer set and now - time_terminate > 5.0')
    tdefs = [(dn, v) for (dn, t, v) in q.assigns(fi, 'time_terminate')]
    ok = bool(tdefs)
    for (dn, v) in tdefs:
        if isinstance(v, ast.Constant) and v.value is None:
            continue
        ok = ok and q.inside(fi, dn, wj[0].body) and ast.unparse(v) == 'now' and \
            q.has_guard(fi, dn, 'time_terminate', False)
    ctx.ob('R07.3', 'finish_at_shutdown:timer-starts-when-workers-joined', ok, fi, None,
           'time_terminate is set (once) in the WorkersJoined handler, not before')
    rets = [n for n in early if isinstance(n.ast, ast.Return)]
    ok = all(any(part == 'handler' for (tr, part, h) in q.enclosing_trys(fi, n.ast)) for n in rets)
    ctx.ob('R07.3', 'finish_at_shutdown:returns-early-only-on-broken-pipe', ok, fi, rets[0] if rets else None,
           'other early exits of the drain loop are inside I/O error handlers')


def r07_4(ctx):
    ctx.rule('R07.4', 'join() stops the supervisor, the task feeder and the result handler and joins every started '
                      'worker; it requires CLOSE or TERMINATE', floor=5)
    m = ctx.model
    fi = m.func('pool:Pool.join')
    cfg = fi.cfg
    for key, arg in (('supervisor', 'self._worker_handler'), ('task-feeder', 'self._task_handler'),
                     ('result-handler', 'self._result_handler')):
        ns = [n for (n, c) in q.calls(fi, ('stop_if_not_current', 'self._stop_task_handler', arg + '.stop'))
              if (c.args and ast.unparse(c.args[0]) == arg) or fi.callee(c) == arg + '.stop']
        ok, w = cfg.must_pass([cfg.entry], [cfg.exit], ns, skip_labels=('x',)) if ns else (False, None)
        ctx.ob('R07.4', 'join:stops-%s' % key, ok, fi, ns[0] if ns else None, 'on every normal path', path=w)
    loops = [n for n in cfg.where(lambda n: n.kind == 'for') if 'self._pool' in ast.unparse(n.stmt.iter)]
    ok = bool(loops)
    if ok:
        t = loops[0].stmt.target
        var = ast.unparse(t.elts[-1]) if isinstance(t, ast.Tuple) else ast.unparse(t)
        jn = [n for (n, c) in q.calls(fi, var + '.join') if q.inside(fi, n, loops[0].stmt.body)]
        unstarted = q.outcome_edges(fi, var + '._popen is None', True)
        ok = bool(jn) and q.every_iteration_passes(fi, loops[0], jn, block_edges=unstarted)[0] and \
            not q.loop_early_exits(fi, loops[0]) and \
            cfg.must_pass([cfg.entry], [cfg.exit], loops, skip_labels=('x',))[0]
    ctx.ob('R07.4', 'join:joins-every-started-worker', ok, fi, loops[0] if loops else None,
           'for p in self._pool: p.join() unless never started')
    asserts = [n for n in cfg.where(lambda n: n.kind == 'stmt' and isinstance(n.ast, ast.Assert))]
    ok = any(ast.unparse(a.ast.test).replace(' ', '') in ('self._statein(CLOSE,TERMINATE)', 'self._statein(TERMINATE,CLOSE)',
                                                         'self._state!=RUN') for a in asserts)
    ctx.ob('R07.4', 'join:requires-close-or-terminate', ok, fi, None, 'assert self._state in (CLOSE, TERMINATE)')
    sc = m.func('pool:stop_if_not_current')
    ok = bool(q.nodes_calling(sc, sc.positional_params()[0] + '.stop'))
    ctx.ob('R07.4', 'stop_if_not_current:stops', ok, sc, None, 'thread.stop(timeout) unless it is the calling thread')
    st = m.func('pool:PoolThread.stop')
    jn = q.nodes_calling(st, 'self.join')
    ok = bool(jn) and all(q.has_guard(st, n, 'self._was_started', True) for n in jn)
    ctx.ob('R07.4', 'PoolThread.stop:joins-started-thread', ok, st, None, 'join when started, on_stop_not_started otherwise')


def _deps(fi, expr, seen=None):
    """names an expression depends on, through single/multiple local assignments"""
    seen = seen if seen is not None else set()
    out = set()
    for n in ast.walk(expr):
        if isinstance(n, ast.Name) and n.id not in seen:
            seen.add(n.id)
            out.add(n.id)
            for (dn, t, v) in q.assigns(fi, lambda t, nm=n.id: t == nm):
                if v is not None and not isinstance(v, ast.AugAssign):
                    out |= _deps(fi, v, seen)
    return out


def r07_5(ctx, rule='R07.5'):
    ctx.rule(rule, 'the consumed-result credit goes to the worker that sent the result: the counter key depends on '
                   'the part index (or a sender field) of the READY message, not on the job alone', floor=1)
    m = ctx.model
    R = roots(m)
    mk = m.func('pool:ResultHandler._make_methods')
    fi = mk.children.get('on_ready')
    q.need(fi is not None, 'on_ready not found')
    P = fi.positional_params()
    subs = [n for n in walk_own(fi.node) if isinstance(n, ast.Subscript) and R.root_of(fi, n.value) == 'counters']
    q.need(subs, 'on_ready never indexes the per-worker counters')
    EF = flow(ctx)
    multi = [ci.name for ci in EF.entry_classes if ci.name != 'ApplyResult']
    for s in subs:
        d = _deps(fi, s.slice)
        sender = (P[1] in d) or (len(P) > 3 and False)
        key = 'on_ready:counter-key' + ('' if sender else ' independent of the part index')
        ctx.ob(rule, key, sender or not multi, fi, s,
               'key `%s` depends on %s' % (ast.unparse(s.slice), sorted(d & set(P))) if sender else
               'key `%s` depends only on %s of the message, but %s hold parts run by different workers: the '
               'result of one worker is credited to another, whose exit guard then waits out its 30 s'
               % (ast.unparse(s.slice), sorted(d & set(P)), ', '.join(multi)))


def r07_6(ctx):
    ctx.rule('R07.6', 'a consumed READY message is credited even when its job is no longer pending', floor=1)
    m = ctx.model
    R = roots(m)
    mk = m.func('pool:ResultHandler._make_methods')
    fi = mk.children.get('on_ready')
    cfg = fi.cfg
    incs = [dn for (dn, t, v) in q.assigns(fi, lambda t: t.endswith('.value')) if isinstance(dn.ast, ast.AugAssign)]
    q.need(incs, 'on_ready never increments a counter')
    disabled = q.outcome_edges(fi, 'self.on_ready_counters', False)
    notfound = q.outcome_edges(fi, lambda t: ' in self.on_ready_counters' in t, False) | \
        q.outcome_edges(fi, 'worker_pid', False)
    r = cfg.reach([cfg.entry.id], block_nodes={n.id for n in incs}, block_edges=disabled | notfound,
                  skip_labels=())
    ok = cfg.exit.id not in r
    w = None if ok else cfg.path([cfg.entry.id], [cfg.exit.id], block_nodes={n.id for n in incs},
                                 block_edges=disabled | notfound)
    ctx.ob('R07.6', 'on_ready:credit' + ('' if ok else ' skipped when the job left the cache'), ok, fi, incs[0],
           'every path through on_ready credits the sender' if ok else
           'the handler returns before the credit when the job is not in the cache (discarded / already failed): '
           'the worker that sent the result waits out its 30 s exit guard', path=w)


def r07_7(ctx):
    ctx.rule('R07.7', 'a worker waits for exactly its own consumed-result count on every way out of the work loop',
             floor=3)
    m = ctx.model
    A = WorkloopAnchors(ctx)
    fi, cfg = A.fi, A.fi.cfg
    en = [(n, c) for (n, c) in q.calls(fi, 'self._ensure_messages_consumed')]
    q.need(en, 'workloop never calls _ensure_messages_consumed')
    ok, w = cfg.must_pass([A.loop], [cfg.exit, cfg.raise_exit], [n for (n, c) in en])
    ctx.ob('R07.7', 'workloop:guard-on-every-exit', ok, fi, en[0][0],
           'every normal and exceptional exit of the loop (sentinel, quota, memory limit, termination) '
           'passes _ensure_messages_consumed', path=w)
    for (n, c) in en:
        vals = [ast.unparse(a) for a in c.args] + [ast.unparse(k.value) for k in c.keywords]
        ctx.ob('R07.7', 'workloop:guard-gets-completed-count', vals == [A.counter], fi, c,
               '_ensure_messages_consumed(%s)' % ', '.join(vals))
    ef = m.func('pool:Worker._ensure_messages_consumed')
    P = ef.positional_params()[1]
    rets = [n for n in ef.cfg.where(lambda n: n.kind == 'stmt' and isinstance(n.ast, ast.Return)
                                    and isinstance(n.ast.value, ast.Constant) and n.ast.value.value is True)]
    ok = bool(rets) and all(('self.on_ready_counter.value < %s' % P, False) in q.guards_norm(ef, n) for n in rets)
    ctx.ob('R07.7', '_ensure_messages_consumed:returns-when-count-reached', ok, ef, rets[0] if rets else None,
           'returns True only under self.on_ready_counter.value >= completed')
    sl = q.nodes_calling(ef, 'time.sleep')
    loops = [n for n in ef.cfg.where(lambda n: n.kind == 'for')]
    ok = bool(loops) and bool(sl) and all(q.inside(ef, s, loops[0].stmt.body) for s in sl)
    ctx.ob('R07.7', '_ensure_messages_consumed:bounded-retry', ok, ef, None,
           'bounded number of retries with a sleep in between')
    # entries removed together with the worker
    je = m.func('pool:Pool._join_exited_workers')
    dels = [n for n in je.cfg.where(lambda n: n.kind == 'stmt' and isinstance(n.ast, ast.Delete))]
    txt = sorted(ast.unparse(t) for n in dels for t in n.ast.targets)
    ok = any(t.startswith('self._pool[') for t in txt) and any(t.startswith('self._poolctrl[') for t in txt) and \
        any(t.startswith('self._on_ready_counters[') for t in txt)
    ctx.ob('R07.7', 'reaper:worker-and-its-tables-removed-together', ok, je, dels[0] if dels else None,
           'del self._pool[i], self._poolctrl[pid], self._on_ready_counters[pid]')


def r07_10(ctx):
    ctx.rule('R07.10', 'close() flags only the supervisor: the task feeder and the result handler stay in RUN until '
                       'join() / terminate(), because they still have the queued jobs and their results to move',
             floor=2)
    m = ctx.model
    marks = {}
    for qn, fi in sorted(m.funcs.items()):
        if fi.module.name != 'pool' or fi.cls is None or fi.cls.name != 'Pool':
            continue
        for (n, c) in q.calls(fi, lambda t: t.startswith('self._') and t.count('.') == 2 and
                              t.split('.')[1].endswith('_handler') and t.split('.')[2] in ('close', 'terminate')):
            marks.setdefault(fi.callee(c), []).append((fi, c))
    # the recogniser must see the one legitimate early mark
    q.need('self._worker_handler.close' in marks, 'Pool.close no longer flags the supervisor (matcher or code changed)')
    for cal, sites in sorted(marks.items()):
        helper, what = cal.split('.')[1], cal.split('.')[2]
        for (fi, c) in sites:
            if helper == '_worker_handler':
                ok = fi.name in ('close', 'terminate')
                why = 'the supervisor is flagged by close() / terminate()'
            else:
                ok = fi.name in ('terminate', '_terminate_pool')
                why = ('%s.%s() from Pool.%s' % (helper, what, fi.name)) if ok else \
                    '%s is flagged in Pool.%s: the feeder drops every job still queued (its loop tests the thread ' \
                    'state per task), the result handler stops reading -- jobs accepted before close() never ' \
                    'resolve' % (helper, fi.name)
            ctx.ob('R07.10', 'Pool.%s:%s.%s' % (fi.name, helper, what), ok, fi, c, why)


def r07_13(ctx):
    ctx.rule('R07.13', 'the result handler is built from the pool\'s final settings: every attribute its constructor '
                       'call reads (by value) has its last assignment in Pool.__init__ before that call', floor=4)
    m = ctx.model
    pi = m.func('pool:Pool.__init__')
    mk = m.func('pool:Pool.create_result_handler')
    built = [n for (n, c) in q.calls(pi, 'self.create_result_handler')]
    q.need(built, 'Pool.__init__ does not build the result handler')
    read = set()
    for c in [x for x in walk_own(mk.node) if isinstance(x, ast.Call) and mk.callee(x) == 'self.ResultHandler']:
        for a in list(c.args) + [k.value for k in c.keywords if k.arg]:
            if isinstance(a, ast.Attribute) and isinstance(a.value, ast.Name) and a.value.id == 'self':
                read.add(a.attr)
    q.need(len(read) >= 6, 'create_result_handler: arguments of the ResultHandler constructor not found')
    after = pi.cfg.reach([n.id for n in built], skip_labels=('x',))
    for attr in sorted(read):
        writes = [dn for (dn, t, v) in q.assigns(pi, 'self.' + attr)]
        if not writes:
            continue
        late = [dn for dn in writes if dn.id in after]
        ctx.ob('R07.13', 'Pool.__init__:%s-final-before-the-result-handler-is-built' % attr, not late, pi,
               late[0] if late else built[0],
               'self.%s is not assigned again after create_result_handler()' % attr if not late else
               'self.%s is assigned after the result handler captured its value: the handler keeps the earlier one '
               '(e.g. check_timeouts = None: a pool without threads never drives the time-limit scan while it '
               'drains at shutdown, and join() waits for a job that should have been timed out)' % attr)


def r07_12(ctx, rule='R07.12'):
    ctx.rule(rule, 'jobs queued before close() still find a worker: while the pool is closing and jobs are pending, '
                   'somebody keeps replacing workers that exit (task quota, memory limit)', floor=1)
    m = ctx.model
    sb = m.func('pool:Supervisor.body')
    fs = m.func('pool:ResultHandler.finish_at_shutdown')
    keeps = []
    # (a) the supervisor's steady loop goes on after close() while jobs are pending
    for lp in sb.cfg.where(lambda n: n.kind == 'loop'):
        if not q.calls(sb, 'self.pool._maintain_pool'):
            continue
        t = ast.unparse(lp.stmt.test)
        if any(q.inside(sb, n, lp.stmt.body) for (n, c) in q.calls(sb, 'self.pool._maintain_pool')) and \
                ('_cache' in t or 'cache' in t) and 'TERMINATE' in t:
            keeps.append(lp)
    # (b) or the shutdown drain of the result handler refills
    for (n, c) in q.calls(fs, lambda t: t.endswith('_maintain_pool') or t.endswith('_repopulate_pool')):
        keeps.append(n)
    refill = m.func('pool:Pool._repopulate_pool')
    stops = [n for n in refill.cfg.where(lambda n: n.kind == 'stmt' and isinstance(n.ast, ast.Return))
             if q.has_guard(refill, n, q.eq_text('self._state', 'RUN'), False)]
    ok = bool(keeps) and not stops
    ctx.ob(rule, 'closing-pool-still-replaces-exited-workers', ok, sb, None,
           'the refill keeps running until the cache is drained' if ok else
           'close() stops the supervisor and the refill returns unless the pool is in RUN: once the last worker has '
           'used up its task quota the jobs still queued never run, join() returns with them unresolved')



def r07_14(ctx):
    ctx.rule('R07.14', 'a new worker is entered in the per-pid tables (control sentinel, consumed-result counter) right '
                       'after it was started, before any user hook runs: its first result may arrive during the hook, '
                       'and a result that finds no counter is never credited', floor=2)
    m = ctx.model
    fi = m.func('pool:Pool._create_worker_process')
    cfg = fi.cfg
    hooks = [n for (n, c) in q.calls(fi, 'self.on_process_up')]
    starts = [n for (n, c) in q.calls(fi, lambda t: t.endswith('.start'))]
    q.need(starts, '_create_worker_process does not start the worker')
    for table in ('self._poolctrl', 'self._on_ready_counters'):
        regs = [dn for (dn, t, v) in q.assigns(fi, lambda t, table=table: t.startswith(table + '['))]
        ok = bool(regs) and all(cfg.dominated_by(h, regs)[0] for h in hooks) and \
            all(cfg.dominated_by(r, starts)[0] for r in regs)
        ctx.ob('R07.14', '_create_worker_process:%s-before-user-hook' % table.split('.')[1], ok, fi,
               regs[0] if regs else None,
               '%s[w.pid] = ... after w.start() and before on_process_up(w)' % table)


def run(ctx):
    # a worker leaves when it reads the sentinel / a dead pipe (found by the mutation sweep)
    from .sweep import r07_15 as _r07_15
    _r07_15(ctx)
    from .sweep import r07_16 as _r07_16, r07_17 as _r07_17
    _r07_16(ctx)
    _r07_17(ctx)
    r07_14(ctx)
    r07_13(ctx)
    r07_12(ctx)
    r07_10(ctx)
    # join() must not wait for the time-limit scanner, which by design runs on until terminate()
    from .c05 import r05_7
    r05_7(ctx, 'R07.11')
    # the worker that ran a job is recorded as its owner on every accepting path: the consumed-result credit is
    # keyed by it (a missing owner = a worker that waits out its 30 s guard at shutdown)
    from .c03 import r03_5
    from ..report import Only
    r03_5(Only(ctx, ('_worker_pid-recorded', 'owner-is-always-recorded'), floor=2,
               doc='ApplyResult._ack records the accepting worker as the owner on every accepting path'))
    r07_1(ctx)
    r07_2(ctx)
    r07_3(ctx)
    r07_4(ctx)
    r07_5(ctx)
    r07_6(ctx)
    r07_7(ctx)
    # no worker is forked once the pool left RUN (a late fork after close() is a process join() never waits for)
    from .c09 import r09_1
    r09_1(ctx, refill=False)
    from .c01 import feeder_serves_while_running
    feeder_serves_while_running(ctx, 'R07.8', parts='a')
    # the feeder sends one sentinel per *current* worker, the result handler waits for the *pool's* cache to drain
    from .c05 import helpers_hold_live_objects
    helpers_hold_live_objects(ctx, 'R07.9', only=('TaskHandler', 'ResultHandler'))


_P = 'billiard/pool.py'
MUTANTS = [
    ('sentinel-does-not-end-the-worker', 'billiard/pool.py', "            if req is None:\n                debug('worker got sentinel -- exiting')\n                raise SystemExit(EX_FAILURE)\n", "            if req is None:\n                debug('worker got sentinel -- exiting')\n", 'R07.15'),
    ('dead-pipe-does-not-end-the-worker', 'billiard/pool.py', "                debug('worker got %s -- exiting', type(exc).__name__)\n                raise SystemExit(EX_FAILURE)\n", "                debug('worker got %s -- exiting', type(exc).__name__)\n                return None\n", 'R07.15'),
    ('worker-listed-after-it-was-started', 'billiard/pool.py', "        self._pool.append(w)\n        self._process_register_queues(w, (inq, outq, synq))\n        w.name = w.name.replace('Process', 'PoolWorker')\n        w.daemon = True\n        w.index = i\n        w.start()\n", "        self._process_register_queues(w, (inq, outq, synq))\n        w.name = w.name.replace('Process', 'PoolWorker')\n        w.daemon = True\n        w.index = i\n        w.start()\n        self._pool.append(w)\n", 'R07.16'),
    ('tables-registered-after-the-hook', _P, "        self._poolctrl[w.pid] = sentinel\n        self._on_ready_counters[w.pid] = on_ready_counter\n        if self.on_process_up:\n            self.on_process_up(w)\n",
     "        if self.on_process_up:\n            self.on_process_up(w)\n        self._poolctrl[w.pid] = sentinel\n        self._on_ready_counters[w.pid] = on_ready_counter\n", 'R07.14'),
    ('join-waits-for-the-scanner', _P, "        debug('result handler joined')\n        for i, p in enumerate(self._pool):\n",
     "        debug('result handler joined')\n        if self._timeout_handler is not None:\n            stop_if_not_current(self._timeout_handler, TIMEOUT_MAX)\n        for i, p in enumerate(self._pool):\n", 'R07.11'),
    ('close-flags-the-feeder', _P, "            self._worker_handler.close()\n            self._taskqueue.put(None)\n",
     "            self._worker_handler.close()\n            self._task_handler.close()\n            self._taskqueue.put(None)\n", 'R07.10'),
    ('close-flags-the-result-handler', _P, "            self._worker_handler.close()\n            self._taskqueue.put(None)\n",
     "            self._worker_handler.close()\n            self._result_handler.close()\n            self._taskqueue.put(None)\n", 'R07.10'),
    ('owner-recorded-only-when-acked', _P, "            self._accepted = True\n            self._time_accepted = time_accepted\n            self._worker_pid = pid\n            if self.ready():",
     "            self._accepted = True\n            self._time_accepted = time_accepted\n            if self._send_ack:\n                self._worker_pid = pid\n            if self.ready():", 'R03.5'),
    ('task-feeder-snapshots-the-worker-list', _P, "        self.put = put\n        self.outqueue = outqueue\n        self.pool = pool\n",
     "        self.put = put\n        self.outqueue = outqueue\n        self.pool = list(pool)\n", 'R07.9'),
    ('refill-state-checked-once', _P, "        for i in range(self._processes - len(self._pool)):\n            if self._state != RUN:\n                return\n",
     "        if self._state != RUN:\n            return\n        for i in range(self._processes - len(self._pool)):\n", 'R09.1'),
    ('feeder-ends-after-one-bad-task', _P, "                            cache[job]._set(ind, (False, ExceptionInfo()))\n                        except KeyError:\n                            pass\n",
     "                            cache[job]._set(ind, (False, ExceptionInfo()))\n                        except KeyError:\n                            pass\n                        break\n", 'R07.8'),
    ('map-after-close', _P, "        if self._state != RUN:\n            return\n        if not hasattr(iterable, '__len__'):", "        if not hasattr(iterable, '__len__'):", 'R07.1'),
    ('imap-after-close', _P, "        if self._state != RUN:\n            return\n        lost_worker_timeout = lost_worker_timeout or self.lost_worker_timeout\n        if chunksize == 1:\n            result = IMapIterator(",
     "        lost_worker_timeout = lost_worker_timeout or self.lost_worker_timeout\n        if chunksize == 1:\n            result = IMapIterator(", 'R07.1'),
    ('sentinel-before-state', _P, "            self._state = CLOSE\n            if self._putlock:\n                self._putlock.clear()\n            self._worker_handler.close()\n            self._taskqueue.put(None)",
     "            self._taskqueue.put(None)\n            self._state = CLOSE\n            if self._putlock:\n                self._putlock.clear()\n            self._worker_handler.close()", 'R07.1'),
    ('one-sentinel-short', _P, "            for p in pool:\n                put(None)\n        except IOError:", "            for p in pool[1:]:\n                put(None)\n        except IOError:", 'R07.2'),
    ('no-result-sentinel', _P, "            outqueue.put(None)\n\n            # tell workers there is no more work", "            # tell workers there is no more work", 'R07.2'),
    ('tell-others-only-on-sentinel', _P, "        else:\n            debug('task handler got sentinel')\n\n        self.tell_others()", "        else:\n            debug('task handler got sentinel')\n            self.tell_others()", 'R07.2'),
    ('pool-list-rebound', _P, "                del self._pool[i]\n", "                self._pool = [w for w in self._pool if w is not worker]\n", 'R07.2'),
    ('finish-not-in-finally', _P, "        finally:\n            self.finish_at_shutdown()", "        except CoroStop:\n            pass\n        self.finish_at_shutdown()", 'R07.3'),
    ('drain-stops-early', _P, "        while cache and self._state != TERMINATE:\n            if check_timeouts is not None:", "        while self._state != TERMINATE:\n            if check_timeouts is not None:", 'R07.3'),
    ('timer-from-entry', _P, "        time_terminate = None\n        while cache and self._state != TERMINATE:", "        time_terminate = monotonic()\n        while cache and self._state != TERMINATE:", 'R07.3'),
    ('giveup-at-once', _P, "                    if now - time_terminate > 5.0:\n                        debug('result handler exiting: timed out')\n                        break",
     "                    debug('result handler exiting: timed out')\n                    break", 'R07.3'),
    ('message-dropped', _P, "                on_state_change(task)\n            try:\n                join_exited_workers(shutdown=True)", "                pass\n            try:\n                join_exited_workers(shutdown=True)", 'R07.3'),
    ('join-skips-result-handler', _P, "        stop_if_not_current(self._result_handler)\n        debug('result handler joined')", "        debug('result handler joined')", 'R07.4'),
    ('join-first-worker-only', _P, "            if p._popen is not None:  # process started?\n                p.join()\n        debug('pool join complete')",
     "            if p._popen is not None:  # process started?\n                p.join()\n                break\n        debug('pool join complete')", 'R07.4'),
    ('guard-only-normal-exit', _P, "        finally:\n            # Before exiting the worker, we want to ensure that that all", "        except KeyboardInterrupt:\n            raise\n        else:\n            # Before exiting the worker, we want to ensure that that all", 'R07.7'),
    ('guard-wrong-count', _P, "            self._ensure_messages_consumed(completed=completed)", "            self._ensure_messages_consumed(completed=maxtasks)", 'R07.7'),
    ('guard-returns-early', _P, "            if self.on_ready_counter.value >= completed:", "            if self.on_ready_counter.value >= completed - 1:", 'R07.7'),
    ('counters-leak', _P, "                del self._on_ready_counters[worker.pid]\n", "", 'R07.7'),
]
TWINS = [
    ('close-guard-early-return', _P, "        if self._state == RUN:\n            self._state = CLOSE\n            if self._putlock:\n                self._putlock.clear()\n            self._worker_handler.close()\n            self._taskqueue.put(None)\n            stop_if_not_current(self._worker_handler)",
     "        if self._state != RUN:\n            return\n        self._state = CLOSE\n        if self._putlock:\n            self._putlock.clear()\n        self._worker_handler.close()\n        self._taskqueue.put(None)\n        stop_if_not_current(self._worker_handler)"),
    ('drain-test-order', _P, "        while cache and self._state != TERMINATE:\n            if check_timeouts is not None:", "        while self._state != TERMINATE and cache:\n            if check_timeouts is not None:"),
]
