"""C13 — connections deliver every message intact, in order, within bounds (POSIX Connection)."""
import ast
import struct

from ..model import walk_own, dotted
from .. import q


def _struct_calls(fi, name):
    return [c for (n, c) in q.calls(fi, 'struct.' + name)]


def r13_1(ctx):
    ctx.rule('R13.1', 'framing agreement: the header format packed equals the one unpacked, the header read size is '
                      'its calcsize, the packed value is the payload length and the payload read size is the value '
                      'unpacked; header precedes payload on both send paths', floor=6)
    m = ctx.model
    sb = m.func('connection:Connection._send_bytes')
    rb = m.func('connection:Connection._recv_bytes')
    packs, unpacks = _struct_calls(sb, 'pack'), _struct_calls(rb, 'unpack')
    q.need(packs and unpacks, 'Connection._send_bytes/_recv_bytes do not use struct.pack/unpack')
    fp = packs[0].args[0]
    fu = unpacks[0].args[0]
    ok = isinstance(fp, ast.Constant) and isinstance(fu, ast.Constant) and fp.value == fu.value
    ctx.ob('R13.1', 'header-format-agrees', ok, sb, packs[0], 'pack(%r) / unpack(%r)' % (getattr(fp, 'value', '?'), getattr(fu, 'value', '?')))
    buf = sb.positional_params()[1]
    lens = {ast.unparse(t): ast.unparse(v) for (dn, t, v) in q.assigns(sb, None) if v is not None and isinstance(t, ast.Name)}
    a1 = packs[0].args[1] if len(packs[0].args) > 1 else None
    ok = a1 is not None and (ast.unparse(a1) == 'len(%s)' % buf or lens.get(ast.unparse(a1)) == 'len(%s)' % buf)
    ctx.ob('R13.1', 'header-carries-payload-length', ok, sb, packs[0], 'pack(fmt, len(buf))')
    recvs = [(n, c) for (n, c) in q.calls(rb, 'self._recv')]
    ctx.ob('R13.1', 'header-and-payload-both-read-exactly', len(recvs) >= 2, rb, recvs[0][1] if recvs else None,
           'header and payload are both read through self._recv (the read-exactly loop)' if len(recvs) >= 2 else
           '_recv_bytes reads the header or the payload some other way than through the read-exactly loop: a header the '
           'OS delivers in two pieces is unpacked short')
    if len(recvs) < 2:
        return
    recvs.sort(key=lambda x: x[1].lineno)
    hdr, pay = recvs[0], recvs[-1]
    try:
        size = struct.calcsize(fu.value)
    except Exception:
        size = None
    ok = isinstance(hdr[1].args[0], ast.Constant) and hdr[1].args[0].value == size
    ctx.ob('R13.1', 'header-read-size-is-calcsize', ok, rb, hdr[1], 'self._recv(%s), calcsize(%r) = %s' % (
        ast.unparse(hdr[1].args[0]), getattr(fu, 'value', '?'), size))
    # the unpacked value feeds the payload read
    unp_target = None
    for n in walk_own(rb.node):
        if isinstance(n, ast.Assign) and n.value is unpacks[0]:
            t = n.targets[0]
            if isinstance(t, ast.Tuple) and len(t.elts) == 1:
                unp_target = ast.unparse(t.elts[0])
        elif isinstance(n, ast.Assign) and isinstance(n.value, ast.Subscript) and n.value.value is unpacks[0] and \
                isinstance(n.value.slice, ast.Constant) and n.value.slice.value == 0 and \
                isinstance(n.targets[0], ast.Name):
            unp_target = n.targets[0].id        # size = unpack(...)[0]
    ok = unp_target is not None and ast.unparse(pay[1].args[0]) == unp_target and \
        rb.cfg.dominated_by(pay[0], [hdr[0]], completed=True)[0]
    ctx.ob('R13.1', 'payload-read-size-is-unpacked-length', ok, rb, pay[1], 'size, = unpack(...); self._recv(size)')
    hsrc = None
    for n in walk_own(rb.node):
        if isinstance(n, ast.Assign) and n.value is hdr[1]:
            hsrc = ast.unparse(n.targets[0])
    ok = hsrc is not None and ast.unparse(unpacks[0].args[1]) == hsrc + '.getvalue()'
    if not ok:
        # header = self._recv(4).getvalue(); unpack(fmt, header)
        for n in walk_own(rb.node):
            if isinstance(n, ast.Assign) and isinstance(n.value, ast.Call) and isinstance(n.value.func, ast.Attribute) \
                    and n.value.func.attr == 'getvalue' and n.value.func.value is hdr[1] and \
                    ast.unparse(unpacks[0].args[1]) == ast.unparse(n.targets[0]):
                ok = True
        if ast.unparse(unpacks[0].args[1]) == ast.unparse(hdr[1]) + '.getvalue()':
            ok = True
    ctx.ob('R13.1', 'unpack-reads-the-header-bytes', ok, rb, unpacks[0], 'unpack(fmt, <header>.getvalue())')
    # send paths
    hvar = None
    for n in walk_own(sb.node):
        if isinstance(n, ast.Assign) and n.value is packs[0]:
            hvar = ast.unparse(n.targets[0])
    sends = [(n, c) for (n, c) in q.calls(sb, 'self._send')]
    texts = [ast.unparse(c.args[0]).replace(' ', '') for (n, c) in sends]
    ok = hvar is not None and (hvar + '+' + buf) in texts and hvar in texts and buf in texts
    if ok:
        nh = [n for (n, c) in sends if ast.unparse(c.args[0]) == hvar]
        nb = [n for (n, c) in sends if ast.unparse(c.args[0]) == buf]
        ok = all(sb.cfg.dominated_by(x, nh, completed=True)[0] for x in nb)
    ctx.ob('R13.1', 'header-precedes-payload', ok, sb, None, 'send(header); send(buf)  or  send(header + buf): %s' % texts)
    every = sb.cfg.must_pass([sb.cfg.entry], [sb.cfg.exit], [n for (n, c) in sends], skip_labels=('x',))[0]
    ctx.ob('R13.1', 'every-path-sends', every, sb, None, 'no normal path through _send_bytes skips the send')


def _loop_of(fi):
    loops = [n for n in fi.cfg.where(lambda n: n.kind == 'loop')]
    q.need(loops, '%s has no loop' % fi.qual)
    return loops[0]


def r13_2(ctx):
    ctx.rule('R13.2', 'write-all loop: left only at remaining == 0; remaining and buffer advance by the count the '
                      'write of this iteration returned; an interrupted write is retried untouched, other errors '
                      'propagate', floor=6)
    m = ctx.model
    fi = m.func('connection:Connection._send')
    cfg = fi.cfg
    loop = _loop_of(fi)
    buf = fi.positional_params()[1]
    writes = [(n, c) for (n, c) in q.calls(fi, lambda t: t in ('write', 'os.write', '_write', 'self._write'))]
    if not writes:
        writes = [(n, c) for (n, c) in q.calls(fi, None) if len(c.args) == 2 and ast.unparse(c.args[1]) == buf
                  and ast.unparse(c.args[0]) == 'self._handle']
    q.need(writes, 'Connection._send performs no write')
    wn, wc = writes[0]
    nvar = ast.unparse(wn.ast.targets[0]) if isinstance(wn.ast, ast.Assign) else None
    ok = nvar is not None and [ast.unparse(a) for a in wc.args] == ['self._handle', buf]
    ctx.ob('R13.2', 'write-handle-and-rest-of-buffer', ok, fi, wc, 'n = write(self._handle, buf)')
    init = [v for (dn, t, v) in q.assigns(fi, 'remaining') if not isinstance(v, ast.AugAssign) and v is not None]
    ok = [ast.unparse(v) for v in init] == ['len(%s)' % buf]
    ctx.ob('R13.2', 'remaining-starts-at-len', ok, fi, None, 'remaining = len(buf)')
    decs = [dn for (dn, t, v) in q.assigns(fi, 'remaining') if isinstance(dn.ast, ast.AugAssign)
            and isinstance(dn.ast.op, ast.Sub) and ast.unparse(dn.ast.value) == (nvar or '?')]
    advs = [dn for (dn, t, v) in q.assigns(fi, buf) if v is not None and ast.unparse(v) == '%s[%s:]' % (buf, nvar)]
    ok = bool(decs) and bool(advs)
    ctx.ob('R13.2', 'both-counters-advance', ok, fi, None, 'remaining -= n and buf = buf[n:]')
    for key, nodes in (('remaining', decs), ('buffer', advs)):
        for d in nodes:
            okd, w = cfg.must_pass([loop], [d], [wn], completed=True)
            ctx.ob('R13.2', '%s-advances-only-after-a-completed-write' % key, okd, fi, d,
                   'within an iteration the update is reached only through the completed write whose count it uses '
                   '(not after an interrupted one)', path=w)
    exits = q.loop_early_exits(fi, loop)
    cond_form = q.norm_guard(fi, loop.stmt.test, True) in (('0 < remaining', True), (q.eq_text('remaining', '0'), False))
    inf = isinstance(loop.stmt.test, ast.Constant) or cond_form
    ok = all(q.has_guard(fi, e, q.eq_text('remaining', '0'), True) for e in exits) and (bool(exits) or cond_form)
    ctx.ob('R13.2', 'loop-left-only-when-all-sent', ok and inf, fi, exits[0] if exits else loop,
           'break only under remaining == 0 (loop condition True / remaining > 0)')
    # after a completed write with remaining != 0 the buffer is advanced before the next write
    for d in decs:
        r = cfg.reach([d.id], block_nodes={a.id for a in advs} | set(),
                      block_edges=q.outcome_edges(fi, q.eq_text('remaining', '0'), True), skip_labels=('x',))
        ok = wn.id not in r
        ctx.ob('R13.2', 'buffer-advanced-before-next-write', ok, fi, d,
               'no path from `remaining -= n` (remaining != 0) to the next write skips buf = buf[n:]')
    hs = [h for tr in walk_own(fi.node) if isinstance(tr, ast.Try) for h in tr.handlers]
    q.need(hs, 'Connection._send has no error handler')
    for h in hs:
        rz = [n for n in cfg.where(lambda n: isinstance(n.ast, ast.Raise) and q.inside(fi, n, h.body))]
        ok = bool(rz) and all(any('EINTR' in t and not p for (t, p) in q.guards_norm(fi, n)) for n in rz)
        hn = [x for x in cfg.of(h) if x.kind == 'except']
        body = {x.id for x in cfg.nodes if x.id in cfg.live and q.inside(fi, x, h.body)}
        touched = [cfg.nodes[i] for i in body if cfg.nodes[i].kind == 'stmt' and
                   isinstance(cfg.nodes[i].ast, (ast.Assign, ast.AugAssign))]
        ctx.ob('R13.2', 'only-EINTR-is-retried', ok and not touched, fi, h,
               'the handler re-raises unless errno == EINTR and changes no state')


def r13_3(ctx):
    ctx.rule('R13.3', 'read-exactly loop: never asks for more than is missing; a zero-length read is EOFError only at a '
                      'message boundary and an error inside a message; every chunk is stored and counted', floor=6)
    m = ctx.model
    fi = m.func('connection:Connection._recv')
    cfg = fi.cfg
    loop = _loop_of(fi)
    size = fi.positional_params()[1]
    t = q.norm_guard(fi, loop.stmt.test, True)
    ctx.ob('R13.3', 'loop-while-bytes-missing', t == ('0 < remaining', True), fi, loop.stmt, 'while remaining > 0 (%s)' % (t,))
    init = [ast.unparse(v) for (dn, tt, v) in q.assigns(fi, 'remaining') if v is not None and not isinstance(v, ast.AugAssign)]
    ctx.ob('R13.3', 'remaining-starts-at-size', init == [size], fi, None, 'remaining = size')
    reads = [(n, c) for (n, c) in q.calls(fi, None) if len(c.args) == 2 and fi.canon(c.args[0]) == 'self._handle']
    q.need(reads, 'Connection._recv performs no read')
    rn, rc = reads[0]
    ok = ast.unparse(rc.args[1]) == 'remaining'
    ctx.ob('R13.3', 'read-asks-at-most-remaining', ok, fi, rc, 'read(handle, remaining)')
    chunk = ast.unparse(rn.ast.targets[0]) if isinstance(rn.ast, ast.Assign) else None
    nvals = [(ast.unparse(tt), ast.unparse(v)) for (dn, tt, v) in q.assigns(fi, None) if v is not None
             and ast.unparse(v) == 'len(%s)' % chunk]
    nvar = nvals[0][0] if nvals else None
    stores = [n for (n, c) in q.calls(fi, lambda s: s.endswith('.write')) if c.args and ast.unparse(c.args[0]) == chunk]
    decs = [dn for (dn, tt, v) in q.assigns(fi, 'remaining') if isinstance(dn.ast, ast.AugAssign)
            and isinstance(dn.ast.op, ast.Sub) and ast.unparse(dn.ast.value) in (nvar, 'len(%s)' % chunk)]
    ok = bool(stores) and bool(decs)
    ctx.ob('R13.3', 'chunk-stored-and-counted', ok, fi, None, 'buf.write(chunk) and remaining -= len(chunk)')
    if ok:
        for key, nodes in (('store', stores), ('count', decs)):
            for d in nodes:
                okd, w = cfg.must_pass([loop], [d], [rn], completed=True)
                ctx.ob('R13.3', '%s-only-after-a-completed-read' % key, okd, fi, d,
                       'reached only through the completed read of this iteration', path=w)
        # a non-empty chunk always reaches both before the next read
        empty = q.outcome_edges(fi, (q.eq_text(nvar or '?', '0'), q.eq_text('len(%s)' % chunk, '0'), 'not ' + (chunk or '?')), True)
        for key, nodes in (('stored', stores), ('counted', decs)):
            r = cfg.reach([rn.id], block_nodes={x.id for x in nodes}, block_edges=empty, skip_labels=('x',))
            ctx.ob('R13.3', 'every-non-empty-chunk-is-%s' % key, loop.id not in r and cfg.exit.id not in r, fi, rn,
                   'no path from a non-empty read back to the loop head skips it')
    rz = [n for n in cfg.where(lambda n: isinstance(n.ast, ast.Raise) and n.ast.exc is not None)]
    eof = [n for n in rz if 'EOFError' in ast.unparse(n.ast.exc)]
    mid = [n for n in rz if n not in eof and not any(part == 'handler' for (tr, part, h) in q.enclosing_trys(fi, n.ast))]
    zero = lambda n: any(p and tt in (q.eq_text(nvar or '?', '0'), q.eq_text('len(%s)' % chunk, '0')) for (tt, p) in q.guards_norm(fi, n)) or \
        any((not p) and tt == chunk for (tt, p) in q.guards_norm(fi, n))
    ok = bool(eof) and all(zero(n) and q.has_guard(fi, n, q.eq_text('remaining', size), True) for n in eof)
    ctx.ob('R13.3', 'EOFError-only-at-message-boundary', ok, fi, eof[0] if eof else None,
           'raise EOFError under n == 0 and remaining == size')
    ok = bool(mid) and all(zero(n) and q.has_guard(fi, n, q.eq_text('remaining', size), False) for n in mid)
    ctx.ob('R13.3', 'end-inside-message-is-an-error', ok, fi, mid[0] if mid else None,
           'n == 0 with remaining != size raises OSError instead of returning a short message')
    rets = [n for n in cfg.where(lambda n: isinstance(n.ast, ast.Return))]
    ok = bool(rets) and all(not q.inside(fi, n, loop.stmt.body) for n in rets)
    ctx.ob('R13.3', 'returns-only-after-the-loop', ok, fi, None, 'the buffer is returned only when remaining reached 0')


def r13_4(ctx):
    ctx.rule('R13.4', 'every public I/O method checks closed and direction before any I/O', floor=7)
    m = ctx.model
    ci = m.cls('connection:_ConnectionBase')
    table = {'send_bytes': ('self._send_bytes', 'self._check_writable'), 'send': ('self._send_bytes', 'self._check_writable'),
             'recv_bytes': ('self._recv_bytes', 'self._check_readable'), 'recv_bytes_into': ('self._recv_bytes', 'self._check_readable'),
             'recv': ('self._recv_bytes', 'self._check_readable'), 'poll': ('self._poll', 'self._check_readable')}
    for name, (io, direction) in sorted(table.items()):
        fi = ci.methods.get(name)
        q.need(fi is not None, '_ConnectionBase.%s not found' % name)
        ios = q.nodes_calling(fi, io)
        q.need(ios, '%s does not call %s' % (name, io))
        for chk in ('self._check_closed', direction):
            cn = q.nodes_calling(fi, chk)
            ok = bool(cn) and all(fi.cfg.dominated_by(x, cn, completed=True)[0] for x in ios)
            ctx.ob('R13.4', '%s:%s-before-io' % (name, chk.split('.')[1]), ok, fi, ios[0], '%s() dominates %s' % (chk, io))
    fn = ci.methods['fileno']
    rets = [n for n in fn.cfg.where(lambda n: isinstance(n.ast, ast.Return))]
    cn = q.nodes_calling(fn, 'self._check_closed')
    ctx.ob('R13.4', 'fileno:_check_closed-first', bool(cn) and all(fn.cfg.dominated_by(r, cn, completed=True)[0] for r in rets),
           fn, None, 'a closed connection has no file number')
    for chk, cond in (('_check_closed', ('self._handle is None', True)), ('_check_readable', ('self._readable', False)),
                      ('_check_writable', ('self._writable', False))):
        fi = ci.methods[chk]
        rz = [n for n in fi.cfg.where(lambda n: isinstance(n.ast, ast.Raise))]
        ok = bool(rz) and all(cond in q.guards_norm(fi, n) for n in rz) and \
            fi.cfg.exit.id not in fi.cfg.reach([fi.cfg.entry.id], block_edges=q.outcome_edges(fi, cond[0], not cond[1]),
                                                skip_labels=('x',))
        ctx.ob('R13.4', '%s:raises-exactly-when-violated' % chk, ok, fi, None, 'raises iff %s is %s' % cond)


def _unreachable_with(fi, target_nodes, blocked):
    r = fi.cfg.reach([fi.cfg.entry.id], block_edges=blocked, include_src=True)
    return not any(n.id in r for n in target_nodes)


def r13_5(ctx):
    ctx.rule('R13.5', 'bounds are checked completely before any I/O: 0 <= offset <= n, size >= 0, offset + size <= n '
                      'for send_bytes; maxlength >= 0; 0 <= offset <= bytesize and the whole message must fit behind '
                      'offset for recv_bytes_into (else BufferTooShort with the message, buffer untouched)', floor=9)
    m = ctx.model
    ci = m.cls('connection:_ConnectionBase')
    sb = ci.methods['send_bytes']
    P = sb.positional_params()
    buf, off, size = P[1], P[2], P[3]
    ios = [(n, c) for (n, c) in q.calls(sb, 'self._send_bytes')]
    q.need(ios, 'send_bytes does not call _send_bytes')
    nvar = None
    for (dn, t, v) in q.assigns(sb, None):
        if v is not None and isinstance(v, ast.Call) and ast.unparse(v.func) == 'len':
            nvar = ast.unparse(t)
    q.need(nvar, 'send_bytes: buffer length not taken')
    nodes = [n for (n, c) in ios]
    E = lambda txt, pol: q.outcome_edges(sb, txt, pol)
    none_t = E(size + ' is None', True)
    checks = [
        ('offset>=0', E('%s < 0' % off, False), set()),
        ('offset<=n', E('%s < %s' % (nvar, off), False), set()),
        ('size>=0', E('%s < 0' % size, False), none_t),
        ('offset+size<=n', E('%s < (%s + %s)' % (nvar, off, size), False) | E('%s < (%s + %s)' % (nvar, size, off), False), none_t),
    ]
    for key, passing, alt in checks:
        ok = bool(passing) and _unreachable_with(sb, nodes, passing | alt)
        ctx.ob('R13.5', 'send_bytes:%s' % key, ok, sb, nodes[0],
               'the send is reachable only through the passing outcome of this check' +
               (' (or size is None)' if alt else ''))
    dflt = [ast.unparse(v).replace(' ', '') for (dn, t, v) in q.assigns(sb, size) if v is not None]
    ctx.ob('R13.5', 'send_bytes:default-size-is-rest', dflt == ['%s-%s' % (nvar, off)], sb, None, 'size = n - offset when None')
    for (n, c) in ios:
        sl = c.args[0]
        ok = isinstance(sl, ast.Subscript) and ast.unparse(sl.slice).replace(' ', '') in (
            '%s:%s+%s' % (off, off, size), '%s:%s+%s' % (off, size, off))
        ctx.ob('R13.5', 'send_bytes:sends-exactly-the-slice', ok, sb, c, ast.unparse(sl))
    rb = ci.methods['recv_bytes']
    ml = rb.positional_params()[1]
    ios = [n for (n, c) in q.calls(rb, 'self._recv_bytes')]
    passing = q.outcome_edges(rb, '%s < 0' % ml, False)
    ok = bool(passing) and _unreachable_with(rb, ios, passing | q.outcome_edges(rb, ml + ' is None', True))
    ctx.ob('R13.5', 'recv_bytes:maxlength>=0', ok, rb, ios[0] if ios else None, 'negative maxlength rejected before reading')
    ok = all(ast.unparse(c.args[0]) == ml for (n, c) in q.calls(rb, 'self._recv_bytes') if c.args) and \
        all(c.args for (n, c) in q.calls(rb, 'self._recv_bytes'))
    ctx.ob('R13.5', 'recv_bytes:limit-passed-down', ok, rb, None, 'self._recv_bytes(maxlength)')
    ri = ci.methods['recv_bytes_into']
    off = ri.positional_params()[2]
    ios = [n for (n, c) in q.calls(ri, 'self._recv_bytes')]
    for key, txt in (('offset>=0', '%s < 0' % off), ('offset<=bytesize', 'bytesize < %s' % off)):
        passing = q.outcome_edges(ri, txt, False)
        ok = bool(passing) and _unreachable_with(ri, ios, passing)
        ctx.ob('R13.5', 'recv_bytes_into:%s' % key, ok, ri, ios[0] if ios else None, 'checked before reading')
    fit_txt = ('bytesize < (%s + size)' % off, 'bytesize < (size + %s)' % off)
    bts = [n for n in ri.cfg.where(lambda n: isinstance(n.ast, ast.Raise) and n.ast.exc is not None
                                   and 'BufferTooShort' in ast.unparse(n.ast.exc))]
    ok = bool(bts) and all(q.has_guard(ri, n, fit_txt, True) and 'getvalue()' in ast.unparse(n.ast.exc) for n in bts)
    ctx.ob('R13.5', 'recv_bytes_into:too-short-iff-message-does-not-fit-behind-offset', ok, ri, bts[0] if bts else None,
           'raise BufferTooShort(result.getvalue()) under bytesize < offset + size')
    wr = [n for (n, c) in q.calls(ri, lambda s: s.endswith('.readinto'))]
    ok = bool(wr) and all(q.has_guard(ri, n, fit_txt, False) for n in wr)
    ctx.ob('R13.5', 'recv_bytes_into:buffer-written-only-when-it-fits', ok, ri, wr[0] if wr else None,
           'readinto only under offset + size <= bytesize')
    szdef = [ast.unparse(v) for (dn, t, v) in q.assigns(ri, 'size') if v is not None]
    ok = szdef == ['result.tell()'] or (len(szdef) == 1 and 'len(' in szdef[0])
    ctx.ob('R13.5', 'recv_bytes_into:size-is-the-message-length', ok, ri, None, 'size = result.tell() after reading the whole message')


def r13_6(ctx):
    ctx.rule('R13.6', 'an oversized message is refused before its payload is read and makes the connection unreadable',
             floor=4)
    m = ctx.model
    rb = m.func('connection:Connection._recv_bytes')
    ms = rb.positional_params()[1]
    over = q.outcome_edges(rb, ('%s < size' % ms, '%s < size' % ms), True)
    q.need(over, '_recv_bytes does not compare the announced size with maxsize')
    recvs = sorted(q.calls(rb, 'self._recv'), key=lambda x: x[1].lineno)
    pay = recvs[-1][0]
    r = rb.cfg.reach([b for (a, b, l) in over], include_src=True)
    ctx.ob('R13.6', '_recv_bytes:oversize-decided-before-payload', pay.id not in r, rb, pay,
           'after size > maxsize the payload read is unreachable')
    fits = q.outcome_edges(rb, '%s < size' % ms, False) | q.outcome_edges(rb, ms + ' is None', True)
    r0 = rb.cfg.reach([rb.cfg.entry.id], block_edges=fits, include_src=True)
    ctx.ob('R13.6', '_recv_bytes:payload-read-only-after-the-size-was-accepted', pay.id not in r0, rb, pay,
           'the payload read is reachable only through `size <= maxsize` (or no limit)')
    rets = [n for n in rb.cfg.where(lambda n: isinstance(n.ast, ast.Return)) if n.id in r]
    ok = bool(rets) and all(n.ast.value is None or ast.unparse(n.ast.value) == 'None' for n in rets)
    ctx.ob('R13.6', '_recv_bytes:oversize-returns-None', ok, rb, rets[0] if rets else None, 'return None')
    ci = m.cls('connection:_ConnectionBase')
    fi = ci.methods['recv_bytes']
    bad = q.nodes_calling(fi, 'self._bad_message_length')
    v = None
    for (n, c) in q.calls(fi, 'self._recv_bytes'):
        if isinstance(n.ast, ast.Assign):
            v = ast.unparse(n.ast.targets[0])
    ok = bool(bad) and v is not None and all(q.has_guard(fi, n, v + ' is None', True) for n in bad)
    nonepath = q.outcome_edges(fi, (v or '?') + ' is None', True)
    r2 = fi.cfg.reach([b for (a, b, l) in nonepath], block_nodes={n.id for n in bad}, include_src=True, skip_labels=('x',))
    ok = ok and fi.cfg.exit.id not in r2
    ctx.ob('R13.6', 'recv_bytes:None-goes-to-_bad_message_length', ok, fi, bad[0] if bad else None,
           'if buf is None: self._bad_message_length()')
    bm = ci.methods['_bad_message_length']
    rz = [n for n in bm.cfg.where(lambda n: isinstance(n.ast, ast.Raise))]
    off = [dn for (dn, t, vv) in q.assigns(bm, 'self._readable') if ast.unparse(vv) == 'False'] + q.nodes_calling(bm, 'self.close')
    ok = bool(rz) and bm.cfg.exit.id not in bm.cfg.reach([bm.cfg.entry.id], skip_labels=('x',)) and \
        all(bm.cfg.dominated_by(n, off)[0] for n in rz)
    ctx.ob('R13.6', '_bad_message_length:unreadable-then-raise', ok, bm, None,
           'every path clears _readable or closes, then raises')


def r13_7(ctx):
    ctx.rule('R13.7', 'the read-exactly / write-all loops assume a blocking descriptor: every socket that is turned into '
                      'a Connection by the listener or the client is put into blocking mode first (a default socket '
                      'timeout set by the application makes new sockets non-blocking)', floor=2)
    m = ctx.model
    n_s = 0
    for qn in ('connection:SocketListener.accept', 'connection:SocketClient'):
        fi = m.func(qn)
        cfg = fi.cfg
        for (n, c) in q.calls(fi, 'Connection'):
            a = c.args[0] if c.args else None
            if not (isinstance(a, ast.Call) and fi.callee(a) in ('detach',) and a.args and isinstance(a.args[0], ast.Name)):
                continue
            s = a.args[0].id
            n_s += 1
            setb = [x for (x, cc) in q.calls(fi, s + '.setblocking')
                    if cc.args and isinstance(cc.args[0], ast.Constant) and cc.args[0].value in (True, 1)]
            ok = bool(setb) and cfg.dominated_by(n, setb, completed=True)[0]
            ctx.ob('R13.7', '%s:socket-made-blocking-before-it-becomes-a-connection' % qn.split(':')[1], ok, fi, c,
                   '%s.setblocking(True) precedes Connection(detach(%s))' % (s, s) if ok else
                   'the socket is handed to Connection without setblocking(True): after socket.setdefaulttimeout() it '
                   'is non-blocking, a message that arrives in pieces raises BlockingIOError mid-frame and the stream '
                   'is out of step from then on')
    q.need(n_s >= 2, 'connection.py: socket-to-Connection sites of listener and client not found')



def r13_8(ctx):
    ctx.rule('R13.8', 'close() forgets the handle on every way out of the low-level close, also when that raises: a '
                      'connection whose descriptor number may already belong to somebody else must report closed', floor=1)
    m = ctx.model
    fi = m.func('connection:_ConnectionBase.close')
    cfg = fi.cfg
    cl = [n for (n, c) in q.calls(fi, 'self._close')]
    q.need(cl, '_ConnectionBase.close does not call self._close')
    forget = [dn for (dn, t, v) in q.assigns(fi, 'self._handle') if v is not None and ast.unparse(v) == 'None']
    ok, w = cfg.must_pass(cl, [cfg.exit, cfg.raise_exit], forget) if forget else (False, None)
    ctx.ob('R13.8', 'close:handle-forgotten-on-every-way-out', ok, fi, cl[0],
           'self._handle = None after self._close() on normal and exceptional exits (try/finally)', path=w)


def run(ctx):
    r13_8(ctx)
    r13_7(ctx)
    r13_1(ctx)
    r13_2(ctx)
    r13_3(ctx)
    r13_4(ctx)
    r13_5(ctx)
    r13_6(ctx)
    from .reduce import r12_1
    r12_1(ctx, modules=('connection',), floor=1)
    ctx.assume('os.read/os.write semantics (short counts, EINTR) are the kernel\'s; only the loops\' shape is decided')


_C = 'billiard/connection.py'
MUTANTS = [
    ('close-forgets-the-handle-only-on-success', _C, "            try:\n                self._close()\n            finally:\n                self._handle = None\n", "            self._close()\n            self._handle = None\n", 'R13.8'),
    ('header-format-differs', _C, 'size, = struct.unpack("!i", buf.getvalue())', 'size, = struct.unpack("<i", buf.getvalue())', 'R13.1'),
    ('header-read-2', _C, "        buf = self._recv(4)\n        size, = struct.unpack", "        buf = self._recv(2)\n        size, = struct.unpack", 'R13.1'),
    ('payload-before-header', _C, "            self._send(header)\n            self._send(buf)\n", "            self._send(buf)\n            self._send(header)\n", 'R13.1'),
    ('header-len-plus-one', _C, '        header = struct.pack("!i", n)', '        header = struct.pack("!i", n + 1)', 'R13.1'),
    ('update-after-eintr', _C, "            else:\n                remaining -= n\n                if remaining == 0:\n                    break\n                buf = buf[n:]\n",
     "            remaining -= n\n            if remaining == 0:\n                break\n            buf = buf[n:]\n", 'R13.2'),
    ('buffer-not-advanced', _C, "                if remaining == 0:\n                    break\n                buf = buf[n:]\n", "                if remaining == 0:\n                    break\n", 'R13.2'),
    ('break-after-first-write', _C, "                remaining -= n\n                if remaining == 0:\n                    break\n                buf = buf[n:]", "                remaining -= n\n                break", 'R13.2'),
    ('all-errors-retried', _C, "                n = write(self._handle, buf)\n            except (OSError, IOError, socket.error) as exc:\n                if getattr(exc, 'errno', None) != errno.EINTR:\n                    raise\n",
     "                n = write(self._handle, buf)\n            except (OSError, IOError, socket.error) as exc:\n                pass\n", 'R13.2'),
    ('read-asks-size', _C, "                chunk = read(handle, remaining)", "                chunk = read(handle, size)", 'R13.3'),
    ('short-message-returned', _C, "                    if remaining == size:\n                        raise EOFError\n                    else:\n                        raise OSError(\"got end of file during message\")",
     "                    if remaining == size:\n                        raise EOFError\n                    else:\n                        break", 'R13.3'),
    ('eof-always', _C, "                    if remaining == size:\n                        raise EOFError\n                    else:\n                        raise OSError(\"got end of file during message\")",
     "                    raise EOFError", 'R13.3'),
    ('chunk-not-counted', _C, "                buf.write(chunk)\n                remaining -= n\n", "                buf.write(chunk)\n                remaining -= 1\n", 'R13.3'),
    ('send-no-closed-check', _C, "        \"\"\"Send a (picklable) object\"\"\"\n        self._check_closed()\n        self._check_writable()", "        \"\"\"Send a (picklable) object\"\"\"\n        self._check_writable()", 'R13.4'),
    ('poll-write-only', _C, "        \"\"\"Whether there is any input available to be read\"\"\"\n        self._check_closed()\n        self._check_readable()", "        \"\"\"Whether there is any input available to be read\"\"\"\n        self._check_closed()", 'R13.4'),
    ('checks-after-io', _C, "        self._check_closed()\n        self._check_readable()\n        buf = self._recv_bytes()\n        return ForkingPickler.loadbuf(buf)", "        buf = self._recv_bytes()\n        self._check_closed()\n        self._check_readable()\n        return ForkingPickler.loadbuf(buf)", 'R13.4'),
    ('offset-upper-bound-dropped', _C, "        if n < offset:\n            raise ValueError(\"buffer length < offset\")\n", "", 'R13.5'),
    ('size-bound-off-by-one', _C, "        elif offset + size > n:", "        elif offset + size > n + 1:", 'R13.5'),
    ('negative-size-allowed', _C, "        elif size < 0:\n            raise ValueError(\"size is negative\")\n        elif offset + size > n:", "        elif offset + size > n:", 'R13.5'),
    ('into-fit-ignores-offset', _C, "            if bytesize < offset + size:", "            if bytesize < size:", 'R13.5'),
    ('into-too-short-empty', _C, "                raise BufferTooShort(result.getvalue())", "                raise BufferTooShort(b'')", 'R13.5'),
    ('negative-maxlength', _C, "        if maxlength is not None and maxlength < 0:\n            raise ValueError(\"negative maxlength\")\n", "", 'R13.5'),
    ('oversize-read-anyway', _C, "        if maxsize is not None and size > maxsize:\n            return None\n        return self._recv(size)", "        data = self._recv(size)\n        if maxsize is not None and size > maxsize:\n            return None\n        return data", 'R13.6'),
    ('bad-length-keeps-readable', _C, "        if self._writable:\n            self._readable = False\n        else:\n            self.close()\n        raise OSError(\"bad message length\")", "        raise OSError(\"bad message length\")", 'R13.6'),
    ('reduce-connection-swapped', _C, "        return rebuild_connection, (df, conn.readable, conn.writable)", "        return rebuild_connection, (df, conn.writable, conn.readable)", 'R12.1'),
]
TWINS = [
    ('send-while-remaining', _C, "        while True:\n            try:\n                n = write(self._handle, buf)", "        while 1:\n            try:\n                n = write(self._handle, buf)"),
    ('recv-loop-flipped', _C, "        while remaining > 0:", "        while 0 < remaining:"),
    ('offset-check-flipped', _C, "        if n < offset:\n            raise ValueError(\"buffer length < offset\")", "        if offset > n:\n            raise ValueError(\"buffer length < offset\")"),
    ('into-fit-flipped', _C, "            if bytesize < offset + size:", "            if offset + size > bytesize:"),
]
