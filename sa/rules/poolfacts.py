"""Facts about billiard/pool.py that several properties share: protocol tags,
message producers, cache-entry classes, the anchors inside Worker.workloop."""
import ast

from ..model import AnalysisError, walk_own, dotted
from .. import q

TAGS = ('ACK', 'READY', 'TASK', 'NACK', 'DEATH')
CLOCKS = {'monotonic', 'time.monotonic', 'time.time', 'time.perf_counter'}


class Producer:
    def __init__(self, fi, call, tag, payload, msg):
        self.fi, self.call, self.tag, self.payload, self.msg = fi, call, tag, payload, msg

    def __repr__(self):
        return '<%s in %s L%d>' % (self.tag, self.fi.qual, self.call.lineno)


def _msg_tuple(expr):
    """(tag name, payload elts) if expr is ``(TAG, (a, b, ...))``"""
    if isinstance(expr, ast.Tuple) and len(expr.elts) == 2 and \
            isinstance(expr.elts[0], ast.Name) and expr.elts[0].id in TAGS and \
            isinstance(expr.elts[1], ast.Tuple):
        return expr.elts[0].id, list(expr.elts[1].elts)
    return None


class PoolFacts:
    def __init__(self, model):
        self.model = model
        if 'pool' not in model.modules:
            raise AnalysisError('billiard/pool.py not found')
        self.mi = model.modules['pool']
        self.tags = {}
        for t in TAGS:
            self.tags[t] = model.const('pool', t)
        if len(set(self.tags.values())) != len(TAGS):
            raise AnalysisError('protocol tags are not distinct: %r' % self.tags)
        self._producers = None
        self._entries = None

    # every tuple literal (TAG, (...)) in the module, with the function that builds it
    @property
    def producers(self):
        if self._producers is None:
            out = []
            for fi in self.model.funcs.values():
                if fi.module is not self.mi:
                    continue
                for n in walk_own(fi.node):
                    m = _msg_tuple(n) if isinstance(n, ast.Tuple) else None
                    if m:
                        out.append(Producer(fi, n, m[0], m[1], n))
            self._producers = out
        return self._producers

    @property
    def entry_classes(self):
        """Classes whose __init__ stores ``self`` in the cache under self._job."""
        if self._entries is None:
            direct = []
            for ci in self.model.classes.values():
                if ci.module is not self.mi:
                    continue
                init = ci.methods.get('__init__')
                if init is None:
                    continue
                for n in walk_own(init.node):
                    if isinstance(n, ast.Assign) and len(n.targets) == 1 and \
                            isinstance(n.targets[0], ast.Subscript) and \
                            isinstance(n.value, ast.Name) and n.value.id == 'self' and \
                            isinstance(n.targets[0].value, ast.Name) and \
                            n.targets[0].value.id in init.params and \
                            ast.unparse(n.targets[0].slice) == 'self._job':
                        direct.append(ci)
            out = []
            for ci in self.model.classes.values():
                if ci.module is self.mi and any(d in self.model.mro(ci) for d in direct):
                    out.append(ci)
            out.sort(key=lambda c: c.node.lineno)
            self._entries = out
        return self._entries


def facts(ctx):
    m = ctx.model
    if not hasattr(m, '_poolfacts'):
        m._poolfacts = PoolFacts(m)
    return m._poolfacts


class ReaperAnchors:
    """Local names of Pool._join_exited_workers discovered by role (so that a rename of a
    local does not matter): the loop's worker variable, the dict of reaped workers, the dict of
    their exit codes, the exit-code variable, the list of live pids, the clock variable."""

    def __init__(self, ctx):
        m = ctx.model
        self.fi = fi = m.func('pool:Pool._join_exited_workers')
        self.worker = self.cleaned = self.exitcodes = self.exitcode = self.all_pids = self.now = None
        for n in walk_own(fi.node):
            if not isinstance(n, ast.Assign) or len(n.targets) != 1:
                continue
            t, v = n.targets[0], n.value
            if isinstance(t, ast.Name) and isinstance(v, ast.Subscript) and fi.canon(v.value) == 'self._pool':
                self.worker = t.id
        if self.worker is None:
            # `for worker in self._pool` / `for i, worker in enumerate(self._pool)` / reversed(...) / list(...)
            for n in walk_own(fi.node):
                if not isinstance(n, ast.For):
                    continue
                it, wrapped = n.iter, []
                while isinstance(it, ast.Call) and isinstance(it.func, ast.Name) and len(it.args) >= 1 and \
                        it.func.id in ('enumerate', 'reversed', 'list', 'tuple'):
                    wrapped.append(it.func.id)
                    it = it.args[0]
                if fi.canon(it) != 'self._pool':
                    continue
                t = n.target
                if 'enumerate' in wrapped and isinstance(t, ast.Tuple) and len(t.elts) == 2:
                    t = t.elts[1]
                if isinstance(t, ast.Name) and any(isinstance(x, ast.Attribute) and x.attr == 'exitcode' and
                                                   isinstance(x.value, ast.Name) and x.value.id == t.id
                                                   for b in n.body for x in ast.walk(b)):
                    self.worker = t.id
        q.need(self.worker, '_join_exited_workers: worker variable (self._pool[i]) not found')
        W = self.worker
        for n in walk_own(fi.node):
            if not isinstance(n, ast.Assign) or len(n.targets) != 1:
                continue
            t, v = n.targets[0], n.value
            if isinstance(t, ast.Name) and ast.unparse(v) == W + '.exitcode':
                self.exitcode = t.id
            # the pids of the workers still listed: a list, a set or a frozenset of them, however it is spelled
            comp = v
            if isinstance(comp, ast.Call) and isinstance(comp.func, ast.Name) and comp.func.id in ('set', 'frozenset', 'list', 'tuple') \
                    and len(comp.args) == 1:
                comp = comp.args[0]
            if isinstance(t, ast.Name) and isinstance(comp, (ast.ListComp, ast.SetComp, ast.GeneratorExp)) and \
                    ast.unparse(comp.generators[0].iter) == 'self._pool' and ast.unparse(comp.elt).endswith('.pid') and \
                    not comp.generators[0].ifs:
                self.all_pids = t.id
            if isinstance(t, ast.Name) and any(isinstance(x, ast.Call) and fi.callee(x) in CLOCKS for x in ast.walk(v)):
                self.now = t.id
        for n in walk_own(fi.node):
            if isinstance(n, ast.Assign) and len(n.targets) == 1 and isinstance(n.targets[0], ast.Subscript) and \
                    isinstance(n.targets[0].value, ast.Name) and ast.unparse(n.targets[0].slice) == W + '.pid':
                if ast.unparse(n.value) == W:
                    self.cleaned = n.targets[0].value.id
                elif self.exitcode and ast.unparse(n.value) == self.exitcode:
                    self.exitcodes = n.targets[0].value.id
        for nm in ('cleaned', 'exitcodes', 'exitcode', 'now'):
            q.need(getattr(self, nm), '_join_exited_workers: local in the role `%s` not found' % nm)
        # the list of live pids is what one rule (R04.4, owner really gone) is about: its absence is that rule's
        # finding, not a missing anchor
        self.all_pids = self.all_pids or '<no list of live pids>'


class WorkloopAnchors:
    """The constructs of Worker.workloop the protocol rules talk about."""

    def __init__(self, ctx):
        m = ctx.model
        self.fi = fi = m.func('pool:Worker.workloop')
        cfg = fi.cfg
        # the TASK unpack: a 5-name tuple assignment
        unpack = None
        for n in cfg.where(lambda n: n.kind == 'stmt' and isinstance(n.ast, ast.Assign)):
            t = n.ast.targets[0]
            if isinstance(t, ast.Tuple) and len(t.elts) == 5 and \
                    all(isinstance(e, ast.Name) for e in t.elts):
                unpack = n
                break
        q.need(unpack is not None, 'Worker.workloop: TASK payload unpack (5 names) not found')
        self.unpack = unpack
        self.job, self.part, self.fun, self.args, self.kwargs = \
            [e.id for e in unpack.ast.targets[0].elts]
        # the task call  fun(*args, **kwargs)
        tcs = []
        for n in cfg.where(lambda n: True):
            for c in cfg.calls_at(n):
                if isinstance(c.func, ast.Name) and c.func.id == self.fun and \
                        any(isinstance(a, ast.Starred) and isinstance(a.value, ast.Name)
                            and a.value.id == self.args for a in c.args) and \
                        any(k.arg is None and isinstance(k.value, ast.Name)
                            and k.value.id == self.kwargs for k in c.keywords):
                    tcs.append((n, c))
        q.need(tcs, 'Worker.workloop: task call %s(*%s, **%s) not found' % (
            self.fun, self.args, self.kwargs))
        self.task_nodes = [n for n, c in tcs]
        self.task_calls = [c for n, c in tcs]
        # puts of protocol messages on the result pipe
        self.puts = {}   # tag -> [(node, call, payload)]
        for n, c in q.calls(fi, 'self.outq.put'):
            if len(c.args) == 1:
                m_ = _msg_tuple(c.args[0])
                if m_:
                    self.puts.setdefault(m_[0], []).append((n, c, m_[1]))
        q.need('ACK' in self.puts, 'Worker.workloop: no put of an ACK message on self.outq')
        q.need('READY' in self.puts, 'Worker.workloop: no put of a READY message on self.outq')
        # the main loop: the While statement that contains the unpack
        loops = [n for n in cfg.where(lambda n: n.kind == 'loop')
                 if any(x is unpack.ast for x in walk_own(n.stmt))]
        q.need(loops, 'Worker.workloop: main loop not found')
        # innermost = the one with the largest lineno
        self.loop = max(loops, key=lambda n: n.stmt.lineno)
        # the completed-task counter: the name compared with maxtasks in the loop test
        self.counter = None
        for n in walk_own(self.loop.stmt.test):
            if isinstance(n, ast.Compare) and len(n.ops) == 1 and \
                    isinstance(n.ops[0], (ast.Lt, ast.LtE, ast.Gt, ast.GtE, ast.NotEq)):
                sides = [n.left, n.comparators[0]]
                cs = [fi.canon(s) for s in sides]
                if 'self.maxtasks' in cs:
                    other = sides[1 - cs.index('self.maxtasks')]
                    if isinstance(other, ast.Name):
                        self.counter = other.id
                        self.counter_cmp = n
        q.need(self.counter, 'Worker.workloop: loop test does not compare a counter with self.maxtasks')
        self.incr_nodes = [n for (n, t, v) in q.assigns(fi, self.counter)
                           if isinstance(n.ast, ast.AugAssign)]
        q.need(self.incr_nodes, 'Worker.workloop: counter %s is never incremented' % self.counter)
