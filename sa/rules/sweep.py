"""Rules found by the generic mutation sweep (tools/mutsweep.py): relations that every earlier rule took for granted.
Each is a necessary condition of the property that runs it; the rule id carries the property that owns it.  They are
phrased on outcomes and reachability in the CFG ("with X the function never returns normally", "every iteration
passes a call of Y"), not on statement text."""
import ast

from .. import q


def _find(ctx, qual):
    fi = ctx.model.funcs.get(qual)
    q.need(fi is not None, 'function %s not found' % qual)
    return fi


def never_returns_after(fi, edges):
    """Ids of normal-exit / return nodes reachable after taking one of the CFG edges (a, b, label)."""
    cfg = fi.cfg
    r = cfg.reach([b for (a, b, l) in edges], include_src=True, skip_labels=())
    return cfg.exit.id in r


def r07_15(ctx, rule='R07.15'):
    ctx.rule(rule, 'a worker that reads the end-of-work sentinel, a dead pipe or a set restart event leaves: in the '
                   'protected receive those outcomes end in SystemExit on every path, they never return to the job loop',
             floor=3)
    fi = _find(ctx, 'pool:Worker._make_protected_receive.receive')
    cfg = fi.cfg
    parent = _find(ctx, 'pool:Worker._make_protected_receive')
    recv_names = {st.targets[0].id for st in ast.walk(parent.node) if isinstance(st, ast.Assign)
                  and isinstance(st.targets[0], ast.Name) and isinstance(st.value, ast.Call)
                  and ast.unparse(st.value.func).endswith('_make_recv_method')}
    shut_names = {st.targets[0].id for st in ast.walk(parent.node) if isinstance(st, ast.Assign)
                  and isinstance(st.targets[0], ast.Name) and '_shutdown' in ast.unparse(st.value)}
    q.need(recv_names, '_make_protected_receive does not build its receive primitive with _make_recv_method')
    got = [st for st in ast.walk(fi.node) if isinstance(st, ast.Assign) and isinstance(st.targets[0], ast.Tuple)
           and len(st.targets[0].elts) == 2 and isinstance(st.value, ast.Call)
           and ast.unparse(st.value.func) in recv_names and isinstance(st.targets[0].elts[1], ast.Name)]
    q.need(got, 'receive: `ready, req = _receive(...)` not found')
    req = got[0].targets[0].elts[1].id
    cases = [
        ('sentinel', q.outcome_edges(fi, lambda t: t.replace(' ', '') in ('%sisNone' % req,), True)),
        ('pipe-error-other-than-EINTR', q.outcome_edges(fi, lambda t: 'EINTR' in t and '==' in t, False)),
        ('restart-event-set', q.outcome_edges(fi, lambda t: any(t.startswith(n_ + '()') for n_ in shut_names), True)),
    ]
    for name, edges in cases:
        q.need(edges, 'receive: the test for %s was not found' % name)
        back = never_returns_after(fi, edges)
        ctx.ob(rule, 'receive:%s-ends-the-worker' % name, not back, fi, None,
               'raises SystemExit on every path' if not back else
               'the worker can return from receive() and go on waiting for jobs: close()/join() and terminate() wait '
               'for a worker that never leaves',
               path=None if not back else cfg.path([b for (a, b, l) in edges], [cfg.exit.id]))
    # and the pipe error is caught at all: the read sits in a try whose handler names EOFError and an OS error
    reads = q.nodes_calling(fi, lambda t: t in recv_names)
    q.need(reads, 'receive does not call _receive')
    prot = q.protected_by(fi, reads[0].ast if reads[0].ast is not None else reads[0].stmt, ('EOFError',)) and \
        (q.protected_by(fi, reads[0].ast if reads[0].ast is not None else reads[0].stmt, ('IOError',)) or
         q.protected_by(fi, reads[0].ast if reads[0].ast is not None else reads[0].stmt, ('OSError',)))
    ctx.ob(rule, 'receive:read-protected-against-a-dead-pipe', bool(prot), fi, reads[0],
           'EOFError and OSError/IOError from the read are handled in receive()')


def r08_15(ctx, rule='R08.15'):
    ctx.rule(rule, 'terminate() / close() of a pool thread publish the state the thread loops test: terminate() stores '
                   'TERMINATE and close() stores CLOSE in _state on every path', floor=2)
    m = ctx.model
    for meth, const in (('terminate', 'TERMINATE'), ('close', 'CLOSE')):
        fi = _find(ctx, 'pool:PoolThread.%s' % meth)
        cfg = fi.cfg
        sets = [dn for (dn, t, v) in q.assigns(fi, 'self._state')
                if v is not None and q.const_of(fi, v) == q.const_of(fi, ast.Name(const, ast.Load()))]
        ok = bool(sets)
        w = None
        if ok:
            ok, w = cfg.must_pass([cfg.entry], [cfg.exit], sets, skip_labels=('x',))
        ctx.ob(rule, 'PoolThread.%s:stores-%s' % (meth, const), ok, fi, sets[0] if sets else None,
               'self._state = %s on every path' % const, path=w)


def r09_13(ctx, rule='R09.13'):
    ctx.rule(rule, 'the supervisor thread supervises: every iteration of both of its loops (start-up burst and steady '
                   'state) that finds thread and pool running calls pool._maintain_pool(); the steady loop ends only '
                   'when one of the two states left RUN', floor=3)
    fi = _find(ctx, 'pool:Supervisor.body')
    cfg = fi.cfg
    calls = q.nodes_calling(fi, 'pool._maintain_pool') or q.nodes_calling(fi, 'self.pool._maintain_pool')
    q.need(calls, 'Supervisor.body does not call _maintain_pool')
    loops = [n for n in cfg.where(lambda n: n.kind in ('for', 'loop', 'test') and isinstance(n.stmt, (ast.For, ast.While))
                                  and (n.kind != 'test' or n.ast is n.stmt.test or True))]
    whiles = [st for st in ast.walk(fi.node) if isinstance(st, ast.While)]
    fors = [st for st in ast.walk(fi.node) if isinstance(st, ast.For)]
    q.need(whiles and fors, 'Supervisor.body: burst loop / steady loop not found')
    running = lambda t: '_state' in t and 'RUN' in t
    for kind, st in (('burst', fors[0]), ('steady', whiles[-1])):
        inside = [c for c in calls if q.inside(fi, c, [st])]
        ctx.ob(rule, 'Supervisor.body:%s-loop-maintains' % kind, bool(inside), fi, inside[0] if inside else None,
               '_maintain_pool() is called in the %s loop' % kind)
        if not inside:
            continue
        # no way from the loop head through "both running" outcomes back to the head without the call
        t_edges = set()
        for n in cfg.nodes:
            if n.kind == 'test' and n.id in cfg.live and q.inside(fi, n, [st]):
                text, p = q.norm_guard(fi, n.ast, True)
                if running(text):
                    for (b, l) in cfg.succ[n.id]:
                        if l == ('t' if p else 'f'):
                            t_edges.add((n.id, b, l))
        q.need(t_edges, 'Supervisor.body: %s loop does not test the states' % kind)
        # the last "running" outcome before the body: those whose target is not itself a state test
        tests = {a for (a, b, l) in t_edges}
        starts = [b for (a, b, l) in t_edges if b not in tests]
        heads = [n.id for n in cfg.nodes if n.id in cfg.live and n.stmt is st and n.kind in ('for', 'loop', 'test')]
        r = cfg.reach(starts, block_nodes=[c.id for c in inside], include_src=True, skip_labels=('x',))
        skipped = [h for h in heads if h in r] or ([cfg.exit.id] if cfg.exit.id in r else [])
        ctx.ob(rule, 'Supervisor.body:%s-loop-no-tick-without-maintenance' % kind, not skipped, fi, inside[0],
               'with thread and pool running, every pass of the %s loop completes a _maintain_pool() call' % kind
               if not skipped else 'an iteration that found both states RUN can go round (or leave) without '
               '_maintain_pool(): exited workers are not replaced')
    wh = whiles[-1]
    txt = ast.unparse(wh.test).replace(' ', '')
    conj = [ast.unparse(v).replace(' ', '') for v in (wh.test.values if isinstance(wh.test, ast.BoolOp) and
                                                     isinstance(wh.test.op, ast.And) else [wh.test])]
    ok = any(c in ('self._state==RUN', 'RUN==self._state') for c in conj) and \
        any(c in ('pool._state==RUN', 'self.pool._state==RUN', 'RUN==pool._state') for c in conj)
    brk = q.loop_early_exits(fi, [n for n in cfg.nodes if n.stmt is wh and n.id in cfg.live][0]) \
        if False else []
    ctx.ob(rule, 'Supervisor.body:steady-loop-runs-while-both-RUN', ok, fi, None,
           'while %s' % ast.unparse(wh.test))


def r11_6(ctx, rule='R11.6'):
    ctx.rule(rule, 'a refused restart shuts the pool down and is not swallowed: the supervisor\'s handler for '
                   'RestartFreqExceeded closes the pool and re-raises on every path (PoolThread.run then signals the '
                   'host); the supervision calls sit inside that try', floor=3)
    fi = _find(ctx, 'pool:Supervisor.body')
    cfg = fi.cfg
    hs = [h for st in ast.walk(fi.node) if isinstance(st, ast.Try) for h in st.handlers
          if q.handler_catches(h, ('RestartFreqExceeded',))]
    if not hs:
        # the same thing said with a context manager: `with CM(pool):` around the maintenance calls, CM.__exit__
        # closes the pool when the exception is a RestartFreqExceeded and never returns a true value
        m = ctx.model
        calls = q.nodes_calling(fi, 'pool._maintain_pool') or q.nodes_calling(fi, 'self.pool._maintain_pool')
        q.need(calls, 'Supervisor.body does not call _maintain_pool')
        for w_ in [st for st in ast.walk(fi.node) if isinstance(st, ast.With)]:
            for it in w_.items:
                ce = it.context_expr
                if not (isinstance(ce, ast.Call) and isinstance(ce.func, ast.Name)):
                    continue
                ex = m.funcs.get('pool:%s.__exit__' % ce.func.id)
                if ex is None:
                    continue
                src = ast.unparse(ex.node)
                rets = [r_ for r_ in ast.walk(ex.node) if isinstance(r_, ast.Return)]
                swallow = any(not (r_.value is None or (isinstance(r_.value, ast.Constant) and not r_.value.value))
                              for r_ in rets)
                closes = 'RestartFreqExceeded' in src and '.close()' in src
                inside = all(q.inside(fi, c_, w_.body) for c_ in calls)
                ctx.ob(rule, 'Supervisor.body:refused-restart-re-raised', not swallow, fi, None,
                       '%s.__exit__ returns nothing true: the exception goes on' % ce.func.id)
                ctx.ob(rule, 'Supervisor.body:refused-restart-closes-the-pool', closes, fi, None,
                       '%s.__exit__ closes the pool on RestartFreqExceeded' % ce.func.id)
                ctx.ob(rule, 'Supervisor.body:maintenance-inside-the-try', inside, fi, None,
                       'every _maintain_pool() call is inside the with block')
                return
    q.need(hs, 'Supervisor.body has no handler for RestartFreqExceeded')
    h = hs[0]
    entry = [n for n in cfg.nodes if n.kind == 'except' and n.stmt is not None and
             (n.ast is h or n.stmt is h or getattr(n, 'info', None) is h) and n.id in cfg.live]
    if not entry:
        entry = [n for n in cfg.nodes if n.kind == 'except' and n.id in cfg.live and q.inside(fi, n, [h])]
    q.need(entry, 'Supervisor.body: handler entry not found in the CFG')
    r = cfg.reach([e.id for e in entry], include_src=True, skip_labels=())
    ctx.ob(rule, 'Supervisor.body:refused-restart-re-raised', cfg.exit.id not in r, fi, entry[0],
           'the handler never completes normally' if cfg.exit.id not in r else
           'the handler can fall through: the supervisor thread ends quietly and nobody learns that restarts were refused')
    closes = [c for c in q.nodes_calling(fi, 'pool.close') + q.nodes_calling(fi, 'self.pool.close')
              if q.inside(fi, c, [h])]
    ctx.ob(rule, 'Supervisor.body:refused-restart-closes-the-pool', bool(closes), fi, entry[0],
           'pool.close() in the handler')
    tr = [st for st in ast.walk(fi.node) if isinstance(st, ast.Try) and h in st.handlers][0]
    calls = q.nodes_calling(fi, 'pool._maintain_pool') or q.nodes_calling(fi, 'self.pool._maintain_pool')
    outside = [c for c in calls if not q.inside(fi, c, tr.body)]
    ctx.ob(rule, 'Supervisor.body:maintenance-inside-the-try', bool(calls) and not outside, fi,
           outside[0] if outside else None, 'every _maintain_pool() call is covered by the handler')


def _mentions(node, text):
    return any(isinstance(x, ast.Attribute) and ast.unparse(x) == text for x in ast.walk(node))


def r01_17(ctx, rule='R01.17'):
    ctx.rule(rule, 'a pool-made failure is a record of a live exception of the right type: the `_set(..., (False, '
                   'ExceptionInfo()))` of mark_as_worker_lost / on_hard_timeout / _set_terminated sits in the handler of '
                   'a try whose body ends in raising WorkerLostError / TimeLimitExceeded / Terminated on every path, and '
                   'the handler catches that type', floor=3)
    cases = [('pool:Pool.mark_as_worker_lost', 'WorkerLostError'),
             ('pool:TimeoutHandler.on_hard_timeout', 'TimeLimitExceeded'),
             ('pool:ApplyResult._set_terminated', 'Terminated')]
    for qual, exc in cases:
        fi = _find(ctx, qual)
        short = qual.split('.')[-1]
        sets = [(n, c) for (n, c) in q.calls(fi, lambda t: t.endswith('._set'))
                if any(isinstance(x, ast.Call) and ast.unparse(x.func).endswith('ExceptionInfo') and not x.args
                       for a in c.args for x in ast.walk(a))]
        q.need(sets, '%s: no _set(..., (False, ExceptionInfo())) call' % short)
        for (n, c) in sets:
            trys = [(t, h) for t in ast.walk(fi.node) if isinstance(t, ast.Try) for h in t.handlers
                    if any(x is c for st in h.body for x in ast.walk(st))]
            ok = False
            why = 'the failure is recorded outside an exception handler: ExceptionInfo() has no live exception to record'
            if trys:
                t, h = trys[-1]
                raises = [st for st in t.body if isinstance(st, ast.Raise) and st.exc is not None]
                last = t.body[-1] if t.body else None
                named = isinstance(last, ast.Raise) and last.exc is not None and \
                    ast.unparse(last.exc.func if isinstance(last.exc, ast.Call) else last.exc).split('.')[-1] == exc
                catches = q.handler_catches(h, (exc,))
                ok = bool(named and catches)
                why = 'try body ends in `raise %s(...)` and the handler catches it' % exc if ok else \
                    'the try body does not end in raising %s, or the handler does not catch it: the job gets no ' \
                    'failure record of the right type' % exc
            ctx.ob(rule, '%s:failure-record-is-a-live-%s' % (short, exc), ok, fi, n, why)


def r02_9(ctx, rule='R02.9'):
    ctx.rule(rule, 'a map result counts its parts: on the success arm of MapResult._set the parts-left counter goes down '
                   'by exactly one before it is compared with zero, the handle becomes ready on that arm only under '
                   '"none left"; on the failure arm the outcome (not successful, the failure record) is stored before '
                   'the handle becomes ready', floor=4)
    fi = _find(ctx, 'pool:MapResult._set')
    cfg = fi.cfg
    unpack = [st for st in ast.walk(fi.node) if isinstance(st, ast.Assign) and isinstance(st.targets[0], ast.Tuple)
              and len(st.targets[0].elts) == 2 and isinstance(st.value, ast.Name) and st.value.id in fi.params[1:]]
    q.need(unpack, 'MapResult._set: the (success, result) unpacking was not found')
    s_name, r_name = [e.id for e in unpack[0].targets[0].elts]
    s_edges = q.outcome_edges(fi, s_name, True)
    f_edges = q.outcome_edges(fi, s_name, False)
    q.need(s_edges and f_edges, 'MapResult._set: no test of the success flag')
    s0 = [b for (a, b, l) in s_edges]
    f0 = [b for (a, b, l) in f_edges]
    decs = [n for n in cfg.nodes if n.id in cfg.live and isinstance(n.ast, ast.AugAssign) and
            isinstance(n.ast.op, ast.Sub) and ast.unparse(n.ast.target) == 'self._number_left' and
            ast.unparse(n.ast.value) == '1']
    zero_t = q.outcome_edges(fi, lambda t: t.replace(' ', '') in ('self._number_left==0', '0==self._number_left',
                                                                 'notself._number_left', 'self._number_left<=0',
                                                                 '0>=self._number_left', 'self._number_left<1'), True)
    zero_tests = {a for (a, b, l) in zero_t}
    ok = len(decs) == 1 and bool(zero_tests)
    w = None
    if ok:
        ok, w = cfg.must_pass(s0, list(zero_tests), decs, skip_labels=('x',))
    ctx.ob(rule, 'MapResult._set:one-part-counted-before-the-zero-test', ok, fi, decs[0] if decs else None,
           'self._number_left -= 1 once, before it is compared with 0', path=w)
    ready = [n for (n, c) in q.calls(fi, 'self._event.set')]
    q.need(ready, 'MapResult._set: self._event.set() not found')
    r = cfg.reach(s0, block_edges=zero_t, include_src=True, skip_labels=('x',))
    early = [n for n in ready if n.id in r]
    ctx.ob(rule, 'MapResult._set:ready-on-success-only-when-none-left', not early, fi, early[0] if early else ready[0],
           'on the success arm _event.set() is reached only through "_number_left == 0"' if not early else
           'the map result becomes ready while parts are still out: get() returns a list with holes')
    rs = cfg.reach(s0, include_src=True, skip_labels=('x',))
    s_ready = [n for n in ready if n.id in rs]
    ctx.ob(rule, 'MapResult._set:ready-reachable-when-none-left', bool(s_ready), fi, ready[0],
           'the last part makes the handle ready')
    rf = cfg.reach(f0, include_src=True, skip_labels=('x',))
    f_ready = [n for n in ready if n.id in rf and n.id not in rs] or [n for n in ready if n.id in rf]
    fl = [dn for (dn, t, v) in q.assigns(fi, 'self._success') if v is not None and isinstance(v, ast.Constant)
          and v.value is False]
    val = [dn for (dn, t, v) in q.assigns(fi, 'self._value') if v is not None and isinstance(v, ast.Name)
           and v.id == r_name]
    ok = bool(f_ready) and bool(fl) and bool(val)
    w = None
    if ok:
        def passes(through):
            # a source that is itself a through-node has passed it
            ids = {t.id for t in through}
            srcs = [b for b in f0 if b not in ids]
            return cfg.must_pass(srcs, f_ready, through, skip_labels=('x',)) if srcs else (True, None)
        ok1, w1 = passes(fl)
        ok2, w2 = passes(val)
        ok, w = ok1 and ok2, (w1 or w2)
    ctx.ob(rule, 'MapResult._set:failure-stored-before-ready', ok, fi, f_ready[0] if f_ready else None,
           '_success = False and _value = <failure record> precede _event.set() on the failure arm', path=w)


def r04_13(ctx, rule='R04.13'):
    ctx.rule(rule, 'worker_pids() of every handle class answers with the owners _ack recorded: it returns the field '
                   '_ack stores the acknowledging pid in (itself, or a list / filter over it), and an empty answer only '
                   'when that field is empty', floor=3)
    m = ctx.model
    for cname in ('ApplyResult', 'MapResult', 'IMapIterator'):
        ack = _find(ctx, 'pool:%s._ack' % cname)
        wp = _find(ctx, 'pool:%s.worker_pids' % cname)
        pid_param = 'pid'
        q.need(pid_param in ack.params, '%s._ack has no pid parameter' % cname)
        fields = set()
        for st in ast.walk(ack.node):
            if isinstance(st, ast.Assign) and isinstance(st.value, ast.Name) and st.value.id == pid_param:
                for t in st.targets:
                    base = t.value if isinstance(t, ast.Subscript) else t
                    if isinstance(base, ast.Attribute) and ast.unparse(base).startswith('self.'):
                        fields.add(ast.unparse(base))
            if isinstance(st, ast.Call) and isinstance(st.func, ast.Attribute) and st.func.attr in ('append', 'add') \
                    and st.args and isinstance(st.args[0], ast.Name) and st.args[0].id == pid_param:
                fields.add(ast.unparse(st.func.value))
        q.need(fields, '%s._ack does not record the acknowledging pid' % cname)
        rets = [st for st in ast.walk(wp.node) if isinstance(st, ast.Return)]
        q.need(rets, '%s.worker_pids has no return' % cname)
        bad = None
        seen_field = False
        for st in rets:
            if st.value is None or (isinstance(st.value, ast.Constant) and st.value.value is None):
                bad = 'returns None'
                break
            alts = []   # (expr, guard-expr or None, polarity)
            v = st.value
            if isinstance(v, ast.IfExp):
                alts = [(v.body, v.test, True), (v.orelse, v.test, False)]
            else:
                alts = [(v, None, None)]
            for (e, g, pol) in alts:
                mentions = any(_mentions(e, f) for f in fields)
                if mentions:
                    seen_field = True
                    if g is not None and any(ast.unparse(g) == f for f in fields) and pol is False:
                        bad = 'answers with the owner field only when it is empty'
                else:
                    empty = isinstance(e, (ast.List, ast.Tuple)) and not e.elts
                    guarded_empty = g is not None and any(ast.unparse(g) == f for f in fields) and pol is False
                    if not guarded_empty:
                        node = wp.cfg.of(st)
                        guarded_empty = bool(node) and any(q.has_guard(wp, node[0], f, False) for f in fields)
                    if not (empty and guarded_empty):
                        bad = 'an answer that does not come from the owner field %s' % sorted(fields)
        if bad is None and not seen_field:
            bad = 'never answers with the owner field %s' % sorted(fields)
        ctx.ob(rule, '%s.worker_pids:answers-with-recorded-owners' % cname, bad is None, wp, None,
               'returns %s' % sorted(fields) if bad is None else
               '%s: a job accepted by a worker that died is not attributed to it and never fails' % bad)


# ---------------------------------------------------------------------------------------------------------------
# round 9 (blind): rules for the changes no check reported

def r05_13(ctx, rule='R05.13'):
    ctx.rule(rule, 'a job past its hard limit is failed whether or not its worker is still listed: in on_hard_timeout '
                   'every path from "not yet ready" to the end passes the `_set` of the TimeLimitExceeded record; only '
                   'the kill depends on finding the process', floor=1)
    fi = _find(ctx, 'pool:TimeoutHandler.on_hard_timeout')
    cfg = fi.cfg
    sets = [n for (n, c) in q.calls(fi, lambda t: t.endswith('._set'))]
    q.need(sets, 'on_hard_timeout never resolves the job')
    pending = q.outcome_edges(fi, lambda t: t.endswith('.ready()'), False)
    q.need(pending, 'on_hard_timeout does not test job.ready()')
    starts = [b for (a, b, l) in pending]
    ids = {s.id for s in sets}
    srcs = [b for b in starts if b not in ids]
    ok, w = cfg.must_pass(srcs, [cfg.exit], sets, skip_labels=('x',)) if srcs else (True, None)
    ctx.ob(rule, 'on_hard_timeout:pending-job-always-failed', ok, fi, sets[0],
           'every normal path of a not-yet-ready job passes job._set(..., (False, <TimeLimitExceeded>))' if ok else
           'a path leaves on_hard_timeout without failing the job (e.g. when the worker is no longer in the pool): a '
           'job whose worker was reaped before its ACK was processed is never resolved by anybody', path=w)


def r05_14(ctx, rule='R05.14'):
    ctx.rule(rule, 'every pass of the time-limit scanner looks at every job: between two yields of handle_timeouts, while '
                   'the thread runs, the loop over the cache copy is entered (no pass is skipped on a remembered '
                   'deadline)', floor=1)
    fi = _find(ctx, 'pool:TimeoutHandler.handle_timeouts')
    cfg = fi.cfg
    fors = [n for n in cfg.nodes if n.id in cfg.live and n.kind == 'for' and isinstance(n.stmt, ast.For)
            and 'cache' in ast.unparse(n.stmt.iter)]
    q.need(fors, 'handle_timeouts: the loop over the cache was not found')
    yields = [n for n in cfg.nodes if n.id in cfg.live and n.kind == 'stmt' and isinstance(n.ast, ast.Expr)
              and isinstance(n.ast.value, (ast.Yield, ast.YieldFrom))]
    q.need(yields, 'handle_timeouts does not yield')
    running = q.outcome_edges(fi, lambda t: '_state' in t and 'RUN' in t, True)
    q.need(running, 'handle_timeouts: outer loop test not found')
    ok, w = cfg.must_pass([b for (a, b, l) in running], yields, fors, skip_labels=('x',))
    ctx.ob(rule, 'handle_timeouts:no-pass-without-the-scan', ok, fi, yields[0],
           'every path from the loop test to a yield enters `for ... in cache.items()`' if ok else
           'a pass can yield without looking at the jobs: a job accepted meanwhile with an earlier deadline is not '
           'noticed until the remembered one', path=w)


def r03_7(ctx, rule='R03.7'):
    ctx.rule(rule, 'a refused job gets no owner on any path: in ApplyResult._ack no path from the entry to a NACK answer '
                   'passes a store of the owner pid or the acceptance time', floor=1)
    fi = _find(ctx, 'pool:ApplyResult._ack')
    cfg = fi.cfg
    nacks = [n for (n, c) in q.calls(fi, 'self._send_ack') if c.args and isinstance(c.args[0], ast.Name)
             and c.args[0].id == 'NACK']
    q.need(nacks, 'ApplyResult._ack never answers NACK')
    owner = [dn for (dn, t, v) in q.assigns(fi, ('self._worker_pid', 'self._time_accepted'))]
    q.need(owner, 'ApplyResult._ack records no owner')
    r = cfg.reach([cfg.entry.id], block_nodes=[o.id for o in owner], include_src=True)
    only_via = [n for n in nacks if n.id not in r]
    ctx.ob(rule, '_ack:refused-job-gets-no-owner-on-any-path', not only_via, fi, only_via[0] if only_via else nacks[0],
           'the NACK answer is reachable without passing an owner store, and never through one' if not only_via else
           'the owner pid / acceptance time are stored before the job is refused: the time-limit scanner and the '
           'lost-worker scan then act on a worker that never ran the job')
    back = cfg.reach([o.id for o in owner], include_src=False)
    after = [n for n in nacks if n.id in back]
    ctx.ob(rule, '_ack:no-refusal-after-the-owner-was-recorded', not after, fi, after[0] if after else nacks[0],
           'no NACK answer is reachable after an owner store')


def r07_16(ctx, rule='R07.16'):
    ctx.rule(rule, 'a new worker is on the pool\'s worker list before it is started: the feeder writes one sentinel per '
                   'listed worker and terminate() signals the listed ones -- a started, unlisted worker is missed by both',
             floor=1)
    fi = _find(ctx, 'pool:Pool._create_worker_process')
    cfg = fi.cfg
    app = q.nodes_calling(fi, 'self._pool.append')
    st = [n for (n, c) in q.calls(fi, lambda t: t.endswith('.start')) ]
    q.need(app and st, '_create_worker_process: append / start not found')
    ok, w = cfg.must_pass([cfg.entry], st, app, completed=True)
    ctx.ob(rule, '_create_worker_process:listed-before-started', ok, fi, st[0],
           'self._pool.append(w) completes before w.start()' if ok else
           'the worker is forked before it is listed: a close() in between counts one sentinel too few and join() '
           'waits for ever on a worker nobody told to stop', path=w)


def r07_17(ctx, rule='R07.17'):
    ctx.rule(rule, 'a worker\'s shutdown event is set only by restart(): nothing else (close, shrink, the supervisor) '
                   'may tell a worker to leave before it has read the task pipe empty', floor=1)
    m = ctx.model
    setters = []
    for qn, fi in m.funcs.items():
        if not qn.startswith('pool:'):
            continue
        for st in ast.walk(fi.node):
            if isinstance(st, ast.Call) and isinstance(st.func, ast.Attribute) and st.func.attr == 'set' and not st.args:
                # receiver drawn from self._poolctrl (directly, via .get/.values/.items, or a local bound to those)
                recv = st.func.value
                src = ast.unparse(recv)
                drawn = '_poolctrl' in src
                if isinstance(recv, ast.Name):
                    for a in ast.walk(fi.node):
                        if isinstance(a, (ast.Assign, ast.For)):
                            tgt = a.targets[0] if isinstance(a, ast.Assign) else a.target
                            val = a.value if isinstance(a, ast.Assign) else a.iter
                            if any(isinstance(x, ast.Name) and x.id == recv.id for x in ast.walk(tgt)) and \
                                    '_poolctrl' in ast.unparse(val):
                                drawn = True
                if drawn:
                    setters.append((qn, fi, st))
    who = sorted({qn.split(':')[1] for (qn, fi, st) in setters})
    ok = who == ['Pool.restart']
    bad = [(qn, fi, st) for (qn, fi, st) in setters if not qn.endswith('Pool.restart')]
    ctx.ob(rule, 'shutdown-event:set-only-by-restart', ok, bad[0][1] if bad else _find(ctx, 'pool:Pool.restart'),
           bad[0][2] if bad else None, 'set by %s' % who)


def _tv(node, env):
    """Three-valued evaluation of a pure boolean expression over a finite environment (names / dotted names ->
    python values); raises KeyError for anything it does not know."""
    if isinstance(node, ast.Constant):
        return node.value
    if isinstance(node, (ast.Name, ast.Attribute)):
        return env[ast.unparse(node)]
    if isinstance(node, ast.UnaryOp) and isinstance(node.op, ast.Not):
        return not _tv(node.operand, env)
    if isinstance(node, ast.BoolOp):
        vals = node.values
        if isinstance(node.op, ast.And):
            r = True
            for v in vals:
                r = _tv(v, env)
                if not r:
                    return r
            return r
        r = False
        for v in vals:
            r = _tv(v, env)
            if r:
                return r
        return r
    if isinstance(node, ast.Compare):
        left = _tv(node.left, env)
        for op, c in zip(node.ops, node.comparators):
            right = _tv(c, env)
            if isinstance(op, ast.Is):
                r = left is right
            elif isinstance(op, ast.IsNot):
                r = left is not right
            elif isinstance(op, ast.Eq):
                r = left == right
            elif isinstance(op, ast.NotEq):
                r = left != right
            elif isinstance(op, ast.In):
                r = left in right
            elif isinstance(op, ast.NotIn):
                r = left not in right
            else:
                raise KeyError(type(op).__name__)
            if not r:
                return False
            left = right
        return True
    if isinstance(node, ast.IfExp):
        return _tv(node.body, env) if _tv(node.test, env) else _tv(node.orelse, env)
    raise KeyError(type(node).__name__)


def r08_17(ctx, rule='R08.17'):
    ctx.rule(rule, 'the worker takes over every termination signal that is not ignored: _should_override_term_signal '
                   'answers True for a forced signal and for any current disposition other than None / SIG_IGN '
                   '(also a handler the initializer installed), False for None and SIG_IGN -- decided as a truth table '
                   'over the four kinds of disposition', floor=1)
    fi = _find(ctx, 'common:_should_override_term_signal')
    rets = [st for st in ast.walk(fi.node) if isinstance(st, ast.Return) and st.value is not None]
    q.need(len(rets) == 1 and len(fi.params) == 2, '_should_override_term_signal: not a single-expression predicate')
    sig, cur = fi.params
    IGN, DFL, HND = object(), object(), object()
    bad = []
    for forced in (True, False):
        for name, val, want in (('None', None, False), ('SIG_IGN', IGN, False), ('SIG_DFL', DFL, True),
                                ('a handler', HND, True)):
            env = {sig: 'S', cur: val, 'signal.SIG_IGN': IGN, 'signal.SIG_DFL': DFL, 'SIG_IGN': IGN, 'SIG_DFL': DFL,
                   'TERMSIGS_FORCE': ('S',) if forced else ()}
            try:
                got = bool(_tv(rets[0].value, env))
            except KeyError as e:
                raise q.AnalysisError('_should_override_term_signal: expression outside the table language (%s)' % e)
            if got != (want or forced):
                bad.append('%s%s -> %s' % (name, ' (forced signal)' if forced else '', got))
    ctx.ob(rule, '_should_override_term_signal:truth-table', not bad, fi, rets[0],
           'None/SIG_IGN -> leave alone unless forced; SIG_DFL or any handler -> take over' if not bad else
           'wrong answers: %s: a worker whose initializer installed its own handler no longer turns the termination '
           'signal into SystemExit (terminate_job / hard limits have no effect on it)' % '; '.join(bad))


def r11_7(ctx, rule='R11.7'):
    ctx.rule(rule, 'the restart window expires by the clock alone: in restart_state.step the reset of the count on an '
                   'expired window is not guarded by the budget test (an expired window must not hand its count on to '
                   'the next one)', floor=1)
    fi = _find(ctx, 'common:restart_state.step')
    cfg = fi.cfg
    expiry = lambda t: 'self.maxT' in t and 'self.T' in t
    resets = [dn for (dn, t, v) in q.assigns(fi, 'self.T')
              if any(expiry(t) for (t, p) in q.guards_norm(fi, dn))]
    q.need(resets, 'restart_state.step: the window reset (self.T = now under `now - self.T >= self.maxT`) not found')
    budget = lambda t: 'self.maxR' in t and 'self.R' in t and 'maxT' not in t
    bad = [dn for dn in resets if any(budget(t) for (t, p) in q.guards_norm(fi, dn))]
    ctx.ob(rule, 'step:window-expiry-independent-of-the-budget', not bad, fi, resets[0],
           'the window reset is reached whatever the count is' if not bad else
           'the expiry of the window is only looked at under the budget test: a partly used window that ran out keeps '
           'its count and its start, the late reset then grants a fresh budget inside the new window')
    # and it is looked at on every call: the expiry test is not skippable from the entry
    tests = {a for (a, b, l) in q.outcome_edges(fi, lambda t: 'self.maxT' in t and 'now' in t, True) |
             q.outcome_edges(fi, lambda t: 'self.maxT' in t and 'now' in t, False)}
    q.need(tests, 'restart_state.step: expiry test not found')
    guards_of_test = []
    for tid in tests:
        n = cfg.nodes[tid]
        if any(budget(t) for (t, p) in q.guards_norm(fi, n)):
            guards_of_test.append(n)
    ctx.ob(rule, 'step:expiry-test-not-behind-the-budget-test', not guards_of_test, fi,
           guards_of_test[0] if guards_of_test else None, 'the expiry comparison is evaluated independently of R >= maxR')


def r14_9(ctx, rule='R14.9'):
    ctx.rule(rule, 'the block recorded for a new arena is exactly the arena: every Arena(n) that can reach the '
                   '`return (arena, 0, L)` of Heap._malloc is built with n = L', floor=1)
    fi = _find(ctx, 'heap:Heap._malloc')
    cfg = fi.cfg
    mk = [(n, c) for (n, c) in q.calls(fi, 'Arena')]
    q.need(mk, 'Heap._malloc builds no Arena')
    rets = [n for n in cfg.nodes if n.id in cfg.live and isinstance(n.ast, ast.Return) and n.ast.value is not None
            and isinstance(n.ast.value, ast.Tuple) and len(n.ast.value.elts) == 3
            and ast.unparse(n.ast.value.elts[1]) == '0']
    q.need(rets, 'Heap._malloc: `return (arena, 0, length)` not found')
    bad = []
    for (n, c) in mk:
        r = cfg.reach([n.id], include_src=False, skip_labels=('x',))
        for rt in rets:
            if rt.id in r:
                L = ast.unparse(rt.ast.value.elts[2])
                if not c.args or ast.unparse(c.args[0]) != L:
                    bad.append((n, 'Arena(%s) reaches `return (..., 0, %s)`' % (ast.unparse(c.args[0]) if c.args else '', L)))
    ctx.ob(rule, '_malloc:new-arena-block-has-the-arena-size', not bad, fi, bad[0][0] if bad else mk[0][0],
           'Arena(length) ... return (arena, 0, length)' if not bad else
           bad[0][1] + ': the free-list entry claims bytes the mapping does not have; later blocks lie outside the arena')


def r16_14(ctx, rule='R16.14'):
    ctx.rule(rule, 'a put that took a place uses it: in Queue.put / JoinableQueue.put nothing can refuse the item '
                   '(assert / raise) between the successful acquire of the capacity semaphore and the append to the '
                   'buffer -- a refusal there leaks one unit of capacity for every process', floor=2)
    for cname in ('Queue', 'JoinableQueue'):
        fi = _find(ctx, 'queues:%s.put' % cname)
        cfg = fi.cfg
        if cname != 'Queue' and q.nodes_calling(fi, lambda t: t in ('Queue.put', 'super().put', 'super(JoinableQueue, self).put')):
            ctx.ob(rule, '%s.put:no-refusal-between-acquire-and-append' % cname, True, fi, None,
                   'delegates to Queue.put, which is examined')
            continue
        got = q.outcome_edges(fi, lambda t: t.startswith('self._sem.acquire('), True)
        q.need(got, '%s.put does not test self._sem.acquire()' % cname)
        app = q.nodes_calling(fi, 'self._buffer.append')
        q.need(app, '%s.put does not append to the buffer' % cname)
        r = cfg.reach([b for (a, b, l) in got], block_nodes=[a.id for a in app], include_src=True, skip_labels=('x',))
        refusals = [n for n in cfg.nodes if n.id in r and n.id in cfg.live and
                    isinstance(n.ast, (ast.Assert, ast.Raise))]
        rel = q.nodes_calling(fi, 'self._sem.release')
        ok = not refusals or bool(rel)
        ctx.ob(rule, '%s.put:no-refusal-between-acquire-and-append' % cname, ok, fi, refusals[0] if refusals else app[0],
               'the handle-closed check precedes the acquire' if ok else
               'an assert/raise sits between taking the place and using it: a put on a closed handle consumes capacity '
               'without enqueuing anything')


def r16_15(ctx, rule='R16.15'):
    ctx.rule(rule, 'the locked SimpleQueue locks all pipe traffic: its base class touches the pipe (recv* / send*) only '
                   'inside the hooks the locked subclass overrides, so get()/put() cannot bypass the reader / writer '
                   'locks', floor=2)
    m = ctx.model
    base = m.classes.get('queues:_SimpleQueue')
    sub = m.classes.get('queues:SimpleQueue')
    q.need(base is not None and sub is not None, 'queues: _SimpleQueue / SimpleQueue not found')
    overridden = set(sub.methods)
    io_methods = {}
    for name, fi in base.methods.items():
        for st in ast.walk(fi.node):
            if isinstance(st, ast.Call) and isinstance(st.func, ast.Attribute) and \
                    ast.unparse(st.func.value) in ('self._reader', 'self._writer') and \
                    (st.func.attr.startswith('recv') or st.func.attr.startswith('send')):
                io_methods.setdefault(name, st)
    q.need(io_methods, '_SimpleQueue never touches its pipe')
    for name, st in sorted(io_methods.items()):
        fi = base.methods[name]
        ok = name in overridden
        ctx.ob(rule, '_SimpleQueue.%s:pipe-io-only-in-overridden-hooks' % name, ok, fi, st,
               'overridden in SimpleQueue (with the lock)' if ok else
               '%s() does pipe I/O itself and SimpleQueue inherits it unchanged: concurrent producers / consumers '
               'interleave their messages' % name)


def r19_13(ctx, rule='R19.13'):
    ctx.rule(rule, 'waiting is bounded by the caller\'s timeout on the monotonic clock: connection.wait() never hands a '
                   'non-positive timeout to the poll primitive as "block" (a `timeout <= 0` outcome polls once with 0), '
                   'and no deadline in the package is taken from the adjustable wall clock (time.time)', floor=2)
    m = ctx.model
    cands = [fi for qn, fi in m.funcs.items() if qn.startswith('connection:') and qn.split(':')[1] == 'wait']
    q.need(cands, 'connection.wait not found')
    for fi in cands:
        if '_poll' not in ast.unparse(fi.node):
            continue
        cfg = fi.cfg
        P = fi.positional_params()[1]
        polls = [(n, c) for (n, c) in q.calls(fi, '_poll') if len(c.args) > 1 and isinstance(c.args[1], ast.Name)
                 and c.args[1].id == P]
        q.need(polls, 'connection.wait: _poll(object_list, timeout) not found')
        nonpos = q.outcome_edges(fi, lambda t: t.replace(' ', '') in ('%s<=0' % P, '0>=%s' % P, '%s<0' % P, '0>%s' % P), True) | \
            q.outcome_edges(fi, lambda t: t.replace(' ', '') in ('0<%s' % P, '%s>0' % P, '0<=%s' % P, '%s>=0' % P), False)
        ok = bool(nonpos)
        if ok:
            # on the non-positive outcome the raw timeout is not used as the poll argument
            r = cfg.reach([b for (a, b, l) in nonpos], include_src=True, skip_labels=('x',))
            ok = not any(n.id in r for (n, c) in polls)
        ctx.ob(rule, 'connection.wait:expired-timeout-polls-once', ok, fi, polls[0][0],
               'timeout <= 0 -> _poll(object_list, 0)' if ok else
               'a negative timeout reaches the poll primitive, where it means "for ever": join(deadline - now) after '
               'the deadline blocks until the child exits')
    # zero-instance part: no wall-clock reads; the matcher is exercised on a positive example every run
    def wall_clock_calls(tree):
        out = []
        for x in ast.walk(tree):
            if isinstance(x, ast.Call) and ast.unparse(x.func) in ('time.time', '_time.time', 'time', '_time') and \
                    not x.args and ast.unparse(x.func) in ('time.time', '_time.time'):
                out.append(x)
            if isinstance(x, ast.ImportFrom) and x.module == 'time' and any(a.name == 'time' for a in x.names):
                out.append(x)
        return out
    assert wall_clock_calls(ast.parse('import time\ndeadline = time.time() + 3')), 'R19.13 matcher broken'
    hits = []
    for name, mod in m.modules.items():
        if name in ('pool', 'process', 'popen_fork', 'popen_forkserver', 'popen_spawn_posix', 'connection', 'queues',
                    'synchronize', 'managers', 'common', 'forkserver', 'util'):
            for x in wall_clock_calls(mod.tree):
                hits.append((mod, x))
    fi0 = cands[0]
    ctx.ob(rule, 'package:no-deadline-from-the-wall-clock', not hits, fi0, None,
           'no time.time() in the waiting code (12 modules searched)' if not hits else
           '%s line %d reads the wall clock: a clock step during a timed wait makes it overrun (or return early)'
           % (hits[0][0].relpath, hits[0][1].lineno))


def r20_19(ctx, rule='R20.19'):
    ctx.rule(rule, 'a forked child drops the finalizers it inherited before the after-fork hooks run: the hooks of '
                   'inherited proxies register the decref finalizers of the child, which a later clear() would wipe',
             floor=1)
    fi = _find(ctx, 'process:BaseProcess._bootstrap')
    cfg = fi.cfg
    clr = q.nodes_calling(fi, lambda t: t.endswith('_finalizer_registry.clear'))
    hooks = q.nodes_calling(fi, lambda t: t.endswith('_run_after_forkers'))
    q.need(clr and hooks, '_bootstrap: registry clear / after-fork hooks not found')
    after = cfg.reach([h.id for h in hooks], include_src=False)
    late = [c for c in clr if c.id in after]
    ok1, w = cfg.must_pass([cfg.entry], hooks, clr, skip_labels=())
    ctx.ob(rule, '_bootstrap:inherited-finalizers-dropped-before-the-hooks', ok1 and not late, fi,
           late[0] if late else hooks[0],
           '_finalizer_registry.clear() precedes _run_after_forkers(), and is not repeated after it' if ok1 and not late
           else 'the registry is cleared after the after-fork hooks: the reference a forked child\'s proxy takes is '
                'never given back, the referent lives for ever', path=w)


def r20_20(ctx, rule='R20.20'):
    ctx.rule(rule, 'every manager class owns its registry: register() copies the inherited table when the class itself '
                   'has none (a test on the class\'s own namespace), so a subclass at any depth never writes into its '
                   'parent\'s table', floor=1)
    fi = _find(ctx, 'managers:BaseManager.register')
    cfg = fi.cfg
    copies = [dn for (dn, t, v) in q.assigns(fi, 'cls._registry') if v is not None and 'copy' in ast.unparse(v)]
    q.need(copies, 'BaseManager.register never un-shares the registry')
    own = lambda t: ('__dict__' in t or 'vars(cls)' in t) and '_registry' in t
    ok = all(q.has_guard(fi, c, own, True) or q.has_guard(fi, c, own, False) for c in copies)
    ctx.ob(rule, 'register:copy-on-first-register-tests-the-class-itself', ok, fi, copies[0],
           "guard: '_registry' not in cls.__dict__" if ok else
           'the un-sharing test is not about the class\'s own namespace: a grandchild class registers into the table of '
           'its parent (SyncManager), whose managers then build the wrong objects')
    writes = [n for n in cfg.nodes if n.id in cfg.live and isinstance(n.ast, ast.Assign) and
              any(isinstance(t, ast.Subscript) and ast.unparse(t.value) == 'cls._registry' for t in n.ast.targets)]
    q.need(writes, 'BaseManager.register does not write the registry')
    ok, w = True, None
    tests = {a for (a, b, l) in q.outcome_edges(fi, own, True) | q.outcome_edges(fi, own, False)}
    ok = bool(tests) and all(cfg.must_pass([cfg.entry], [wn], [cfg.nodes[t] for t in tests])[0] for wn in writes)
    ctx.ob(rule, 'register:table-written-only-after-the-ownership-test', ok, fi, writes[0],
           'cls._registry[typeid] = ... is dominated by the ownership test')


def r08_19(ctx, rule='R08.19'):
    ctx.rule(rule, 'worker code never ignores a termination signal: no signal.signal(<TERM_SIGNAL / SIGTERM / SIGQUIT / '
                   'SIGUSR1>, SIG_IGN) in billiard.pool or billiard.common (only SIGINT is ignored, in after_fork) -- an '
                   'exiting worker stuck in its exit callback must stay killable by terminate()', floor=1)
    m = ctx.model
    seen = 0
    bad = []
    TERMS = ('TERM_SIGNAL', 'signal.SIGTERM', 'SIGTERM', 'signal.SIGQUIT', 'SIGQUIT', 'signal.SIGUSR1',
             'SIG_SOFT_TIMEOUT', 'signal.SIGHUP', 'SIGHUP')
    for qn, fi in m.funcs.items():
        if not (qn.startswith('pool:') or qn.startswith('common:')):
            continue
        for st in ast.walk(fi.node):
            if isinstance(st, ast.Call) and ast.unparse(st.func) in ('signal.signal', '_signal.signal') and len(st.args) == 2:
                seen += 1
                if ast.unparse(st.args[1]).endswith('SIG_IGN') and ast.unparse(st.args[0]) in TERMS:
                    bad.append((fi, st))
    q.need(seen, 'no signal.signal call found in pool.py / common.py')
    ctx.ob(rule, 'worker:termination-signal-never-ignored', not bad, bad[0][0] if bad else _find(ctx, 'pool:Worker.after_fork'),
           bad[0][1] if bad else None,
           '%d signal.signal calls examined; only SIGINT is set to SIG_IGN' % seen if not bad else
           '%s ignores %s: from there on terminate() / terminate_job / a hard limit cannot stop this worker' %
           (bad[0][0].qual, ast.unparse(bad[0][1].args[0])))


# ---------------------------------------------------------------------------------------------------------------
# second look at the sweep's survivors (handshake wiring, lazy start of the scanner, shrink count, NACK)

def r03_8(ctx, rule='R03.8'):
    ctx.rule(rule, 'a refused job sends the worker back to waiting, and the handshake is wired for handshake pools: after a '
                   'NACK the worker reaches wait_for_job() again without leaving the loop; every handle the pool creates '
                   'gets `self.send_ack` exactly when `self.synack` is set', floor=2)
    from .poolfacts import WorkloopAnchors
    A = WorkloopAnchors(ctx)
    fi, cfg = A.fi, A.fi.cfg
    takes = q.nodes_calling(fi, 'self.wait_for_job')
    q.need(takes, 'Worker.workloop does not call wait_for_job')
    confirms = [st.targets[0].id for st in ast.walk(fi.node) if isinstance(st, ast.Assign)
                and isinstance(st.targets[0], ast.Name) and isinstance(st.value, ast.Call)
                and ast.unparse(st.value.func) == 'wait_for_syn']
    refused = q.outcome_edges(fi, lambda t: t.startswith('wait_for_syn(') or t in confirms, False)
    q.need(refused, 'Worker.workloop does not test the answer of the handshake')
    # the loop condition may end the loop (quota reached): what is asked is that nothing but the loop test lies between
    # the refusal and the next job
    loop_tests = [n.id for n in cfg.nodes if n.id in cfg.live and n.kind == 'test' and isinstance(n.stmt, ast.While)]
    r = cfg.reach([b for (a, b, l) in refused], block_nodes=[t.id for t in takes] + loop_tests, include_src=True,
                  skip_labels=('x',))
    leaves = cfg.exit.id in r or not any(b in loop_tests or b in {t.id for t in takes} or
                                         (set(loop_tests) | {t.id for t in takes}) & cfg.reach([b], include_src=True, skip_labels=('x',))
                                         for (a, b, l) in refused)
    ctx.ob(rule, 'workloop:refused-job-goes-back-to-waiting', not leaves, fi, None,
           'after a NACK every normal path reaches the next wait_for_job()' if not leaves else
           'after a NACK the worker can leave the job loop: one cancelled job costs a worker',
           path=None if not leaves else cfg.path([b for (a, b, l) in refused], [cfg.exit.id],
                                                 block_nodes=[t.id for t in takes], skip_labels=('x',)))
    m = ctx.model
    n_sites = 0
    bad = None
    for qn, pf in m.funcs.items():
        if not qn.startswith('pool:Pool.'):
            continue
        for c in [x for x in ast.walk(pf.node) if isinstance(x, ast.Call)]:
            kws = [k.value for k in c.keywords if k.arg == 'send_ack']
            if not kws and ast.unparse(c.func) in ('ApplyResult', 'MapResult', 'IMapIterator', 'IMapUnorderedIterator'):
                init = m.funcs.get('pool:%s.__init__' % ast.unparse(c.func))
                if init is not None and 'send_ack' in init.params:
                    k_ = init.params.index('send_ack') - 1
                    if k_ < len(c.args):
                        kws = [c.args[k_]]
            if not kws:
                continue
            n_sites += 1
            v = kws[0]
            ok = isinstance(v, ast.IfExp) and ast.unparse(v.test) == 'self.synack' and \
                ast.unparse(v.body) == 'self.send_ack' and isinstance(v.orelse, ast.Constant) and v.orelse.value is None
            ok = ok or (isinstance(v, ast.BoolOp) and isinstance(v.op, ast.And) and
                        [ast.unparse(x) for x in v.values] == ['self.synack', 'self.send_ack'])
            if not ok and bad is None:
                bad = (pf, c)
    q.need(n_sites, 'no handle is created with a send_ack argument')
    ctx.ob(rule, 'pool:send_ack-wired-exactly-for-handshake-pools', bad is None, bad[0] if bad else fi,
           bad[1] if bad else None, '%d sites: send_ack=self.send_ack if self.synack else None' % n_sites)


def r05_15(ctx, rule='R05.15'):
    ctx.rule(rule, 'a job with a time limit of its own starts the (lazily started) scanner: in apply_async every path '
                   'from "timeout or soft_timeout" to the submission of the task passes _start_timeout_handler()',
             floor=1)
    fi = _find(ctx, 'pool:Pool.apply_async')
    cfg = fi.cfg
    starts = q.nodes_calling(fi, 'self._start_timeout_handler')
    if not starts:
        ctx.ob(rule, 'apply_async:own-limit-starts-the-scanner', False, fi, None,
               'apply_async never starts the time-limit scanner: on a pool created with enable_timeouts=True and no '
               'pool-level limit nobody ever enforces a job\'s own limit')
        return
    sends = q.nodes_calling(fi, 'self._taskqueue.put') + q.nodes_calling(fi, 'self._quick_put')
    q.need(sends, 'apply_async does not submit the task')
    limited = q.outcome_edges(fi, 'timeout', True) | q.outcome_edges(fi, 'soft_timeout', True)
    # only the tests that follow the construction of the handle (the earlier `soft_timeout and SIG_SOFT_TIMEOUT is None`
    # test is about platforms without the signal)
    made = [n for (n, c) in q.calls(fi, 'ApplyResult')]
    q.need(made, 'apply_async creates no ApplyResult')
    after = cfg.reach([x.id for x in made], include_src=False, skip_labels=('x',))
    limited = {(a, b, l) for (a, b, l) in limited if a in after}
    q.need(limited, 'apply_async does not test the job\'s own limits after creating the handle')
    tests_ = {a_ for (a_, b_, l_) in limited}
    start_ids = {x.id for x in starts}
    srcs = [b for (a, b, l) in limited if b not in tests_ and b not in start_ids]
    ok, w = cfg.must_pass(srcs, sends, starts, skip_labels=('x',)) if srcs else (True, None)
    ctx.ob(rule, 'apply_async:own-limit-starts-the-scanner', ok, fi, starts[0],
           'with a limit of its own the job is submitted only after _start_timeout_handler()' if ok else
           'a job with its own time limit can be submitted without the scanner having been started: on a pool created '
           'with enable_timeouts=True and no pool-level limit nobody ever enforces it', path=w)


def r09_14(ctx, rule='R09.14'):
    ctx.rule(rule, 'shrink(n) ends exactly n workers: the loop over the inactive workers is left when the enumerate index '
                   'reaches n - 1 (normal form `i < n - 1` false), not one pass later', floor=1)
    fi = _find(ctx, 'pool:Pool.shrink')
    cfg = fi.cfg
    P = fi.positional_params()[1]
    fors = [st for st in ast.walk(fi.node) if isinstance(st, ast.For) and isinstance(st.iter, ast.Call)
            and ast.unparse(st.iter.func) == 'enumerate' and isinstance(st.target, ast.Tuple)]
    q.need(fors, 'Pool.shrink: no enumerate loop over the inactive workers')
    iv = fors[0].target.elts[0].id
    start = ast.unparse(fors[0].iter.args[1]) if len(fors[0].iter.args) > 1 else '0'
    brk = [n for n in cfg.nodes if n.id in cfg.live and isinstance(n.ast, ast.Break) and q.inside(fi, n, fors[0].body)]
    q.need(brk, 'Pool.shrink never leaves its loop early')
    want = {('0', ('%s < (%s - 1)' % (iv, P), False)), ('0', ('%s == (%s - 1)' % (iv, P), True)),
            ('0', ('(%s - 1) == %s' % (P, iv), True)), ('0', ('(%s + 1) < %s' % (iv, P), False)),
            ('1', ('%s < %s' % (iv, P), False)), ('1', ('%s == %s' % (iv, P), True)), ('1', ('%s == %s' % (P, iv), True))}
    ok = all(any((start, g) in want for g in q.guards_norm(fi, b)) for b in brk)
    ctx.ob(rule, 'shrink:loop-left-after-n-workers', ok, fi, brk[0],
           'break under %s' % sorted(t for b in brk for (t, p) in q.guards_norm(fi, b)) if not ok else
           'break exactly when %d-based index %s reached %s' % (int(start), iv, P))


def r14_10(ctx, rule='R14.10'):
    ctx.rule(rule, 'a free block that is merged away leaves all three free indexes: Heap._absorb removes it from the '
                   'start index, the stop index and from its length bucket on every path (a block left in its bucket is '
                   'handed out again although its bytes now belong to the merged block)', floor=3)
    fi = _find(ctx, 'heap:Heap._absorb')
    cfg = fi.cfg
    B = fi.positional_params()[1]
    dels = {}
    for n in cfg.nodes:
        if n.id in cfg.live and isinstance(n.ast, ast.Delete):
            for t in n.ast.targets:
                if isinstance(t, ast.Subscript):
                    dels.setdefault(ast.unparse(t.value), []).append(n)
    for idx in ('self._start_to_block', 'self._stop_to_block'):
        ns = dels.get(idx, [])
        ok = bool(ns) and cfg.must_pass([cfg.entry], [cfg.exit], ns, skip_labels=('x',))[0]
        ctx.ob(rule, '_absorb:leaves-%s' % idx.split('.')[1], ok, fi, ns[0] if ns else None,
               'del %s[...] on every path' % idx)
    buckets = {ast.unparse(t) for (dn, t, v) in q.assigns(fi, None)
               if v is not None and isinstance(t, ast.Name) and 'self._len_to_seq[' in ast.unparse(v)}
    rem = [n for (n, c) in q.calls(fi, lambda t: t.endswith('.remove'))
           if (ast.unparse(c.func.value) in buckets or 'self._len_to_seq[' in ast.unparse(c.func.value))
           and c.args and ast.unparse(c.args[0]) == B]
    ok = bool(rem) and cfg.must_pass([cfg.entry], [cfg.exit], rem, skip_labels=('x',))[0]
    ctx.ob(rule, '_absorb:leaves-its-length-bucket', ok, fi, rem[0] if rem else None,
           '<bucket of its length>.remove(block) on every path')


def r16_16(ctx, rule='R16.16'):
    ctx.rule(rule, 'an item put on a Queue is on its way: put() wakes the feeder after the append on every path and starts '
                   'it when there is none; the feeder hands every item it takes from the buffer (other than the '
                   'sentinel) to send_bytes before it takes the next', floor=5)
    for cname in ('Queue', 'JoinableQueue'):
        fi = _find(ctx, 'queues:%s.put' % cname)
        cfg = fi.cfg
        if cname != 'Queue' and q.nodes_calling(fi, lambda t: t in ('Queue.put', 'super().put', 'super(JoinableQueue, self).put')):
            ctx.ob(rule, '%s.put:feeder-woken-after-the-append' % cname, True, fi, None, 'delegates to Queue.put')
            ctx.ob(rule, '%s.put:feeder-started-when-there-is-none' % cname, True, fi, None, 'delegates to Queue.put')
            continue
        app = q.nodes_calling(fi, 'self._buffer.append')
        q.need(app, '%s.put does not append to the buffer' % cname)
        nt = q.nodes_calling(fi, 'self._notempty.notify')
        ok = bool(nt) and cfg.must_pass([a.id for a in app], [cfg.exit], nt, skip_labels=('x',))[0]
        ctx.ob(rule, '%s.put:feeder-woken-after-the-append' % cname, ok, fi, nt[0] if nt else app[0],
               'self._notempty.notify() on every normal path after self._buffer.append(obj)')
        st = q.nodes_calling(fi, 'self._start_thread')
        none = q.outcome_edges(fi, 'self._thread is None', True)
        ok = bool(st) and bool(none) and cfg.must_pass([b for (a, b, l) in none if b not in {s.id for s in st}],
                                                         [a.id for a in app], st, skip_labels=('x',))[0]
        ctx.ob(rule, '%s.put:feeder-started-when-there-is-none' % cname, ok, fi, st[0] if st else None,
               'under `self._thread is None` the append is reached only through self._start_thread()')
    fi = _find(ctx, 'queues:Queue._feed')
    cfg = fi.cfg
    pop_names = {ast.unparse(t) for (dn, t, v) in q.assigns(fi, None) if v is not None and isinstance(t, ast.Name)
                 and ast.unparse(v).endswith('.popleft')}
    takes = [n for (n, c) in q.calls(fi, lambda t: t in pop_names or t.endswith('.popleft'))]
    q.need(takes, 'Queue._feed takes nothing from the buffer')
    send = fi.positional_params()[2]
    sends = q.nodes_calling(fi, send)
    q.need(sends, 'Queue._feed never calls its send_bytes parameter')
    is_sent = q.outcome_edges(fi, lambda t: ' is ' in t and 'sentinel' in t.lower(), True)
    r = cfg.reach([t.id for t in takes], block_nodes=[s.id for s in sends], block_edges=is_sent, include_src=False,
                  skip_labels=('x',))
    again = [t for t in takes if t.id in r]
    ctx.ob(rule, '_feed:every-item-taken-is-sent', not again and cfg.exit.id not in r, fi, again[0] if again else sends[0],
           'between two takes (or a take and the end) lies a completed send_bytes, unless the item was the sentinel'
           if not again and cfg.exit.id not in r else 'an item can be taken from the buffer and dropped without being written to the pipe')
