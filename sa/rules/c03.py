"""C03 — worker job protocol: accept before run, one result per job, NACK honoured."""
import ast

from ..model import walk_own, dotted
from ..cfg import INF
from .. import q
from .poolfacts import facts, WorkloopAnchors, CLOCKS, _msg_tuple


def _is_getpid_value(fi, expr):
    """expr evaluates to this process' pid: os.getpid(), `x or os.getpid()`."""
    if isinstance(expr, ast.Call) and fi.callee(expr) == 'os.getpid' and not expr.args:
        return True
    if isinstance(expr, ast.BoolOp) and isinstance(expr.op, ast.Or):
        return _is_getpid_value(fi, expr.values[-1])
    return False


def r03_1(ctx, A):
    ctx.rule('R03.1', 'the ACK put (job, part, clock(), own pid) is completed on every path '
                      'from the TASK unpack to the task call', floor=4)
    fi, cfg = A.fi, A.fi.cfg
    ack_nodes = [n for (n, c, p) in A.puts['ACK']]
    for tn in A.task_nodes:
        ok, w = cfg.must_pass([A.unpack], [tn], ack_nodes, completed=True)
        ctx.ob('R03.1', 'workloop:ack-dominates-task-call', ok, fi, tn,
               'every path unpack -> task call completes put((ACK, ...))' if ok else
               'a path reaches the task call without a completed ACK put', path=w)
    for (n, c, p) in A.puts['ACK']:
        ok = len(p) >= 4 and isinstance(p[0], ast.Name) and p[0].id == A.job and \
            isinstance(p[1], ast.Name) and p[1].id == A.part
        ctx.ob('R03.1', 'workloop:ack-carries-job-and-part', ok, fi, c,
               'payload[0:2] = (%s)' % ', '.join(ast.unparse(x) for x in p[:2]))
        ok = len(p) >= 3 and isinstance(p[2], ast.Call) and not p[2].args and \
            fi.callee(p[2]) in CLOCKS
        ctx.ob('R03.1', 'workloop:ack-time-is-clock-read', ok, fi, c,
               'payload[2] = %s -> %s' % (ast.unparse(p[2]) if len(p) > 2 else '?',
                                          fi.callee(p[2]) if len(p) > 2 and isinstance(p[2], ast.Call) else '?'))
        # pid: a name all of whose definitions are own-pid values
        ok = False
        detail = ''
        if len(p) >= 4:
            e = p[3]
            if _is_getpid_value(fi, e):
                ok = True
                detail = 'payload[3] is os.getpid()'
            elif isinstance(e, ast.Name):
                defs = [(dn, v) for (dn, t, v) in q.assigns(fi, lambda t: t == e.id)]
                isparam = e.id in fi.params
                good = [dn for dn, v in defs if v is not None and _is_getpid_value(fi, v)]
                bad = [dn for dn, v in defs if v is None or not _is_getpid_value(fi, v)]
                if good and not bad:
                    # one of the good definitions dominates the put
                    okd, _ = cfg.dominated_by(n, good)
                    ok = okd
                    detail = '%s defined by %s before the put' % (
                        e.id, ' / '.join(ast.unparse(v) for dn, v in defs))
                elif isparam and not defs:
                    detail = 'pid is a bare parameter'
                else:
                    detail = 'other definitions of %s: %s' % (e.id, [ast.unparse(dn.ast) for dn in bad])
                if ok and isparam:
                    # callers inside the package must pass their own pid
                    call = ctx.model.func('pool:Worker.__call__')
                    for (cn, cc) in q.calls(call, 'self.workloop'):
                        for kw in cc.keywords:
                            if kw.arg == e.id:
                                v = kw.value
                                src = v
                                if isinstance(v, ast.Name):
                                    ds = [vv for (dn, t, vv) in q.assigns(call, lambda t, nm=v.id: t == nm)]
                                    if len(ds) == 1 and ds[0] is not None:
                                        src = ds[0]
                                if not _is_getpid_value(call, src):
                                    ok = False
                                    detail = 'Worker.__call__ passes %s=%s which is not os.getpid()' % (
                                        kw.arg, ast.unparse(src))
        ctx.ob('R03.1', 'workloop:ack-pid-is-own-pid', ok, fi, c, detail)


def r03_2(ctx, A):
    ctx.rule('R03.2', 'exactly one completed READY put for the same (job, part) on every path '
                      'from the task call to the next loop iteration / normal exit', floor=3)
    fi, cfg = A.fi, A.fi.cfg
    ready = A.puts['READY']
    ready_ids = {n.id for (n, c, p) in ready}
    for tn in A.task_nodes:
        r = cfg.count_range([tn], [A.loop, cfg.exit], lambda n: n.id in ready_ids, completed=True)
        ok = r == (1, 1)
        ctx.ob('R03.2', 'workloop:one-ready-per-executed-job', ok, fi, tn,
               'completed READY puts on paths task call -> loop head/return: min,max = %r' % (r,))
    for (n, c, p) in ready:
        ok = len(p) >= 3 and isinstance(p[0], ast.Name) and p[0].id == A.job and \
            isinstance(p[1], ast.Name) and p[1].id == A.part
        ctx.ob('R03.2', 'workloop:ready-carries-job-and-part@%s' % _which(fi, c), ok, fi, c,
               'payload[0:2] = (%s)' % ', '.join(ast.unparse(x) for x in p[:2]))
    # a READY put inside an exception handler (fallback) must carry success flag False
    for (n, c, p) in ready:
        inh = [h for (tr, part, h) in q.enclosing_trys(fi, c) if part == 'handler']
        if inh:
            flag = p[2] if len(p) > 2 else None
            ok = isinstance(flag, ast.Tuple) and len(flag.elts) == 2 and \
                isinstance(flag.elts[0], ast.Constant) and flag.elts[0].value is False
            ctx.ob('R03.2', 'workloop:fallback-ready-is-failure', ok, fi, c,
                   'fallback result = %s' % (ast.unparse(flag) if flag is not None else '?'))


def r03_2b(ctx, A):
    """A task's own exception (any BaseException, incl. its own SystemExit) becomes a
    result: unless the termination handler requested exit, the handler around the
    task call never re-raises."""
    fi, cfg = A.fi, A.fi.cfg
    exit_requested = q.outcome_edges(fi, '_should_have_exited[0]', True)
    n = 0
    for tc in A.task_calls:
        for (tr, part, h0) in q.enclosing_trys(fi, tc):
            if part != 'body':
                continue
            catch_all = [h for h in tr.handlers if q.handler_catches(h, ['SystemExit'])]
            ctx.ob('R03.2', 'workloop:task-exceptions-all-caught', bool(catch_all), fi, tr,
                   'the try around the task call catches every exception of the task (BaseException)')
            for h in tr.handlers:
                n += 1
                hn = [x for x in cfg.of(h) if x.kind == 'except']
                body_ids = {x.id for x in cfg.nodes if x.id in cfg.live and q.inside(fi, x, h.body)}
                r = set()
                for s in hn:
                    r |= cfg.reach([s.id], block_edges=exit_requested, skip_labels=('x',))
                raises = [cfg.nodes[i] for i in r if i in body_ids and isinstance(cfg.nodes[i].ast, ast.Raise)]
                ctx.ob('R03.2', 'workloop:task-exception-becomes-result@except-%s' % (
                    ast.unparse(h.type) if h.type else 'bare'), not raises, fi, raises[0] if raises else h,
                    'without an exit request the handler never re-raises: the job still gets its one READY'
                    if not raises else 'a task raising this exception gets no result message (re-raised at `%s`)'
                    % raises[0].text())
                # ... and with an exit request only the handler's own SystemExit is let through: what a task's clean-up
                # code (except SystemExit / finally) turned it into is the task's outcome and still gets its READY
                allr = [x for x in cfg.nodes if x.id in cfg.live and x.id in body_ids and isinstance(x.ast, ast.Raise)]
                wide = [x for x in allr if not q.has_guard(fi, x, lambda t: t.startswith('isinstance(') and
                                                           'SystemExit' in t, True)]
                if h.type is not None and ast.unparse(h.type) in ('SystemExit', '(SystemExit,)'):
                    wide = []      # the handler's type is the isinstance test
                ctx.ob('R03.2', 'workloop:only-the-termination-SystemExit-is-re-raised@except-%s' % (
                    ast.unparse(h.type) if h.type else 'bare'), not wide, fi, wide[0] if wide else h,
                    'every re-raise in the handler is under isinstance(exc, SystemExit)' if not wide else
                    'once the termination flag is set any exception of the task is re-raised out of the loop: the job '
                    'gets no result message and is reported as a lost worker instead of with its own error')
            # everything that computes the result sits inside that try: the prepare_result hook too
            hooks = [c for (n_, c) in q.calls(fi, 'self.prepare_result')]
            for c in hooks:
                inside_body = any(x is c for st in tr.body for x in ast.walk(st))
                ctx.ob('R03.2', 'workloop:prepare_result-inside-the-task-try', inside_body, fi, c,
                       'prepare_result(...) runs inside the try whose handler turns a failure into the job\'s result'
                       if inside_body else
                       'prepare_result runs outside the handler of the task call: when the hook raises, the exception '
                       'leaves the loop, the worker dies and the announced job gets no result message')
            break
    q.need(n, 'Worker.workloop: the task call is not inside a try')


def _which(fi, c):
    return 'handler' if any(part == 'handler' for (tr, part, h) in q.enclosing_trys(fi, c)) else 'main'


def r03_3(ctx, A):
    ctx.rule('R03.3', 'when the handshake answers NACK the loop continues without running the '
                      'task, sending READY or counting the job', floor=3)
    fi, cfg = A.fi, A.fi.cfg
    inner = fi.children.get('wait_for_syn')
    q.need(inner is not None, 'Worker.workloop: closure wait_for_syn not found')
    # (a) the closure returns falsy exactly under type == NACK
    icfg = inner.cfg
    rets = icfg.where(lambda n: n.kind == 'stmt' and isinstance(n.ast, ast.Return))
    false_rets = [n for n in rets if isinstance(n.ast.value, ast.Constant) and not n.ast.value.value]
    true_rets = [n for n in rets if n not in false_rets]
    q.need(rets, 'wait_for_syn has no return')
    nack_guard = lambda txt: txt.startswith('NACK == ') or txt.endswith(' == NACK')
    ok = bool(false_rets) and all(q.has_guard(inner, n, nack_guard, True) for n in false_rets)
    ctx.ob('R03.3', 'wait_for_syn:falsy-only-on-NACK', ok, inner, false_rets[0] if false_rets else None,
           'every `return <falsy>` is guarded by type == NACK')
    ok = all(q.has_guard(inner, n, nack_guard, False) for n in true_rets) and \
        all(not (n.ast.value is None) for n in true_rets)
    ctx.ob('R03.3', 'wait_for_syn:truthy-never-on-NACK', ok, inner, true_rets[0] if true_rets else None,
           'every other return is under type != NACK')
    # implicit fall-off (returns None = falsy) must be impossible
    fall = [a for (a, l) in icfg.pred[icfg.exit.id] if l != 'r']
    ctx.ob('R03.3', 'wait_for_syn:no-implicit-return', not fall, inner, None,
           'function end is reachable only through return statements')
    # (b) in workloop: with the "confirmed" outcomes removed, nothing of the job runs
    syn_calls = [(n, c) for (n, c) in q.calls(fi, None)
                 if isinstance(c.func, ast.Name) and c.func.id == 'wait_for_syn']
    q.need(syn_calls, 'Worker.workloop never calls wait_for_syn')
    blocked = set()
    for (n, c) in syn_calls:
        confirm_names = set()
        if n.kind == 'stmt' and isinstance(n.ast, ast.Assign) and isinstance(n.ast.targets[0], ast.Name):
            confirm_names.add(n.ast.targets[0].id)
        for t in cfg.where(lambda t: t.kind == 'test'):
            is_confirm = (isinstance(t.ast, ast.Name) and t.ast.id in confirm_names) or \
                any(x is c for x in walk_own(t.ast))
            if is_confirm:
                for (b, l) in cfg.succ[t.id]:
                    if l == 't':
                        blocked.add((t.id, b, l))
    # handshake disabled -> no NACK possible: block the false edge of tests on self.wait_for_syn
    for t in cfg.where(lambda t: t.kind == 'test'):
        if fi.canon(t.ast) == 'self.wait_for_syn':
            for (b, l) in cfg.succ[t.id]:
                if l == 'f':
                    blocked.add((t.id, b, l))
    forbidden = {n.id: 'task call' for n in A.task_nodes}
    forbidden.update({n.id: 'READY put' for (n, c, p) in A.puts['READY']})
    forbidden.update({n.id: 'quota increment' for n in A.incr_nodes})
    for (n, c) in syn_calls:
        r = cfg.reach([n.id], block_nodes={A.loop.id}, block_edges=blocked)
        hit = sorted(set(forbidden[i] for i in r if i in forbidden))
        w = None
        if hit:
            w = cfg.path([n.id], [i for i in r if i in forbidden], block_nodes={A.loop.id},
                         block_edges=blocked)
        ctx.ob('R03.3', 'workloop:nack-skips-job', not hit, fi, n,
               'after a falsy handshake answer the loop head is reached first' if not hit else
               'reachable after NACK: ' + ', '.join(hit), path=w)


def r03_4(ctx, A):
    ctx.rule('R03.4', 'the completed counter is incremented exactly once per executed job, '
                      'compared with the quota by <, and the recycle status is returned only '
                      'at the quota or on the memory limit', floor=3)
    fi, cfg = A.fi, A.fi.cfg
    incr = {n.id for n in A.incr_nodes}
    for n in A.incr_nodes:
        st = n.ast
        ok = isinstance(st.op, ast.Add) and isinstance(st.value, ast.Constant) and st.value.value == 1
        ctx.ob('R03.4', 'workloop:counter-step-is-one', ok, fi, n, ast.unparse(st))
    for tn in A.task_nodes:
        r = cfg.count_range([tn], [A.loop, cfg.exit], lambda n: n.id in incr, completed=True)
        ctx.ob('R03.4', 'workloop:one-increment-per-executed-job', r == (1, 1), fi, tn,
               'increments of %s on paths task call -> loop head/return: min,max = %r' % (A.counter, r))
    # increments happen nowhere else: from loop head to the task call none
    r = cfg.count_range([A.loop], [n for n in A.task_nodes], lambda n: n.id in incr)
    ctx.ob('R03.4', 'workloop:no-increment-before-task', r is not None and r[1] == 0, fi, A.loop,
           'increments between loop head and task call: %r' % (r,))
    g = q.norm_guard(fi, A.counter_cmp, True)
    ok = g == ('%s < self.maxtasks' % A.counter, True)
    ctx.ob('R03.4', 'workloop:loop-continues-while-below-quota', ok, fi, A.counter_cmp,
           'loop test normal form: %s is %s' % g)
    # recycle status
    rec = ctx.model.const('pool', 'EX_RECYCLE')
    n_rec = 0
    for n in cfg.where(lambda n: n.kind == 'stmt' and isinstance(n.ast, ast.Return) and n.ast.value is not None):
        v = n.ast.value
        names = [x.id for x in ast.walk(v) if isinstance(x, ast.Name)]
        if 'EX_RECYCLE' not in names:
            continue
        n_rec += 1
        quota_txt = q.eq_text(A.counter, 'self.maxtasks')
        if isinstance(v, ast.IfExp):
            g = q.norm_guard(fi, v.test, True)
            body_rec = isinstance(v.body, ast.Name) and v.body.id == 'EX_RECYCLE'
            else_rec = any(isinstance(x, ast.Name) and x.id == 'EX_RECYCLE' for x in ast.walk(v.orelse))
            ok = (g == (quota_txt, True) and body_rec and not else_rec) or \
                 (g == (quota_txt, False) and else_rec and not body_rec)
            ctx.ob('R03.4', 'workloop:recycle-status-only-at-quota', ok, fi, n, ast.unparse(v))
        else:
            at_quota = q.has_guard(fi, n, quota_txt, True)
            memlimit = any(pol and txt.startswith('max_memory_per_child < ')
                           for (txt, pol) in q.guards_norm(fi, n))
            ctx.ob('R03.4', 'workloop:recycle-status-only-at-quota-or-memlimit', at_quota or memlimit,
                   fi, n, 'guards: %s' % sorted(t for t, p in q.guards_norm(fi, n) if p)[:6])
    q.need(n_rec, 'Worker.workloop never returns EX_RECYCLE')


def r03_5(ctx):
    ctx.rule('R03.5', 'ApplyResult._ack records accepted/owner pid/time before the accept callback; '
                      'a cancelled job is answered NACK, gets no owner and no accept callback', floor=5)
    m = ctx.model
    fi = m.func('pool:ApplyResult._ack')
    cfg = fi.cfg
    P = fi.positional_params()
    q.need(len(P) >= 5, 'ApplyResult._ack signature changed: %s' % P)
    _self, p_i, p_time, p_pid, p_fd = P[:5]
    cb = q.calls(fi, 'self._accept_callback')
    q.need(cb, 'ApplyResult._ack never calls self._accept_callback')
    for (n, c) in cb:
        args = [ast.unparse(a) for a in c.args]
        ctx.ob('R03.5', '_ack:accept-callback-args', args == [p_pid, p_time], fi, c,
               'called with (%s), expected (%s, %s)' % (', '.join(args), p_pid, p_time))
        for attr, val in (('self._accepted', 'True'), ('self._worker_pid', p_pid),
                          ('self._time_accepted', p_time)):
            defs = [dn for (dn, t, v) in q.assigns(fi, attr) if v is not None and ast.unparse(v) == val]
            ok, w = cfg.dominated_by(n, defs, completed=True) if defs else (False, None)
            ctx.ob('R03.5', '_ack:%s-recorded-before-callback' % attr.split('.')[1], ok, fi, n,
                   '%s = %s dominates the accept callback' % (attr, val), path=w)
        # accept before result: _set (result handler, supervisor, time-limit scanner) resolves the handle and runs
        # the result callbacks under the handle's lock, so the accept callback must run under that lock too
        st = m.func('pool:ApplyResult._set')
        locks = {st.canon(it.context_expr) for w_ in walk_own(st.node) if isinstance(w_, ast.With) for it in w_.items}
        inside = any(isinstance(w_, ast.With) and any(fi.canon(it.context_expr) in locks for it in w_.items) and
                     any(x is c for b in w_.body for x in ast.walk(b)) for w_ in walk_own(fi.node))
        ctx.ob('R03.5', '_ack:accept-callback-inside-the-handle-lock', bool(locks) and inside, fi, c,
               'the accept callback runs inside `with %s`, the lock _set takes' % '/'.join(sorted(locks)) if inside else
               'the accept callback runs after the handle lock was released: another thread can resolve the job and '
               'run its result / error callback before or during the accept callback')
    # cancelling only marks the handle: the entry must still be in the cache when the worker announces the job,
    # otherwise on_ack finds nothing, no NACK is sent and the worker waits for the answer forever
    cn_ = m.func('pool:ApplyResult._cancel')
    removes = [c for c in walk_own(cn_.node) if isinstance(c, ast.Call) and
               (cn_.callee(c) in ('self.discard', 'self._cache.pop', 'self._cache.clear') or
                cn_.callee(c).endswith('.discard') and cn_.callee(c).startswith('self.'))]
    removes += [d for d in walk_own(cn_.node) if isinstance(d, ast.Delete) and 'self._cache' in ast.unparse(d)]
    marks = [dn for (dn, t, v) in q.assigns(cn_, 'self._cancelled') if isinstance(v, ast.Constant) and v.value is True]
    ctx.ob('R03.5', '_cancel:marks-but-leaves-the-entry-for-the-handshake', bool(marks) and not removes, cn_,
           removes[0] if removes else None,
           'self._cancelled = True, the cache entry stays' if not removes else
           '_cancel removes the cache entry: the ACK of the cancelled job finds nobody to answer it, no NACK is sent '
           'and the worker stays in wait_for_syn (it never takes another job)')
    # cancelled arm
    canc = lambda n: q.has_guard(fi, n, 'self._cancelled', True)
    bad = []
    for (n, c) in cb:
        if canc(n):
            bad.append('accept callback')
    for (dn, t, v) in q.assigns(fi, ('self._worker_pid', 'self._time_accepted')):
        if canc(dn):
            bad.append('owner recorded')
    ctx.ob('R03.5', '_ack:cancelled-arm-no-owner-no-callback', not bad, fi, None,
           'under self._cancelled: ' + (', '.join(bad) if bad else 'neither owner nor callback'))
    # the cancelled arm does not fall through into the accepting code
    first_accept = [dn for (dn, t, v) in q.assigns(fi, 'self._worker_pid')]
    canc_tests = [t for t in cfg.where(lambda t: t.kind == 'test' and fi.canon(t.ast) == 'self._cancelled')]
    q.need(canc_tests, 'ApplyResult._ack does not test self._cancelled')
    sends = q.calls(fi, 'self._send_ack')
    q.need(sends, 'ApplyResult._ack never calls self._send_ack')
    for (n, c) in sends:
        a0 = c.args[0] if c.args else None
        if canc(n):
            ok = isinstance(a0, ast.Name) and a0.id == 'NACK'
            ctx.ob('R03.5', '_ack:cancelled-answers-NACK', ok, fi, c, 'response = %s' % (ast.unparse(a0) if a0 else '?'))
        else:
            ok = False
            detail = ''
            if isinstance(a0, ast.Name) and a0.id in ('ACK', 'NACK'):
                ok = a0.id == 'ACK'
                detail = a0.id
            elif isinstance(a0, ast.Name):
                defs = q.assigns(fi, a0.id)
                vals = []
                ok = bool(defs)
                for (dn, t, v) in defs:
                    vals.append(ast.unparse(v))
                    inh = any(part == 'handler' for (tr, part, h) in q.enclosing_trys(fi, dn.ast))
                    if ast.unparse(v) == 'ACK' and not inh:
                        continue
                    if ast.unparse(v) == 'NACK' and inh:
                        continue
                    ok = False
                detail = '%s in {%s}; NACK only in callback-failure handlers' % (a0.id, ', '.join(vals))
            ctx.ob('R03.5', '_ack:accepted-answers-ACK', ok, fi, c, detail)
    # without the handshake the worker runs the job as soon as it has announced it: a cancelled
    # job can then not be refused any more, so the parent must record the owner all the same
    no_handshake = q.outcome_edges(fi, 'self._send_ack', True)
    owner = [dn for (dn, t, v) in q.assigns(fi, 'self._worker_pid')]
    r_nh = cfg.reach([cfg.entry.id], block_nodes={n.id for n in owner}, block_edges=no_handshake,
                     include_src=True, skip_labels=('x',))
    ok = bool(no_handshake) and bool(owner) and cfg.exit.id not in r_nh
    ctx.ob('R03.5', '_ack:without-handshake-the-owner-is-always-recorded', ok, fi, None,
           'with self._send_ack falsy every normal path records the owner pid (refusal needs the handshake)'
           if ok else 'a cancelled job on a pool without handshake is "refused" by the parent although the '
           'worker runs it: no owner, no accept callback -- a later worker death is never attributed to it',
           path=None if ok else cfg.path([cfg.entry.id], [cfg.exit.id], block_nodes={n.id for n in owner},
                                         block_edges=no_handshake, skip_labels=('x',)))
    cn = [n for (n, c) in sends if canc(n)]
    ctx.ob('R03.5', '_ack:cancelled-arm-exists', bool(cn), fi, None,
           'a NACK answer exists under self._cancelled and self._send_ack')
    # the cancelled arm returns: accepting assignments unreachable from it
    for t in canc_tests:
        tedges = [(b, l) for (b, l) in cfg.succ[t.id] if l == 't']
        for (b, l) in tedges:
            # follow: and self._send_ack true
            r = cfg.reach([b], include_src=True)
            reach_owner = [dn for dn in first_accept if dn.id in r]
            # allowed only if the path left via `self._send_ack` false
            sa = [x for x in cfg.where(lambda x: x.kind == 'test' and fi.canon(x.ast) == 'self._send_ack')]
            blocked = {(x.id, bb, ll) for x in sa for (bb, ll) in cfg.succ[x.id] if ll == 'f'}
            r2 = cfg.reach([b], include_src=True, block_edges=blocked)
            bad2 = [dn for dn in first_accept if dn.id in r2]
            ctx.ob('R03.5', '_ack:cancelled-arm-returns', not bad2, fi, t,
                   'with handshake enabled the cancelled arm cannot reach the owner assignment')


def r03_6(ctx):
    ctx.rule('R03.6', 'the result-handler dispatch table covers every state a worker sends and '
                      'handler arities equal the payload lengths', floor=3)
    m = ctx.model
    F = facts(ctx)
    mk = m.func('pool:ResultHandler._make_methods')
    table = None
    for n in walk_own(mk.node):
        if isinstance(n, ast.Assign) and isinstance(n.value, ast.Dict):
            tg = [ast.unparse(t) for t in n.targets]
            if any(t.endswith('state_handlers') for t in tg):
                table = n.value
    q.need(table is not None, 'ResultHandler._make_methods: state_handlers dict not found')
    handlers = {}
    for k, v in zip(table.keys, table.values):
        handlers[ast.unparse(k)] = v
    worker_cls = m.cls('pool:Worker')
    sent = {}
    for p in F.producers:
        if p.fi.cls is worker_cls and p.tag in ('ACK', 'READY', 'DEATH'):
            sent.setdefault(p.tag, []).append(p)
    q.need(set(sent) == {'ACK', 'READY', 'DEATH'}, 'Worker sends %s' % sorted(sent))
    for tag, ps in sorted(sent.items()):
        h = handlers.get(tag)
        ok = h is not None
        detail = 'no handler for %s' % tag
        if ok:
            hf = mk.children.get(ast.unparse(h))
            if hf is None:
                ok = False
                detail = 'handler %s is not a local function' % ast.unparse(h)
            else:
                n_par = len(hf.positional_params())
                lens = sorted({len(p.payload) for p in ps})
                ok = lens == [n_par] and hf.node.args.vararg is None
                detail = '%s: payload lengths %s, handler %s takes %d' % (tag, lens, hf.name, n_par)
        ctx.ob('R03.6', 'dispatch:%s' % tag, ok, mk, table, detail)
    # dispatch is state_handlers[state](*args) on (state, args) = task
    osc = mk.children.get('on_state_change')
    q.need(osc is not None, 'on_state_change not found')
    ok = False
    for c in [x for x in walk_own(osc.node) if isinstance(x, ast.Call)]:
        if isinstance(c.func, ast.Subscript) and osc.canon(c.func.value).endswith('state_handlers') \
                and len(c.args) == 1 and isinstance(c.args[0], ast.Starred):
            ok = True
    ctx.ob('R03.6', 'dispatch:call-shape', ok, osc, None, 'state_handlers[state](*args)')


def run(ctx):
    from .sweep import r03_7 as _r03_7
    _r03_7(ctx)
    from .sweep import r03_8 as _r03_8
    _r03_8(ctx)
    # under spawn / forkserver the worker object reaches the child by pickling: what __reduce__ writes must be what the
    # rebuild callable binds, position by position (a handshake queue that is dropped = a worker that never waits for the verdict)
    from .reduce import r12_1 as _r12_1
    from ..report import Only as _Only
    _r12_1(_Only(ctx, ('Worker.__reduce__',), floor=1, doc='Worker.__reduce__ and its rebuild callable agree position by position'), modules=('pool',))
    A = WorkloopAnchors(ctx)
    r03_1(ctx, A)
    r03_2(ctx, A)
    r03_2b(ctx, A)
    r03_3(ctx, A)
    r03_4(ctx, A)
    r03_5(ctx)
    r03_6(ctx)
    # "returning unserialisable values": whatever the serialiser raises, the job still gets its one result
    from .c12 import r12_3
    r12_3(ctx)
    ctx.assume('one pipe per direction is FIFO and the parent has a single consumer thread, so '
               'ACK-before-READY in the worker implies accept-before-result in the parent')


_P = 'billiard/pool.py'
MUTANTS = [
    ('nack-ends-the-worker', 'billiard/pool.py', '                        if not confirm:\n                            continue  # received NACK', '                        if not confirm:\n                            break  # received NACK', 'R03.8'),
    ('send_ack-wired-the-wrong-way-round', 'billiard/pool.py', '                send_ack=self.send_ack if self.synack else None,\n                correlation_id=correlation_id,', '                send_ack=None if self.synack else self.send_ack,\n                correlation_id=correlation_id,', 'R03.8'),
    ('cancel-drops-the-cache-entry', _P, "        \"\"\"Only works if synack is used.\"\"\"\n        self._cancelled = True\n",
     "        \"\"\"Only works if synack is used.\"\"\"\n        self._cancelled = True\n        self.discard()\n", 'R03.5'),
    ('accept-callback-outside-the-handle-lock', _P,
     "            response = ACK\n            if self._accept_callback:\n                try:\n                    self._accept_callback(pid, time_accepted)\n                except self._propagate_errors:\n                    response = NACK\n                    raise\n                except Exception:\n                    response = NACK\n                    # ignore other errors\n            if self._send_ack and synqW_fd:\n                return self._send_ack(response, pid, self._job, synqW_fd)\n",
     "        response = ACK\n        if self._accept_callback:\n            try:\n                self._accept_callback(pid, time_accepted)\n            except self._propagate_errors:\n                response = NACK\n                raise\n            except Exception:\n                response = NACK\n        if self._send_ack and synqW_fd:\n            return self._send_ack(response, pid, self._job, synqW_fd)\n", 'R03.5'),
    ('cancelled-refused-without-handshake', _P, "            if self._cancelled and self._send_ack:\n", "            if self._cancelled:\n", 'R03.5'),
    ('fallback-only-for-pickling-errors', _P, "                        put((READY, (job, i, result, inqW_fd)))\n                    except Exception as exc:\n",
     "                        put((READY, (job, i, result, inqW_fd)))\n                    except (pickle.PicklingError, TypeError) as exc:\n", 'R12.3'),
    ('ack-after-task', _P,
     "                    put((ACK, (job, i, now(), pid, synqW_fd)))\n                    if _wait_for_syn:",
     "                    if _wait_for_syn:", 'R03.1'),
    ('ack-swapped-fields', _P, "put((ACK, (job, i, now(), pid, synqW_fd)))",
     "put((ACK, (i, job, now(), pid, synqW_fd)))", 'R03.1'),
    ('ack-parent-pid', _P, "put((ACK, (job, i, now(), pid, synqW_fd)))",
     "put((ACK, (job, i, now(), os.getppid(), synqW_fd)))", 'R03.1'),
    ('ack-time-const', _P, "put((ACK, (job, i, now(), pid, synqW_fd)))",
     "put((ACK, (job, i, 0, pid, synqW_fd)))", 'R03.1'),
    ('ack-inside-try-swallowed', _P,
     "                    put((ACK, (job, i, now(), pid, synqW_fd)))\n",
     "                    try:\n                        put((ACK, (job, i, now(), pid, synqW_fd)))\n"
     "                    except Exception:\n                        pass\n", 'R03.1'),
    ('ready-twice', _P,
     "                    completed += 1\n",
     "                    put((READY, (job, i, result, inqW_fd)))\n                    completed += 1\n", 'R03.2'),
    ('ready-only-on-success', _P,
     "                    try:\n                        put((READY, (job, i, result, inqW_fd)))",
     "                    try:\n                        if result[0]:\n                            put((READY, (job, i, result, inqW_fd)))", 'R03.2'),
    ('fallback-dropped', _P,
     "                            put((READY, (job, i, (False, einfo), inqW_fd)))",
     "                            pass", 'R03.2'),
    ('fallback-success-flag', _P,
     "put((READY, (job, i, (False, einfo), inqW_fd)))",
     "put((READY, (job, i, (True, einfo), inqW_fd)))", 'R03.2'),
    ('ready-wrong-part', _P, "put((READY, (job, i, result, inqW_fd)))",
     "put((READY, (job, 0, result, inqW_fd)))", 'R03.2'),
    ('nack-ignored', _P,
     "                        if not confirm:\n                            continue  # received NACK\n",
     "                        if not confirm:\n                            pass\n", 'R03.3'),
    ('nack-returns-true', _P,
     "                    if type_ == NACK:\n                        return False",
     "                    if type_ == NACK:\n                        return True", 'R03.3'),
    ('nack-counts-quota', _P,
     "                        if not confirm:\n                            continue  # received NACK\n",
     "                        if not confirm:\n                            completed += 1\n                            continue\n", ('R03.3', 'R03.4')),
    ('quota-le', _P, "(maxtasks and completed < maxtasks)", "(maxtasks and completed <= maxtasks)", 'R03.4'),
    ('increment-only-on-success', _P,
     "                    completed += 1\n",
     "                    if result[0]:\n                        completed += 1\n", 'R03.4'),
    ('recycle-always', _P, "return EX_RECYCLE if completed == maxtasks else EX_FAILURE",
     "return EX_RECYCLE", 'R03.4'),
    ('owner-after-callback', _P,
     "            self._worker_pid = pid\n            if self.ready():",
     "            if self.ready():", 'R03.5'),
    ('cancel-runs-callback', _P,
     "            if self._cancelled and self._send_ack:\n                self._accepted = True\n"
     "                if synqW_fd:\n                    return self._send_ack(NACK, pid, self._job, synqW_fd)\n                return\n",
     "            if self._cancelled and self._send_ack:\n                self._accepted = True\n"
     "                if synqW_fd:\n                    self._send_ack(NACK, pid, self._job, synqW_fd)\n", 'R03.5'),
    ('cancel-answers-ack', _P, "return self._send_ack(NACK, pid, self._job, synqW_fd)",
     "return self._send_ack(ACK, pid, self._job, synqW_fd)", 'R03.5'),
    ('callback-args-swapped', _P, "self._accept_callback(pid, time_accepted)",
     "self._accept_callback(time_accepted, pid)", 'R03.5'),
    ('task-sysexit-escapes', _P, "                        if (isinstance(exc, SystemExit) and\n                                _should_have_exited[0]):\n",
     "                        if isinstance(exc, SystemExit):\n", 'R03.2'),
    ('task-keyboardinterrupt-escapes', _P, "                    except BaseException as exc:\n                        if (isinstance(exc, SystemExit) and",
     "                    except KeyboardInterrupt:\n                        raise\n                    except BaseException as exc:\n                        if (isinstance(exc, SystemExit) and", 'R03.2'),
    ('dispatch-no-death', _P, "ACK: on_ack, READY: on_ready, DEATH: on_death", "ACK: on_ack, READY: on_ready", 'R03.6'),
    ('ready-arity', _P, "def on_ready(job, i, obj, inqW_fd):", "def on_ready(job, i, obj):", 'R03.6'),
]
TWINS = [
    ('rename-confirm', _P,
     "                        confirm = wait_for_syn(job)\n                        if not confirm:\n",
     "                        okay = wait_for_syn(job)\n                        if not okay:\n"),
    ('inline-confirm', _P,
     "                        confirm = wait_for_syn(job)\n                        if not confirm:\n",
     "                        if not wait_for_syn(job):\n"),
    ('quota-gt', _P, "(maxtasks and completed < maxtasks)", "(maxtasks and maxtasks > completed)"),
    ('increment-form', _P, "                    completed += 1\n", "                    completed += 1  # done\n"),
    ('put-unaliased', _P, "put((ACK, (job, i, now(), pid, synqW_fd)))", "self.outq.put((ACK, (job, i, now(), pid, synqW_fd)))"),
    ('clock-direct', _P, "put((ACK, (job, i, now(), pid, synqW_fd)))", "put((ACK, (job, i, monotonic(), pid, synqW_fd)))"),
    ('recycle-if-stmt', _P, "                return EX_RECYCLE if completed == maxtasks else EX_FAILURE\n",
     "                if completed == maxtasks:\n                    return EX_RECYCLE\n                return EX_FAILURE\n"),
]
