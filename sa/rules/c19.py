"""C19 — process exit status and liveness are reported faithfully."""
import ast

from ..model import walk_own, dotted
from .. import q


def r19_1(ctx):
    ctx.rule('R19.1', 'exit code table of BaseProcess._bootstrap: normal run -> 0, SystemExit(int) -> that int, '
                      'SystemExit() -> 1, any other exception -> 1; the value reaches os._exit in the forked child',
             floor=6)
    m = ctx.model
    fi = m.func('process:BaseProcess._bootstrap')
    cfg = fi.cfg
    defs = q.assigns(fi, 'exitcode')
    q.need(defs, '_bootstrap assigns no exitcode')
    run_calls = q.nodes_calling(fi, 'self.run')
    q.need(run_calls, '_bootstrap does not call self.run()')
    # normal completion: the assignment following self.run() on the normal edge is 0
    zero = [dn for (dn, t, v) in defs if isinstance(v, ast.Constant) and v.value == 0 and
            not any(part == 'handler' for (tr, part, h) in q.enclosing_trys(fi, dn.ast))]
    ok = False
    if zero:
        r = cfg.reach([n.id for n in run_calls], block_nodes={n.id for n in zero}, skip_labels=('x',))
        rets = [n for n in cfg.where(lambda n: n.kind == 'stmt' and isinstance(n.ast, ast.Return))]
        ok = not any(n.id in r for n in rets) and all(cfg.dominated_by(z, run_calls, completed=True)[0] for z in zero)
    ctx.ob('R19.1', '_bootstrap:normal-run-is-0', ok, fi, zero[0] if zero else None,
           'exitcode = 0 follows a completed self.run() and precedes the return on every normal path')
    # handlers
    handlers = [h for tr in walk_own(fi.node) if isinstance(tr, ast.Try) for h in tr.handlers]
    se = [h for h in handlers if h.type is not None and ast.unparse(h.type) == 'SystemExit']
    q.need(len(se) == 1, '_bootstrap: expected exactly one `except SystemExit` clause')
    h = se[0]
    ename = h.name
    q.need(ename, '_bootstrap: `except SystemExit` does not bind the exception')
    hdefs = [(dn, v) for (dn, t, v) in defs if q.inside(fi, dn, h.body)]
    int_ok = noargs_ok = False
    for (dn, v) in hdefs:
        g = q.guards_norm(fi, dn)
        if (ename + '.args', False) in g:
            noargs_ok = isinstance(v, ast.Constant) and v.value == 1
        if ('isinstance(%s.args[0], int)' % ename, True) in g:
            int_ok = ast.unparse(v) == ename + '.args[0]'
    ctx.ob('R19.1', '_bootstrap:sys.exit(n)-is-n', int_ok, fi, h, 'under isinstance(exc.args[0], int): exitcode = exc.args[0]')
    ctx.ob('R19.1', '_bootstrap:sys.exit()-is-1', noargs_ok, fi, h, 'under not exc.args: exitcode = 1')
    # other int-typed outcome must not shadow: every path through the handler assigns exitcode
    bare = [x for x in handlers if x.type is None or ast.unparse(x.type) in ('BaseException', 'Exception')]
    ok = False
    for x in bare:
        xd = [(dn, v) for (dn, t, v) in defs if q.inside(fi, dn, x.body)]
        ok = bool(xd) and all(isinstance(v, ast.Constant) and v.value == 1 for dn, v in xd)
        hn = [n for n in cfg.of(x) if n.kind == 'except']
        if hn and xd:
            ok = ok and all(cfg.dominated_by(dn, hn)[0] for dn, v in xd) and \
                cfg.must_pass(hn, [n for n in cfg.where(lambda n: n.kind == 'stmt' and isinstance(n.ast, ast.Return))],
                              [dn for dn, v in xd], skip_labels=('x',))[0]
    ctx.ob('R19.1', '_bootstrap:other-exception-is-1', ok, fi, bare[0] if bare else None,
           'the catch-all handler sets exitcode = 1 before anything else can fail')
    # "target raises -> 1" holds for everything a target can raise, KeyboardInterrupt and GeneratorExit included:
    # what escapes _bootstrap is reported differently by each launcher (fork: 1, spawn: -SIGINT, forkserver: 255)
    all_exc = [x for x in bare if x.type is None or ast.unparse(x.type) == 'BaseException']
    ctx.ob('R19.1', '_bootstrap:catch-all-catches-base-exceptions', bool(all_exc), fi, bare[0] if bare else None,
           'bare `except:` / `except BaseException:`' if all_exc else
           'the catch-all is `except %s`: a target that raises KeyboardInterrupt escapes _bootstrap and the exit code '
           'depends on the start method' % (ast.unparse(bare[0].type) if bare else '?'))
    # once the exit code is decided nothing may raise past `return exitcode`: the clean-up in the last `finally`
    # calls only logging helpers and flush helpers that swallow I/O errors (a broken stdout pipe at exit is common);
    # an exception there makes the launcher report its default code instead
    trys = [t for t in fi.node.body if isinstance(t, ast.Try) and t.finalbody]
    q.need(trys, '_bootstrap has no outer try/finally')
    last = trys[-1]
    n_c = 0
    for c in [x for st in last.finalbody for x in ast.walk(st) if isinstance(x, ast.Call)]:
        cal = fi.callee(c)
        if cal in q.LOGGERS or cal.split('.')[-1] in ('info', 'debug', 'sub_debug'):
            continue
        if cal in ('str', 'repr', 'len') or not isinstance(c.func, (ast.Name, ast.Attribute)):
            continue
        n_c += 1
        g = m.resolve_func(cal, fi.module) if '.' not in cal else None
        safe = False
        if g is not None:
            body = [s for s in g.node.body if not (isinstance(s, ast.Expr) and isinstance(s.value, ast.Constant))]
            safe = len(body) == 1 and isinstance(body[0], ast.Try) and any(
                q.handler_catches(h, ['OSError']) or q.handler_catches(h, ['EnvironmentError']) or
                h.type is None or ast.unparse(h.type) in ('Exception', 'BaseException') for h in body[0].handlers)
        ctx.ob('R19.1', '_bootstrap:clean-up-after-the-code-is-decided-cannot-raise#%d' % n_c, safe, fi, c,
               '%s() swallows I/O errors' % cal if safe else
               '`%s` in the final clean-up is not known to swallow OSError: when the last flush fails (reader of '
               'stdout gone, disk full) the exception escapes _bootstrap and the child reports the launcher\'s '
               'default code instead of the code it decided on' % ast.unparse(c))
    q.need(n_c >= 1, '_bootstrap: no clean-up call in the final finally')
    rets = [n for n in cfg.where(lambda n: n.kind == 'stmt' and isinstance(n.ast, ast.Return))]
    ok = bool(rets) and all(ast.unparse(n.ast.value) == 'exitcode' for n in rets if n.ast.value is not None) and \
        all(n.ast.value is not None for n in rets)
    ctx.ob('R19.1', '_bootstrap:returns-exitcode', ok, fi, rets[0] if rets else None, 'return exitcode')
    ok, w = cfg.must_pass([cfg.entry], [cfg.exit], rets, skip_labels=())
    ctx.ob('R19.1', '_bootstrap:no-implicit-return', ok, fi, None, 'every normal exit is `return exitcode`', path=w)
    # popen_fork._launch
    la = m.func('popen_fork:Popen._launch')
    c2 = la.cfg
    boot = [(n, c) for (n, c) in q.calls(la, lambda t: t.endswith('._bootstrap'))]
    q.need(boot, 'popen_fork.Popen._launch does not call _bootstrap')
    ex = q.calls(la, 'os._exit')
    ok = bool(ex)
    for (n, c) in boot:
        st = n.ast
        var = ast.unparse(st.targets[0]) if isinstance(st, ast.Assign) else None
        ok = ok and var is not None and all(ast.unparse(cc.args[0]) == var for (nn, cc) in ex)
        okp, w = c2.must_pass([n], [c2.exit, c2.raise_exit], [nn for (nn, cc) in ex])
        ok = ok and okp
        ok = ok and (q.has_guard(la, n, 'self.pid == 0', True) or q.has_guard(la, n, '0 == self.pid', True))
    ctx.ob('R19.1', '_launch:child-exits-with-bootstrap-code', ok, la, boot[0][0],
           'in the child (pid == 0) code = _bootstrap() and os._exit(code) runs on every edge (finally)')
    # default when _bootstrap raises is non-zero
    d = [v for (dn, t, v) in q.assigns(la, 'code') if isinstance(v, ast.Constant)]
    ctx.ob('R19.1', '_launch:default-code-nonzero', bool(d) and all(v.value not in (0, None) for v in d), la, None,
           'code preset to %s' % [v.value for v in d])


def r19_2(ctx, rule='R19.2'):
    ctx.rule(rule, 'Popen.poll decodes the wait status: -WTERMSIG when signalled, WEXITSTATUS otherwise, only for '
                   'its own pid; the cached code short-circuits', floor=4)
    m = ctx.model
    fi = m.func('popen_fork:Popen.poll')
    cfg = fi.cfg
    wp = [(n, c) for (n, c) in q.calls(fi, 'os.waitpid')]
    q.need(wp, 'Popen.poll does not call os.waitpid')
    n0 = wp[0][0]
    st = n0.ast
    if isinstance(st, ast.Assign) and isinstance(st.targets[0], ast.Name):
        # res = os.waitpid(...); ...; pid, sts = res
        later = [x for x in ast.walk(fi.node) if isinstance(x, ast.Assign) and isinstance(x.targets[0], ast.Tuple)
                 and isinstance(x.value, ast.Name) and x.value.id == st.targets[0].id and len(x.targets[0].elts) == 2]
        others = [dn for (dn, t, v) in q.assigns(fi, st.targets[0].id)
                  if dn.ast is not st and not (isinstance(v, ast.Constant) and v.value is None)]
        q.need(len(later) == 1 and not others, 'waitpid result not unpacked')
        st = later[0]
    q.need(isinstance(st, ast.Assign) and isinstance(st.targets[0], ast.Tuple), 'waitpid result not unpacked')
    pidv, stsv = [ast.unparse(e) for e in st.targets[0].elts]
    ok = ast.unparse(wp[0][1].args[0]) == 'self.pid'
    ctx.ob(rule, 'poll:waits-for-own-pid', ok, fi, wp[0][1], 'os.waitpid(self.pid, flag)')
    defs = q.assigns(fi, 'self.returncode')
    q.need(defs, 'Popen.poll never assigns self.returncode')
    sig_ok = exit_ok = own_ok = True
    n_sig = n_exit = 0
    for (dn, t, v) in defs:
        g = q.guards_norm(fi, dn)
        own_ok = own_ok and (q.eq_text(pidv, 'self.pid'), True) in g
        txt = ast.unparse(v)
        if txt == '-os.WTERMSIG(%s)' % stsv:
            n_sig += 1
            sig_ok = sig_ok and ('os.WIFSIGNALED(%s)' % stsv, True) in g
        elif txt == 'os.WEXITSTATUS(%s)' % stsv:
            n_exit += 1
            exit_ok = exit_ok and ('os.WIFSIGNALED(%s)' % stsv, False) in g
        else:
            sig_ok = exit_ok = False
    ctx.ob(rule, 'poll:signalled-is-minus-signal', sig_ok and n_sig > 0, fi, None,
           'returncode = -os.WTERMSIG(sts) under os.WIFSIGNALED(sts)')
    ctx.ob(rule, 'poll:exited-is-exit-status', exit_ok and n_exit > 0, fi, None,
           'returncode = os.WEXITSTATUS(sts) otherwise')
    ctx.ob(rule, 'poll:only-own-pid', own_ok, fi, None, 'decoded only when waitpid returned self.pid')
    # the status that is decoded is the one the kernel reported: no made-up status when waitpid failed (ECHILD: the
    # child was reaped elsewhere, e.g. by another thread that is inside join())
    others = [(dn, t) for nm in (pidv, stsv) for (dn, t, v) in q.assigns(fi, nm) if dn is not n0]
    hs = [x for x in cfg.where(lambda x: x.kind == 'except')]
    rset = set()
    for h in hs:
        rset |= cfg.reach([h.id], block_nodes={n.id for (n, c) in wp}, skip_labels=('x',))
    leak = [dn for (dn, t, v) in defs if dn.id in rset]
    ok = not others and not leak
    ctx.ob(rule, 'poll:no-status-without-a-successful-waitpid', ok, fi,
           (others[0][0] if others else leak[0]) if not ok else None,
           'pid and status come only from os.waitpid; after a failed waitpid no exit code is stored' if ok else
           'an exit code is made up when waitpid fails (ECHILD): a poll that loses the race against the thread that '
           'really reaped the child overwrites the true code')
    # short circuit
    ok = all(q.has_guard(fi, n, 'self.returncode is None', True) for (n, c) in wp)
    ctx.ob(rule, 'poll:cached-code-short-circuits', ok, fi, None, 'waitpid only while returncode is None')
    rets = [n for n in cfg.where(lambda n: n.kind == 'stmt' and isinstance(n.ast, ast.Return))]
    ok = all(n.ast.value is None or ast.unparse(n.ast.value) in ('self.returncode', 'None') for n in rets) and \
        any(n.ast.value is not None and ast.unparse(n.ast.value) == 'self.returncode' for n in rets)
    ctx.ob(rule, 'poll:returns-the-code', ok, fi, None, 'returns self.returncode (or None while running)')
    fs = m.func('popen_forkserver:Popen.poll')
    fdefs = q.assigns(fs, 'self.returncode')
    ok = bool(fdefs)
    for (dn, t, v) in fdefs:
        inh = any(part == 'handler' for (tr, part, h) in q.enclosing_trys(fs, dn.ast))
        if inh:
            ok = ok and isinstance(v, ast.Constant) and isinstance(v.value, int) and v.value != 0
        else:
            ok = ok and isinstance(v, ast.Call) and fs.callee(v).endswith('read_unsigned')
    ctx.ob(rule, 'forkserver.poll:value-read-or-nonzero', ok, fs, None,
           'returncode is the value read from the server, or a non-zero constant when the read fails')


def r19_3(ctx):
    ctx.rule('R19.3', 'Popen.wait with a timeout polls only after the sentinel became ready, otherwise returns None',
             floor=2)
    m = ctx.model
    fi = m.func('popen_fork:Popen.wait')
    cfg = fi.cfg
    polls = q.nodes_calling(fi, 'self.poll')
    q.need(polls, 'Popen.wait does not call self.poll')
    P = fi.positional_params()[1]
    waits = [(n, c) for (n, c) in q.calls(fi, 'wait')]
    q.need(waits, 'Popen.wait does not call connection.wait')
    (wn, wc) = waits[0]
    ok = ast.unparse(wc.args[0]) == '[self.sentinel]' and ast.unparse(wc.args[1]) == P
    ctx.ob('R19.3', 'wait:waits-on-own-sentinel-with-timeout', ok, fi, wc, 'wait([self.sentinel], timeout)')
    # with a timeout (timeout is not None), poll reachable only through a truthy wait
    no_timeout = q.outcome_edges(fi, P + ' is None', True)
    truthy = q.outcome_edges(fi, lambda t: t.startswith('wait('), True)
    r = cfg.reach([cfg.entry.id], block_edges=no_timeout | truthy, include_src=True)
    ok = not any(p.id in r for p in polls)
    ctx.ob('R19.3', 'wait:timed-wait-polls-only-when-ready', ok, fi, polls[0],
           'with a timeout the (possibly blocking) poll is reached only after wait() reported the sentinel ready')
    falsy = q.outcome_edges(fi, lambda t: t.startswith('wait('), False)
    ok = bool(falsy)
    for (a, b, l) in falsy:
        n = cfg.nodes[b]
        ok = ok and n.kind == 'stmt' and isinstance(n.ast, ast.Return) and \
            (n.ast.value is None or ast.unparse(n.ast.value) == 'None')
    ctx.ob('R19.3', 'wait:timeout-returns-None', ok, fi, None, 'when the sentinel is not ready in time: return None')
    untimed_sentinel_wait(ctx, 'R19.3')


def untimed_sentinel_wait(ctx, rule):
    """An untimed wait must block in waitpid, not on the sentinel: the sentinel's write end is inherited by every
    process the child forks, so it stays silent for as long as any descendant lives although the child is dead."""
    m = ctx.model
    fi = m.func('popen_fork:Popen.wait')
    P = fi.positional_params()[1]
    waits = [(n, c) for (n, c) in q.calls(fi, 'wait')]
    q.need(waits, 'Popen.wait does not call connection.wait')
    ok = all(q.has_guard(fi, n, P + ' is None', False) for (n, c) in waits)
    ctx.ob(rule, 'wait:untimed-wait-does-not-depend-on-the-sentinel', ok, fi, waits[0][1],
           'the sentinel is consulted only under `timeout is not None`' if ok else
           'join() without a timeout waits for end-of-file on the sentinel pipe, which every descendant of the child '
           'keeps open: a dead child with a living grandchild is never reaped and join()/terminate() never return')


def r19_4(ctx):
    ctx.rule('R19.4', 'start/join/exitcode/is_alive guards of BaseProcess', floor=6)
    m = ctx.model
    st = m.func('process:BaseProcess.start')
    cfg = st.cfg
    pop = [(n, c) for (n, c) in q.calls(st, 'self._Popen')]
    q.need(pop, 'BaseProcess.start does not call self._Popen')
    asserts = [n for n in cfg.where(lambda n: n.kind == 'stmt' and isinstance(n.ast, ast.Assert))]
    tests = {st.canon(a.ast.test): a for a in asserts}
    once = [a for t, a in tests.items() if t == 'self._popen is None']
    mine = [a for t, a in tests.items() if t in ('self._parent_pid == os.getpid()', 'os.getpid() == self._parent_pid')]
    for (n, c) in pop:
        ok = bool(once) and cfg.dominated_by(n, once)[0]
        ctx.ob('R19.4', 'start:only-once', ok, st, n, 'assert self._popen is None precedes _Popen(self)')
        ok = bool(mine) and cfg.dominated_by(n, mine)[0]
        ctx.ob('R19.4', 'start:only-by-creator', ok, st, n, 'assert self._parent_pid == os.getpid() precedes _Popen(self)')
        ok = isinstance(n.ast, ast.Assign) and ast.unparse(n.ast.targets[0]) == 'self._popen'
        ctx.ob('R19.4', 'start:records-popen', ok, st, n, 'self._popen = self._Popen(self)')
    adds = q.nodes_calling(st, '_children.add')
    ok, w = cfg.must_pass([pop[0][0]], [cfg.exit], adds, skip_labels=('x',)) if adds else (False, None)
    ctx.ob('R19.4', 'start:registers-child', ok, st, None, '_children.add(self) after a successful start', path=w)
    jn = m.func('process:BaseProcess.join')
    disc = q.nodes_calling(jn, '_children.discard')
    q.need(disc, 'BaseProcess.join never discards the child')
    w_ = [(n, c) for (n, c) in q.calls(jn, 'self._popen.wait')]
    q.need(w_, 'BaseProcess.join does not call self._popen.wait')
    res = ast.unparse(w_[0][0].ast.targets[0]) if isinstance(w_[0][0].ast, ast.Assign) else \
        jn.canon(w_[0][1]) if w_[0][0].kind == 'test' else None      # ... or the answer tested where it is asked
    ok = res is not None and all(q.has_guard(jn, d, res + ' is None', False) for d in disc)
    ctx.ob('R19.4', 'join:discards-only-after-exit', ok, jn, disc[0], 'child discarded only when wait() returned a code')
    ok = ast.unparse(w_[0][1].args[0]) == jn.positional_params()[1] if w_[0][1].args else False
    ctx.ob('R19.4', 'join:passes-timeout', ok, jn, w_[0][1], 'self._popen.wait(timeout)')
    ec = m.func('process:BaseProcess.exitcode')
    rets = [n for n in ec.cfg.where(lambda n: n.kind == 'stmt' and isinstance(n.ast, ast.Return))]
    ok = True
    for n in rets:
        v = ast.unparse(n.ast.value)
        if q.has_guard(ec, n, 'self._popen is None', True):
            ok = ok and v in ('None', 'self._popen')
        else:
            ok = ok and v == 'self._popen.poll()'
    ctx.ob('R19.4', 'exitcode:none-until-started-then-poll', ok and len(rets) >= 2, ec, None,
           'None before start, poll() afterwards')
    ia = m.func('process:BaseProcess.is_alive')
    rets = [n for n in ia.cfg.where(lambda n: n.kind == 'stmt' and isinstance(n.ast, ast.Return))]
    last = [n for n in rets if 'returncode' in ast.unparse(n.ast)]
    polls = q.nodes_calling(ia, 'self._popen.poll')
    ok = bool(last) and all(ast.unparse(n.ast.value) == 'self._popen.returncode is None' for n in last) and \
        bool(polls) and all(ia.cfg.dominated_by(n, polls)[0] for n in last)
    ctx.ob('R19.4', 'is_alive:poll-then-no-code', ok, ia, None, 'poll() then `returncode is None`')
    unstarted = [n for n in rets if q.has_guard(ia, n, 'self._popen is None', True)]
    ok = bool(unstarted) and all(ast.unparse(n.ast.value) == 'False' for n in unstarted)
    ctx.ob('R19.4', 'is_alive:false-before-start', ok, ia, None, 'not started -> False')


def r19_5(ctx):
    ctx.rule('R19.5', 'fork server: the SIGCHLD disposition it ignores for itself is saved and restored unconditionally '
                      'in every served child before the process code runs, and the exit code of that code is written '
                      'back', floor=4)
    m = ctx.model
    mn = m.func('forkserver:main')
    saves = [(dn, v) for (dn, t, v) in q.assigns(mn, None) if isinstance(v, ast.Call) and mn.callee(v) == 'signal.signal'
             and [ast.unparse(a) for a in v.args] == ['signal.SIGCHLD', 'signal.SIG_IGN']]
    ok = len(saves) == 1 and isinstance(saves[0][0].ast.targets[0], ast.Name)
    hname = ast.unparse(saves[0][0].ast.targets[0]) if ok else '?'
    ctx.ob('R19.5', 'forkserver.main:saves-the-disposition-it-replaces', ok, mn, saves[0][0] if saves else None,
           '%s = signal.signal(signal.SIGCHLD, signal.SIG_IGN)' % hname)
    so = m.func('forkserver:_serve_one')
    calls_ = [c for (n, c) in q.calls(mn, '_serve_one')]
    P = so.positional_params()
    ok = bool(calls_) and all(len(c.args) == len(P) and ast.unparse(c.args[-1]) == hname for c in calls_)
    ctx.ob('R19.5', 'forkserver.main:hands-it-to-the-served-child', ok, mn, calls_[0] if calls_ else None,
           '_serve_one(s, listener, alive_r, %s)' % hname)
    cfg = so.cfg
    H = P[-1]
    rest = [n for (n, c) in q.calls(so, 'signal.signal')
            if [ast.unparse(a) for a in c.args] == ['signal.SIGCHLD', H]]
    runs = [n for (n, c) in q.calls(so, 'spawn._main')]
    q.need(runs, 'forkserver._serve_one does not run the process object')
    ok = bool(rest) and all(cfg.dominated_by(r0, rest, completed=True)[0] for r0 in runs)
    ctx.ob('R19.5', '_serve_one:disposition-restored-on-every-path-before-the-process-runs', ok, so, rest[0] if rest else None,
           'signal.signal(signal.SIGCHLD, handler) dominates spawn._main(): with SIGCHLD left ignored the started '
           'process cannot wait for its own children (waitpid fails with ECHILD)')
    code = ast.unparse(runs[0].ast.targets[0]) if isinstance(runs[0].ast, ast.Assign) else None
    wr = [n for (n, c) in q.calls(so, 'write_unsigned') if len(c.args) == 2 and ast.unparse(c.args[1]) == code]
    ok = code is not None and bool(wr) and cfg.must_pass(runs, [cfg.exit], wr, skip_labels=('x',))[0]
    if code is None:
        # the status handed over where it is produced: write_unsigned(child_w, spawn._main(child_r))
        wr = [n for (n, c) in q.calls(so, 'write_unsigned') if len(c.args) == 2 and isinstance(c.args[1], ast.Call)
              and so.callee(c.args[1]) == 'spawn._main']
        ok = bool(wr) and all(r0 in wr for r0 in runs)
    ctx.ob('R19.5', '_serve_one:exit-code-written-back', ok, so, wr[0] if wr else None,
           'code = spawn._main(child_r); write_unsigned(child_w, code)')
    ex = [(n, c) for (n, c) in q.calls(mn, 'os._exit')]
    ok = bool(ex) and all(mn.cfg.must_pass([x for (x, cc) in q.calls(mn, '_serve_one')], [mn.cfg.exit, mn.cfg.raise_exit],
                                           [n for (n, c) in ex])[0] for _ in [0])
    ctx.ob('R19.5', 'forkserver.main:served-child-always-exits', ok, mn, None, 'os._exit in a finally after _serve_one')


def r19_7(ctx):
    ctx.rule('R19.7', 'fork launcher: the child branch installs no signal handlers (a plain child killed by signal s '
                      'must die of s and report -s), and the sentinel descriptor has one owner: it is closed by '
                      'Popen.close() and handed to nobody else (a second closer closes whatever reuses the number)',
             floor=3)
    m = ctx.model
    la = m.func('popen_fork:Popen._launch')
    cfg = la.cfg
    child = q.outcome_edges(la, q.eq_text('self.pid', '0'), True)
    q.need(child, 'popen_fork.Popen._launch: child branch (self.pid == 0) not found')
    in_child = cfg.reach([b for (a, b, l) in child], include_src=True)
    HANDLERS = ('signal.signal', 'reset_signals', 'signal.siginterrupt', 'signal.set_wakeup_fd', 'common.reset_signals')
    bad = [(n, c) for (n, c) in q.calls(la, None) if n.id in in_child and
           (la.callee(c) in HANDLERS or la.callee(c).split('.')[-1] in ('reset_signals', '_shutdown_cleanup'))]
    ctx.ob('R19.7', '_launch:child-keeps-default-signal-dispositions', not bad, la, bad[0][1] if bad else None,
           'the forked child installs no handler before _bootstrap' if not bad else
           '`%s` in the child: billiard\'s handlers turn TERM/HUP/QUIT/USR1 into sys.exit(signum), so a child killed by '
           'signal s reports +s (a normal exit) instead of -s' % ast.unparse(bad[0][1]))
    boot = [n for (n, c) in q.calls(la, lambda t: t.endswith('._bootstrap')) if n.id in in_child]
    ctx.ob('R19.7', '_launch:child-runs-the-bootstrap', bool(boot), la, boot[0] if boot else None,
           'code = process_obj._bootstrap() in the child')
    # single owner of the sentinel
    sent = [(dn, v) for (dn, t, v) in q.assigns(la, 'self.sentinel') if v is not None]
    q.need(sent, 'popen_fork.Popen._launch never sets self.sentinel')
    sv = ast.unparse(sent[0][1])
    parent = cfg.reach([b for (a, b, l) in q.outcome_edges(la, q.eq_text('self.pid', '0'), False)], include_src=True)
    leaks = [(n, c) for (n, c) in q.calls(la, None) if n.id in parent and
             any(isinstance(x, ast.Name) and x.id == sv for a in list(c.args) + [k.value for k in c.keywords]
                 for x in ast.walk(a))]
    ctx.ob('R19.7', '_launch:sentinel-has-one-owner', not leaks, la, leaks[0][1] if leaks else sent[0][0],
           'in the parent `%s` only becomes self.sentinel' % sv if not leaks else
           '`%s` hands the sentinel descriptor to a second owner: Popen.close() closes it, and when the other owner '
           'closes it again the number may belong to a newer child\'s sentinel -- whose join(timeout) then sees a '
           'ready sentinel and blocks in waitpid' % ast.unparse(leaks[0][1]))
    cl = m.func('popen_fork:Popen.close')
    closers = [(n, c) for (n, c) in q.calls(cl, None) if c.args and ast.unparse(c.args[0]) == 'self.sentinel']
    closes = [c for (n, c) in closers]
    forget = [dn for (dn, t, v) in q.assigns(cl, 'self.sentinel') if isinstance(v, ast.Constant) and v.value is None]
    ok = bool(closes) and bool(forget) and cl.cfg.must_pass([n for (n, c) in closers], [cl.cfg.exit], forget,
                                                             skip_labels=('x',))[0]
    ctx.ob('R19.7', 'close:closes-once-and-forgets', ok, cl, closes[0] if closes else None,
           'os.close(self.sentinel) and self.sentinel = None on every way out')


def r19_6(ctx):
    ctx.rule('R19.6', 'spawn: the sentinel is the read end of a pipe whose write end is inherited by the child, and '
                      'every child end the parent closes afterwards was handed to the child first', floor=3)
    m = ctx.model
    fi = m.func('popen_spawn_posix:Popen._launch')
    cfg = fi.cfg
    pipes = [(dn, [ast.unparse(e) for e in dn.ast.targets[0].elts]) for dn in cfg.where(
        lambda n: n.kind == 'stmt' and isinstance(n.ast, ast.Assign) and isinstance(n.ast.value, ast.Call)
        and fi.callee(n.ast.value) == 'os.pipe' and isinstance(n.ast.targets[0], ast.Tuple)
        and len(n.ast.targets[0].elts) == 2)]
    q.need(len(pipes) >= 2, 'popen_spawn_posix._launch: the two os.pipe() pairs not found')
    spawns = [(n, c) for (n, c) in q.calls(fi, lambda t: t.endswith('spawnv_passfds'))]
    q.need(spawns, 'popen_spawn_posix._launch: spawnv_passfds not found')
    sn, sc = spawns[0]
    ok = len(sc.args) >= 3 and ast.unparse(sc.args[2]) == 'self._fds'
    ctx.ob('R19.6', '_launch:child-inherits-self._fds', ok, fi, sc, 'spawnv_passfds(exe, cmd, self._fds)')
    # fds handed over on every path to the spawn
    handed = set()
    for (n, c) in q.calls(fi, ('self._fds.extend', 'self._fds.append')):
        if not cfg.dominated_by(sn, [n], completed=True)[0]:
            continue
        a = c.args[0] if c.args else None
        if fi.callee(c).endswith('extend') and isinstance(a, (ast.List, ast.Tuple)):
            handed |= {ast.unparse(e) for e in a.elts}
        elif fi.callee(c).endswith('append') and a is not None:
            handed.add(ast.unparse(a))
    sent = [v for (dn, t, v) in q.assigns(fi, 'self.sentinel') if v is not None]
    q.need(sent, 'popen_spawn_posix._launch: self.sentinel is never set')
    s = ast.unparse(sent[0])
    pair = [p for (dn, p) in pipes if p[0] == s]
    ok = len(sent) == 1 and bool(pair) and pair[0][1] in handed
    ctx.ob('R19.6', '_launch:sentinel-pipe-write-end-lives-in-the-child', ok, fi, sn,
           'self.sentinel = %s; its write end %s is in self._fds' % (s, pair[0][1] if pair else '?') if ok else
           'the write end of the sentinel pipe is not inherited by the child: the parent closes its copy right after '
           'the spawn, the sentinel reads EOF at once and wait()/join(timeout)/is_alive() take a running child for '
           'finished')
    # every pipe end the parent closes in the clean-up and does not use itself is a child end
    used_by_parent = {s}
    for w in [x for x in walk_own(fi.node) if isinstance(x, ast.Call) and fi.callee(x) in ('io.open', 'open', 'os.fdopen')]:
        if w.args:
            used_by_parent.add(ast.unparse(w.args[0]))
    ends = {e for (dn, p) in pipes for e in p} - used_by_parent
    for e in sorted(ends):
        ctx.ob('R19.6', '_launch:child-end-%s-handed-over' % e, e in handed, fi, sn,
               '%s is in self._fds before the spawn' % e if e in handed else
               '%s is closed by the parent but never given to the child' % e)



def r19_8(ctx):
    ctx.rule('R19.8', 'the fork-server launcher reads the status pipe only while no code is cached, and "cached" means '
                      '`is not None`: a cached 0 is a code (tested by truth it is read again -- at end of file -- and '
                      'becomes 255)', floor=2)
    m = ctx.model
    fi = m.func('popen_forkserver:Popen.poll')
    reads = [n for (n, c) in q.calls(fi, lambda t: t.endswith('read_unsigned'))]
    waits = [n for (n, c) in q.calls(fi, lambda t: t == 'wait' or t.endswith('.wait'))]
    q.need(reads, 'forkserver Popen.poll does not read the status')
    for what, nodes in (('read', reads), ('wait', waits)):
        ok = bool(nodes) and all(q.has_guard(fi, n, 'self.returncode is None', True) for n in nodes)
        ctx.ob('R19.8', 'forkserver.poll:%s-only-while-no-code-is-cached' % what, ok, fi, nodes[0] if nodes else None,
               'under `self.returncode is None`')



def r19_9(ctx):
    ctx.rule('R19.9', 'looking at a child never waits for another look: poll() and wait() of the launchers take no lock '
                      'around the (possibly untimed) waitpid -- a timed join in one thread must not queue behind an '
                      'untimed one in another', floor=2)
    m = ctx.model
    for cq in ('popen_fork:Popen', 'popen_forkserver:Popen', 'popen_spawn_posix:Popen'):
        ci = m.classes.get(cq)
        if ci is None:
            continue
        for name in ('poll', 'wait'):
            fi = ci.methods.get(name)
            if fi is None:
                continue
            deco = [ast.unparse(d) for d in fi.node.decorator_list]
            locked = [w for w in walk_own(fi.node) if isinstance(w, ast.With) and
                      any('lock' in ast.unparse(i.context_expr).lower() for i in w.items)]
            acq = [c for c in walk_own(fi.node) if isinstance(c, ast.Call) and isinstance(c.func, ast.Attribute) and
                   c.func.attr == 'acquire']
            ok = not deco and not locked and not acq
            ctx.ob('R19.9', '%s.%s:not-serialised' % (cq.split(':')[0], name), ok, fi, None,
                   'plain method, no lock held while waiting' if ok else
                   '%s.%s runs under %s: a join(timeout) blocks for as long as another thread\'s untimed join' % (
                       ci.name, name, ('decorator ' + deco[0]) if deco else 'a lock'))


def r19_10(ctx):
    ctx.rule('R19.10', 'the fork-server launcher takes the pid off the status pipe at launch, so that the only other '
                       'thing ever read from it is the exit status: the pipe has exactly these two readers', floor=2)
    m = ctx.model
    ci = m.cls('popen_forkserver:Popen')
    la = ci.methods.get('_launch')
    q.need(la is not None, 'popen_forkserver.Popen._launch not found')
    pid = [dn for (dn, t, v) in q.assigns(la, 'self.pid') if isinstance(v, ast.Call) and (la.callee(v) or '').endswith('read_unsigned')]
    ok, w = la.cfg.must_pass([la.cfg.entry], [la.cfg.exit], pid, skip_labels=('x',)) if pid else (False, None)
    ctx.ob('R19.10', '_launch:pid-read-at-launch', ok, la, pid[0] if pid else None,
           'self.pid = forkserver.read_unsigned(self.sentinel) on every normal path of _launch', path=w)
    readers = sorted(name for name, fi in ci.methods.items()
                     if any(isinstance(c, ast.Call) and (fi.callee(c) or '').endswith('read_unsigned') for c in walk_own(fi.node)))
    ctx.ob('R19.10', 'status-pipe-readers', readers == ['_launch', 'poll'], ci, None,
           'read_unsigned(self.sentinel) in %s' % readers if readers == ['_launch', 'poll'] else
           'the status pipe is read in %s: whoever reads first takes the pid, and poll() takes the next word for the '
           'exit status' % readers)



def r19_12(ctx):
    ctx.rule('R19.12', 'the table of live children is this module\'s own and starts empty in every process: it is bound '
                       'to a fresh set() at import and in _bootstrap, never to a set another module (the stdlib) keeps -- '
                       'a forked child that inherits its parent\'s children tries to join them on its way out and '
                       'reports 1', floor=2)
    m = ctx.model
    mi = m.modules['process']
    vals = [ast.unparse(v) for v in mi.all_assigns.get('_children', [])]
    bs = m.func('process:BaseProcess._bootstrap')
    ctx.ob('R19.12', 'process._children:own-fresh-set', vals == ['set()'], bs, None, '_children = %s at module level' % vals)
    bs = m.func('process:BaseProcess._bootstrap')
    defs = [ast.unparse(v) for (dn, t, v) in q.assigns(bs, '_children') if v is not None]
    ctx.ob('R19.12', '_bootstrap:child-starts-with-no-children', defs == ['set()'], bs, None, '_children = %s in _bootstrap' % defs)


def exit_decided_by_waitpid(ctx, rule):
    ctx.rule(rule, 'whether a child has exited is decided by waitpid alone: the sentinel pipe stays open as long as any '
                   'descendant of the child holds it, so "pipe not readable" does not mean "still running" -- neither '
                   'poll() nor the pool\'s reaper may answer "running" from the pipe', floor=2)
    m = ctx.model
    fi = m.func('popen_fork:Popen.poll')
    cfg = fi.cfg
    wp = [n for (n, c) in q.calls(fi, 'os.waitpid')]
    q.need(wp, 'popen_fork.Popen.poll does not call waitpid')
    rets = [r for r in cfg.where(lambda r: r.kind == 'stmt' and isinstance(r.ast, ast.Return))
            if q.has_guard(fi, r, 'self.returncode is None', True)]
    early = [r for r in rets if not cfg.dominated_by(r, wp)[0]]
    ctx.ob(rule, 'poll:no-answer-before-waitpid', not early, fi, early[0] if early else wp[0],
           'while no code is cached every answer comes after os.waitpid' if not early else
           'poll() answers without asking waitpid: a worker that died while something it forked is alive is never seen '
           'as exited, never reaped, never replaced')
    je = m.func('pool:Pool._join_exited_workers')
    loops = [n for n in je.cfg.where(lambda n: n.kind == 'for')
             if any(isinstance(x, ast.Attribute) and x.attr == 'exitcode' for x in ast.walk(n.stmt))]
    q.need(loops, '_join_exited_workers: loop over the workers not found')
    reads = [n for n in je.cfg.where(lambda n: n.kind in ('stmt', 'test') and n.ast is not None and any(
        isinstance(x, ast.Attribute) and x.attr == 'exitcode' and isinstance(x.ctx, ast.Load) for x in ast.walk(n.ast)))
        if q.inside(je, n, loops[0].stmt.body)]
    ok, w = q.every_iteration_passes(je, loops[0], reads) if reads else (False, None)
    ctx.ob(rule, 'reaper:asks-every-worker-for-its-exit-code', ok, je, loops[0],
           'every iteration of the reaping loop reads <worker>.exitcode (= poll = waitpid)', path=w)


def run(ctx):
    from .sweep import r19_13 as _r19_13
    _r19_13(ctx)
    exit_decided_by_waitpid(ctx, 'R19.11')
    r19_12(ctx)
    r19_9(ctx)
    r19_10(ctx)
    r19_8(ctx)
    r19_7(ctx)
    r19_5(ctx)
    r19_6(ctx)
    r19_1(ctx)
    r19_2(ctx)
    r19_3(ctx)
    r19_4(ctx)


_PF = 'billiard/popen_fork.py'
_PR = 'billiard/process.py'
MUTANTS = [
    ('poll-trusts-the-sentinel-pipe', _PF, "        if self.returncode is None:\n            while True:\n                try:\n                    pid, sts = os.waitpid(self.pid, flag)", "        if self.returncode is None:\n            if flag == os.WNOHANG and self.sentinel is not None and not __import__('select').select([self.sentinel], [], [], 0)[0]:\n                return None\n            while True:\n                try:\n                    pid, sts = os.waitpid(self.pid, flag)", 'R19.11'),
    ('children-set-shared-with-the-stdlib', _PR, "_children = set()\ndel _MainProcess", "_children = _mproc._children\ndel _MainProcess", 'R19.12'),
    ('poll-and-wait-serialised-by-a-lock', _PF, "    def wait(self, timeout=None):\n        if self.returncode is None:\n", "    def wait(self, timeout=None):\n      with self._wait_lock:\n        if self.returncode is None:\n", 'R19.9'),
    ('forkserver-pid-read-lazily', 'billiard/popen_forkserver.py', "        self.pid = forkserver.read_unsigned(self.sentinel)\n\n    def poll(", "\n    def _read_pid(self):\n        self.pid = forkserver.read_unsigned(self.sentinel)\n        return self.pid\n\n    def poll(", 'R19.10'),
    ('forkserver-poll-tests-the-code-by-truth', 'billiard/popen_forkserver.py', "        if self.returncode is None:\n            from .connection import wait", "        if not self.returncode:\n            from .connection import wait", 'R19.8'),
    ('final-flush-can-raise', _PR, "            _maybe_flush(sys.stdout)\n            _maybe_flush(sys.stderr)\n\n        return exitcode\n",
     "            util._flush_std_streams()\n\n        return exitcode\n", 'R19.1'),
    ('echild-reports-zero', _PF, "                    # Child process not yet created. See #1731717\n                    # e.errno == errno.ECHILD == 10\n                    return None\n",
     "                    if e.errno == errno.ECHILD:\n                        pid, sts = self.pid, 0\n                        break\n                    return None\n", 'R19.2'),
    ('echild-stores-zero', _PF, "                    # Child process not yet created. See #1731717\n                    # e.errno == errno.ECHILD == 10\n                    return None\n",
     "                    self.returncode = 0\n                    return self.returncode\n", 'R19.2'),
    ('catch-all-narrowed-to-Exception', _PR, "        except:\n            exitcode = 1\n", "        except Exception:\n            exitcode = 1\n", 'R19.1'),
    ('untimed-join-waits-on-the-sentinel', _PF,
     "            if timeout is not None:\n                from .connection import wait\n                if not wait([self.sentinel], timeout):\n                    return None\n",
     "            from .connection import wait\n            if not wait([self.sentinel], timeout):\n                return None\n", 'R19.3'),
    ('spawn-sentinel-write-end-not-inherited', 'billiard/popen_spawn_posix.py', "            self._fds.extend([child_r, child_w])", "            self._fds.append(child_r)", 'R19.6'),
    ('spawn-sentinel-is-the-data-pipe', 'billiard/popen_spawn_posix.py', "            self.sentinel = parent_r", "            self.sentinel = child_r", 'R19.6'),
    ('spawn-fds-not-passed', 'billiard/popen_spawn_posix.py', "spawn.get_executable(), cmd, self._fds,", "spawn.get_executable(), cmd, [child_r],", 'R19.6'),
    ('sigstatus-positive', _PF, "self.returncode = -os.WTERMSIG(sts)", "self.returncode = os.WTERMSIG(sts)", 'R19.2'),
    ('exitstatus-raw', _PF, "self.returncode = os.WEXITSTATUS(sts)", "self.returncode = sts", 'R19.2'),
    ('branches-swapped', _PF, "if os.WIFSIGNALED(sts):", "if not os.WIFSIGNALED(sts):", 'R19.2'),
    ('any-pid', _PF, "            if pid == self.pid:\n                if os.WIFSIGNALED(sts):", "            if pid:\n                if os.WIFSIGNALED(sts):", 'R19.2'),
    ('forkserver-zero-on-error', 'billiard/popen_forkserver.py', "                self.returncode = 255", "                self.returncode = 0", 'R19.2'),
    ('wait-polls-anyway', _PF, "                if not wait([self.sentinel], timeout):\n                    return None\n",
     "                wait([self.sentinel], timeout)\n", 'R19.3'),
    ('wait-ignores-timeout', _PF, "if not wait([self.sentinel], timeout):", "if not wait([self.sentinel], None):", 'R19.3'),
    ('sysexit-n-is-1', _PR, "            elif isinstance(exc.args[0], int):\n                exitcode = exc.args[0]",
     "            elif isinstance(exc.args[0], int):\n                exitcode = 1", 'R19.1'),
    ('sysexit-noargs-0', _PR, "            if not exc.args:\n                exitcode = 1", "            if not exc.args:\n                exitcode = 0", 'R19.1'),
    ('exception-is-0', _PR, "        except:\n            exitcode = 1\n", "        except:\n            exitcode = 0\n", 'R19.1'),
    ('exitcode-before-run', _PR, "                self.run()\n                exitcode = 0\n", "                exitcode = 0\n                self.run()\n", 'R19.1'),
    ('launch-no-finally', _PF, "            try:\n                os.close(parent_r)\n                if 'random' in sys.modules:\n                    import random\n                    random.seed()\n                code = process_obj._bootstrap()\n            finally:\n                os._exit(code)",
     "            os.close(parent_r)\n            if 'random' in sys.modules:\n                import random\n                random.seed()\n            code = process_obj._bootstrap()\n            os._exit(code)", 'R19.1'),
    ('start-twice', _PR, "        assert self._popen is None, 'cannot start a process twice'\n", "", 'R19.4'),
    ('join-discards-always', _PR, "        if res is not None:\n            _children.discard(self)\n            self.close()",
     "        _children.discard(self)\n        if res is not None:\n            self.close()", 'R19.4'),
    ('is-alive-no-poll', _PR, "        self._popen.poll()\n        return self._popen.returncode is None", "        return self._popen.returncode is None", 'R19.4'),
    ('join-drops-timeout', _PR, "res = self._popen.wait(timeout)", "res = self._popen.wait()", 'R19.4'),
]
TWINS = [
    ('spawn-fds-appended-one-by-one', 'billiard/popen_spawn_posix.py', "            self._fds.extend([child_r, child_w])", "            self._fds.append(child_r)\n            self._fds.append(child_w)"),
    ('spawn-fds-extended-with-a-tuple', 'billiard/popen_spawn_posix.py', "            self._fds.extend([child_r, child_w])", "            self._fds.extend((child_w, child_r))"),
    ('poll-own-pid-swapped', _PF, "            if pid == self.pid:\n                if os.WIFSIGNALED(sts):", "            if self.pid == pid:\n                if os.WIFSIGNALED(sts):"),
    ('wait-positive-form', _PF, "                if not wait([self.sentinel], timeout):\n                    return None\n",
     "                ready = wait([self.sentinel], timeout)\n                if not ready:\n                    return None\n"),
]
