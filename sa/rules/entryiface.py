"""Sibling cross-check of the job-cache entry classes (ApplyResult, MapResult,
IMapIterator, IMapUnorderedIterator): members used on cache-drawn values,
their shapes, the failure form, owners of unfinished parts."""
import ast

from ..model import walk_own, dotted, AnalysisError
from .. import q
from ..roots import roots
from ..shapes import Shapes, role, alts, CACHE, UNK, EMPTY
from .poolfacts import facts, TAGS

ENTRY = role('entry')
CONTAINERS = {'list', 'dict', 'set', 'deque', 'tuple', 'str'}
NUM_SINKS = {'_kill': 0, 'os.kill': 0, 'self._process_by_pid': 0}   # callee -> arg index demanding a scalar


def _is_cache(ctx):
    R = roots(ctx.model)
    return lambda fi, e: R.root_of(fi, e) == 'cache'


class EntryFlow:
    """Which expressions of pool.py denote cache entries (one interprocedural
    step through parameters, to a fixed point)."""

    def __init__(self, ctx):
        self.ctx = ctx
        m = self.model = ctx.model
        self.F = facts(ctx)
        self.is_cache = _is_cache(ctx)
        self.entry_classes = self.F.entry_classes
        self.funcs = [fi for qn, fi in sorted(m.funcs.items())
                      if fi.module.name == 'pool' and fi.cls not in set(self.entry_classes)]
        self.entry_params = {}     # fi.qual -> set(param)
        self._shapes = {}
        for _ in range(5):
            changed = False
            self._shapes = {}
            for fi in self.funcs:
                sh = self.shapes(fi)
                for call in [n for n in walk_own(fi.node) if isinstance(n, ast.Call)]:
                    target = self.resolve_callee(fi, call)
                    if target is None:
                        continue
                    params = target.positional_params()
                    off = 1 if target.cls is not None and target.parent is None and \
                        not self._is_static(target) else 0
                    for i, a in enumerate(call.args):
                        if isinstance(a, ast.Starred):
                            break
                        if i + off < len(params) and ENTRY in alts(sh.eval(a)):
                            s = self.entry_params.setdefault(target.qual, set())
                            if params[i + off] not in s:
                                s.add(params[i + off])
                                changed = True
            if not changed:
                break

    @staticmethod
    def _is_static(fi):
        return any(isinstance(d, ast.Name) and d.id in ('staticmethod',) for d in fi.node.decorator_list)

    def shapes(self, fi):
        if fi.qual not in self._shapes:
            seeds = {p: ENTRY for p in self.entry_params.get(fi.qual, ())}
            outer = self.shapes(fi.parent) if fi.parent is not None else None
            self._shapes[fi.qual] = _EntryShapes(fi, TAGS, self.is_cache, seeds=seeds, outer=outer)
        return self._shapes[fi.qual]

    def resolve_callee(self, fi, call):
        m = self.model
        c = fi.callee(call)
        if c.startswith('self.') and c.count('.') == 1:
            f = fi
            while f is not None and f.cls is None:
                f = f.parent
            cls = f.cls if f is not None else None
            if cls is not None:
                return m.method(cls, c.split('.')[1])
            return None
        if '.' not in c and '(' not in c:
            f = fi
            while f is not None:
                if c in f.children:
                    return f.children[c]
                f = f.parent
            return m.resolve_func(c, fi.module)
        return None

    def member_uses(self):
        """[(fi, Attribute node, member)] for attribute access on entry values
        outside the entry classes."""
        out = []
        for fi in self.funcs:
            sh = self.shapes(fi)
            for (n, env) in _walk_env(fi, sh):
                if isinstance(n, ast.Attribute) and ENTRY in alts(sh.eval(n.value, env)):
                    out.append((fi, n, n.attr))
        return out


class _EntryShapes(Shapes):
    """Shapes where iteration over the cache also yields entries."""

    def eval(self, e, env=None):
        v = super().eval(e, env)
        return v


def _walk_env(fi, sh):
    """(node, comprehension env) for all nodes of fi"""
    out = []

    def visit(n, env):
        if isinstance(n, (ast.FunctionDef, ast.AsyncFunctionDef, ast.Lambda, ast.ClassDef)) and n is not fi.node:
            return
        if isinstance(n, (ast.GeneratorExp, ast.ListComp, ast.SetComp, ast.DictComp)):
            lenv = dict(env or {})
            for g in n.generators:
                visit(g.iter, lenv)
                sh._bind_target(g.target, sh.elem(sh.eval(g.iter, lenv)), lenv)
                for c in g.ifs:
                    visit(c, lenv)
            if isinstance(n, ast.DictComp):
                visit(n.key, lenv)
                visit(n.value, lenv)
            else:
                visit(n.elt, lenv)
            return
        out.append((n, env))
        for c in ast.iter_child_nodes(n):
            visit(c, env)
    visit(fi.node, None)
    return out


def flow(ctx):
    m = ctx.model
    if not hasattr(m, '_entryflow'):
        m._entryflow = EntryFlow(ctx)
    return m._entryflow


# ---------------------------------------------------------------------------
def r04_1(ctx, rule='R04.1', members=None, site=None, floor=8):
    """Every member used on a cache-drawn value is provided by every entry class.
    ``site``: predicate on the using function (which thread's code is in scope)."""
    ctx.rule(rule, 'every member read or called on a value drawn from the job cache is provided by every '
                   'cache-entry class (unless the use tolerates AttributeError)', floor=floor)
    EF = flow(ctx)
    m = ctx.model
    uses = EF.member_uses()
    if len(uses) < 15:
        raise AnalysisError('%s: only %d member uses on cache-drawn values found' % (rule, len(uses)))
    by_member = {}
    for (fi, n, mem) in uses:
        if q.protected_by(fi, n, ['AttributeError']):
            continue
        if site is not None and not site(fi):
            continue
        by_member.setdefault(mem, []).append((fi, n))
    for mem in sorted(by_member):
        if members is not None and mem not in members:
            continue
        lacking = [ci.name for ci in EF.entry_classes if not m.provides(ci, mem)]
        sites = sorted({fi.qual.split(':')[1] for (fi, n) in by_member[mem]})
        fi0, n0 = by_member[mem][0]
        key = 'member %s' % mem + (': missing in ' + ', '.join(lacking) if lacking else '')
        ctx.ob(rule, key, not lacking, fi0, n0,
               'used in %s; provided by all %d entry classes' % (', '.join(sites), len(EF.entry_classes))
               if not lacking else
               'used in %s on any job handle, but %s do(es) not provide it: AttributeError kills the pool thread '
               '(PoolThread.run -> os._exit)' % (', '.join(sites), ', '.join(lacking)))
    return by_member


def attr_shapes(model, ci, attr):
    """set of shape names an instance attribute of ci may hold"""
    out = set()

    def shape_of(v, fi):
        if v is None:
            return 'any'
        if isinstance(v, ast.Constant):
            if v.value is None:
                return 'none'
            if isinstance(v.value, bool):
                return 'bool'
            if isinstance(v.value, (int, float)):
                return 'num'
            if isinstance(v.value, (str, bytes)):
                return 'str'
        if isinstance(v, (ast.List, ast.ListComp)):
            return 'list'
        if isinstance(v, (ast.Dict, ast.DictComp)):
            return 'dict'
        if isinstance(v, (ast.Set, ast.SetComp)):
            return 'set'
        if isinstance(v, ast.Tuple):
            return 'tuple'
        if isinstance(v, ast.BinOp) and isinstance(v.op, ast.Mult) and \
                (isinstance(v.left, ast.List) or isinstance(v.right, ast.List)):
            return 'list'
        if isinstance(v, ast.Call):
            c = (dotted(v.func) or '').split('.')[-1]
            if c in ('list', 'dict', 'set', 'deque', 'tuple'):
                return c
            if c in ('int', 'float', 'len', 'monotonic', 'time'):
                return 'num'
        if isinstance(v, ast.AugAssign):
            return 'num'
        return 'any'
    for c in model.mro(ci):
        if attr in c.attrs and not any(attr in k.methods for k in [c]):
            out.add(shape_of(c.attrs[attr], None))
    # assignments in every method of the class and its bases; a subclass
    # __init__ overrides what the base __init__ assigned
    own_init = None
    for c in model.mro(ci):
        for name, fi in c.methods.items():
            if model.method(ci, name) is not fi and name != '__init__':
                continue
            for n in walk_own(fi.node):
                pairs = []
                if isinstance(n, ast.Assign):
                    for t in n.targets:
                        pairs.extend(q._unpack(t, n.value))
                elif isinstance(n, ast.AugAssign):
                    pairs.append((n.target, n))
                for t, v in pairs:
                    if isinstance(t, ast.Attribute) and isinstance(t.value, ast.Name) and \
                            t.value.id == 'self' and t.attr == attr:
                        if name == '__init__':
                            if own_init is None:
                                own_init = c
                            if c is not own_init:
                                continue      # overridden by the subclass __init__
                        out.add(shape_of(v, fi))
    return out


def numeric_demands(ctx):
    """{member: [(fi, node, why)]} for uses of entry attributes as numbers/pids."""
    EF = flow(ctx)
    out = {}
    for fi in EF.funcs:
        sh = EF.shapes(fi)
        # taint: local name -> member
        taint = {}
        for n in walk_own(fi.node):
            if isinstance(n, ast.Assign) and len(n.targets) == 1 and isinstance(n.targets[0], ast.Name) and \
                    isinstance(n.value, ast.Attribute) and ENTRY in alts(sh.eval(n.value.value)):
                taint.setdefault(n.targets[0].id, set()).add(n.value.attr)

        def members_of(e):
            if isinstance(e, ast.Attribute) and ENTRY in alts(sh.eval(e.value)):
                return {e.attr}
            if isinstance(e, ast.Name) and e.id in taint:
                return set(taint[e.id])
            return set()
        for n in walk_own(fi.node):
            if isinstance(n, ast.BinOp) and isinstance(n.op, (ast.Add, ast.Sub)):
                for side in (n.left, n.right):
                    for mem in members_of(side):
                        out.setdefault(mem, []).append((fi, n, 'arithmetic `%s`' % ast.unparse(n)))
            if isinstance(n, ast.Call):
                c = fi.callee(n)
                if c in NUM_SINKS and len(n.args) > NUM_SINKS[c]:
                    for mem in members_of(n.args[NUM_SINKS[c]]):
                        out.setdefault(mem, []).append((fi, n, 'process id argument of %s' % c))
                # local closure taking the value as a number: bind and look inside
                target = EF.resolve_callee(fi, n)
                if target is not None and target.parent is fi:
                    params = target.positional_params()
                    for i, a in enumerate(n.args):
                        mems = members_of(a)
                        if not mems or i >= len(params):
                            continue
                        p = params[i]
                        for x in walk_own(target.node):
                            if isinstance(x, ast.BinOp) and isinstance(x.op, (ast.Add, ast.Sub)) and \
                                    any(isinstance(s, ast.Name) and s.id == p for s in (x.left, x.right)):
                                for mem in mems:
                                    out.setdefault(mem, []).append(
                                        (fi, n, 'passed to %s where `%s` is computed' % (target.name, ast.unparse(x))))
    return out


def r05_1(ctx, rule='R05.1', members=None):
    ctx.rule(rule, 'an attribute of a job handle that the pool uses as a number or process id holds a scalar in '
                   'every cache-entry class', floor=2)
    EF = flow(ctx)
    m = ctx.model
    dem = numeric_demands(ctx)
    q.need(dem, 'no numeric use of job-handle attributes found (time-limit scanner vanished?)')
    for mem in sorted(dem):
        if members is not None and mem not in members:
            continue
        fi0, n0, why = dem[mem][0]
        for ci in EF.entry_classes:
            if not m.provides(ci, mem):
                continue      # R04.1's business
            sh = attr_shapes(m, ci, mem)
            bad = sorted(sh & CONTAINERS)
            key = '%s.%s used as scalar' % (ci.name, mem) + (' but is ' + '/'.join(bad) if bad else '')
            ctx.ob(rule, key, not bad, fi0, n0,
                   '%s in %s; %s.%s holds %s' % (why, fi0.qual.split(':')[1], ci.name, mem, '/'.join(sorted(sh)) or '?'))


# ---------------------------------------------------------------------------
def r04_2(ctx, rule='R04.2'):
    ctx.rule(rule, 'the pool-made failure form _set(None, (False, einfo)) makes the handle ready or hands the '
                   'consumer an item, in every cache-entry class', floor=4)
    m = ctx.model
    EF = flow(ctx)
    for ci in EF.entry_classes:
        fi = m.method(ci, '_set')
        q.need(fi is not None, '%s has no _set' % ci.name)
        cfg = fi.cfg
        P = fi.positional_params()
        part = P[1]
        blocked = set()
        # success flag is False
        sf = None
        for n in walk_own(fi.node):
            if isinstance(n, ast.Assign) and isinstance(n.value, ast.Name) and n.value.id == P[2] and \
                    isinstance(n.targets[0], ast.Tuple) and len(n.targets[0].elts) == 2:
                sf = fi.canon(n.targets[0].elts[0])
        if sf:
            blocked |= q.outcome_edges(fi, sf, True)
        # part index is None: `== part` against an int-shaped field is False
        for t in cfg.where(lambda t: t.kind == 'test'):
            e = t.ast
            if isinstance(e, ast.Compare) and len(e.ops) == 1 and isinstance(e.ops[0], (ast.Eq, ast.NotEq)):
                sides = [e.left, e.comparators[0]]
                names = [s.id if isinstance(s, ast.Name) else None for s in sides]
                if part in names:
                    other = sides[1 - names.index(part)]
                    if isinstance(other, ast.Attribute) and isinstance(other.value, ast.Name) and \
                            other.value.id == 'self' and \
                            attr_shapes(m, ci, other.attr) <= {'num'}:
                        lab = 't' if isinstance(e.ops[0], ast.Eq) else 'f'
                        blocked |= {(t.id, b, l) for (b, l) in cfg.succ[t.id] if l == lab}
        # not already resolved
        blocked |= q.outcome_edges(fi, ('self._event.is_set()', 'self.ready()'), True)
        good = [n for (n, c) in q.calls(fi, ('self._event.set', 'self._items.append'))]
        good += [dn for (dn, t, v) in q.assigns(fi, 'self._ready') if v is not None and ast.unparse(v) == 'True']
        r = cfg.reach([cfg.entry.id], block_nodes={n.id for n in good}, block_edges=blocked, skip_labels=('x',))
        ok = cfg.exit.id not in r
        w = None if ok else cfg.path([cfg.entry.id], [cfg.exit.id], block_nodes={n.id for n in good},
                                     block_edges=blocked, skip_labels=('x',))
        owner = fi.cls.name
        ctx.ob(rule, '%s._set(None, failure)%s' % (ci.name, '' if ok else ' is parked, never reported'), ok, fi, None,
               'with part=None and success=False every path sets the event / ready flag or appends an item '
               '(method of %s)' % owner if ok else
               'with part=None the failure is stored where no consumer looks and the handle does not become ready: '
               'the caller waits forever', path=w)


def r04_3(ctx, rule='R04.3'):
    ctx.rule(rule, 'a handle that records one owner per part forgets (or filters out) the owner of a part when that '
                   'part completes, so that only owners of unfinished parts can make the job lost', floor=3)
    m = ctx.model
    EF = flow(ctx)
    n = 0
    for ci in EF.entry_classes:
        wp = m.method(ci, 'worker_pids')
        ack = m.method(ci, '_ack')
        st = m.method(ci, '_set')
        q.need(wp is not None and st is not None, '%s lacks worker_pids/_set' % ci.name)
        reads = {x.attr for x in walk_own(wp.node) if isinstance(x, ast.Attribute)
                 and isinstance(x.value, ast.Name) and x.value.id == 'self'}
        multi = False
        if ack is not None:
            for x in walk_own(ack.node):
                if isinstance(x, ast.Assign):
                    for t in x.targets:
                        if isinstance(t, ast.Subscript) and isinstance(t.value, ast.Attribute) and \
                                ast.unparse(t.value.value) == 'self' and t.value.attr in reads:
                            multi = True
                if isinstance(x, ast.Call) and isinstance(x.func, ast.Attribute) and \
                        x.func.attr in ('append', 'add', 'extend') and isinstance(x.func.value, ast.Attribute) and \
                        ast.unparse(x.func.value.value) == 'self' and x.func.value.attr in reads:
                    multi = True
        n += 1
        if not multi:
            ctx.ob(rule, '%s:single-owner' % ci.name, True, wp, None,
                   'worker_pids() reports at most the one recorded owner; the entry leaves the cache on completion')
            continue
        writes = set()
        for x in walk_own(st.node):
            if isinstance(x, (ast.Assign, ast.AugAssign, ast.Delete)):
                ts = x.targets if not isinstance(x, ast.AugAssign) else [x.target]
                for t in ts:
                    for y in ast.walk(t):
                        if isinstance(y, ast.Attribute) and isinstance(y.value, ast.Name) and y.value.id == 'self':
                            writes.add(y.attr)
            if isinstance(x, ast.Call) and isinstance(x.func, ast.Attribute) and \
                    x.func.attr in ('remove', 'discard', 'pop', 'clear', 'append', 'add', 'popleft') and \
                    isinstance(x.func.value, ast.Attribute) and ast.unparse(x.func.value.value) == 'self':
                writes.add(x.func.value.attr)
        common = reads & writes
        ok = bool(common)
        ctx.ob(rule, '%s:owners-of-finished-parts%s' % (ci.name, '' if ok else ' stay listed'), ok, wp, None,
               'worker_pids() depends on %s which _set updates per part' % sorted(common) if ok else
               'worker_pids() reads %s, _set (of %s) writes %s: a worker that finished its part and exited '
               '(recycling) is still an owner, so the whole job is declared lost'
               % (sorted(reads), st.cls.name, sorted(writes)))
    return n
