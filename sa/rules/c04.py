"""C04 — a worker dying mid-task yields WorkerLostError for exactly its job."""
import ast
import re

from ..model import walk_own, dotted
from .. import q
from .poolfacts import facts, CLOCKS, ReaperAnchors
from .entryiface import r04_1, r04_2, r04_3, flow

SCANNER_MEMBERS = None   # all members


def r04_4(ctx):
    ctx.rule('R04.4', 'the lost marker is written only by on_job_process_lost, which is called only for an '
                      'unfinished job one of whose owners is a worker that really exited', floor=6)
    m = ctx.model
    # who may write _worker_lost
    writers = []
    for qn, fi in sorted(m.funcs.items()):
        for n in walk_own(fi.node):
            if isinstance(n, (ast.Assign, ast.AugAssign)):
                ts = n.targets if isinstance(n, ast.Assign) else [n.target]
                for t in ts:
                    for y in ast.walk(t):
                        if isinstance(y, ast.Attribute) and y.attr == '_worker_lost':
                            writers.append((fi, n))
    q.need(writers, 'no writer of _worker_lost found')
    for (fi, n) in writers:
        ok = fi.qual == 'pool:Pool.on_job_process_lost'
        ctx.ob('R04.4', 'writer:%s' % fi.qual.split(':')[1], ok, fi, n,
               'only Pool.on_job_process_lost may set the lost marker')
        if ok:
            v = n.value
            P = fi.positional_params()
            good = isinstance(v, ast.Tuple) and len(v.elts) == 2 and isinstance(v.elts[0], ast.Call) and \
                fi.callee(v.elts[0]) in CLOCKS and ast.unparse(v.elts[1]) == P[3]
            ctx.ob('R04.4', 'marker-is-(clock, exitcode)', good, fi, n, 'marker = %s' % ast.unparse(v))
            # the marker is the *first* detection: its time starts the grace period, its status is that of the
            # worker that ran the job.  The reaper comes back to the same job on every later pass that reaps
            # anybody (the owner stays "gone"), so the write itself, or every call of it, must be once-only.
            jp = P[1]
            cn = fi.cfg.node_containing(n)
            unset = lambda f_, x, j: q.has_guard(f_, x, j + '._worker_lost is None', True) or \
                q.has_guard(f_, x, j + '._worker_lost', False)
            once = bool(cn) and all(unset(fi, x, jp) for x in cn)
            if not once:
                je_ = m.func('pool:Pool._join_exited_workers')
                sites = [(x, c) for (x, c) in q.calls(je_, lambda t: t.endswith('.on_job_process_lost'))]
                once = bool(sites) and all(unset(je_, x, ast.unparse(c.args[0])) for (x, c) in sites)
            ctx.ob('R04.4', 'marker-written-once-per-job', once, fi, n,
                   'the marker is set only while it is still unset' if once else
                   'the marker (time, status) is overwritten on every later pass of the reaper that reaps any worker: '
                   'the grace period starts again and the status becomes that of "no such worker" (0)')
    je = m.func('pool:Pool._join_exited_workers')
    RA = ReaperAnchors(ctx)
    cfg = je.cfg
    callers = []
    for qn, fi in sorted(m.funcs.items()):
        if fi.module.name != 'pool':
            continue
        for (n, c) in q.calls(fi, lambda t: t.endswith('.on_job_process_lost')):
            callers.append((fi, n, c))
    q.need(callers, 'on_job_process_lost is never called')
    for (fi, n, c) in callers:
        ok = fi is je
        ctx.ob('R04.4', 'caller:%s' % fi.qual.split(':')[1], ok, fi, c, 'called only from the reaper')
        if not ok:
            continue
        jobx, pidx = ast.unparse(c.args[0]), ast.unparse(c.args[1])
        ok = q.has_guard(je, n, jobx + '.ready()', False)
        ctx.ob('R04.4', 'reaper:lost-only-for-unfinished-job', ok, je, c, 'guard not %s.ready()' % jobx)
        ok = q.has_guard(je, n, q.norm_guard(je, c.args[1], True)[0], True)
        ctx.ob('R04.4', 'reaper:lost-only-with-gone-owner', ok, je, c, 'guard %s (an owner pid that is gone)' % pidx)
        # pidx = next((pid for pid in job.worker_pids() if pid in cleaned or pid not in all_pids), None)
        defs = [v for (dn, t, v) in q.assigns(je, pidx)]
        good = False
        detail = 'definition of %s not recognised' % pidx
        if len(defs) == 1 and isinstance(defs[0], ast.Call) and je.callee(defs[0]) == 'next' and \
                isinstance(defs[0].args[0], ast.GeneratorExp):
            g = defs[0].args[0]
            gen = g.generators[0]
            over = ast.unparse(gen.iter)
            conds = ' and '.join(ast.unparse(x) for x in gen.ifs)
            pv = ast.unparse(gen.target)
            # one filter: <pid> in cleaned or <pid> not in all_pids (either order, any spelling of the negation)
            alts = set()
            if len(gen.ifs) == 1:
                c0 = gen.ifs[0]
                alts = {q.norm_guard(je, e, True) for e in (c0.values if isinstance(c0, ast.BoolOp) and
                                                              isinstance(c0.op, ast.Or) else [c0])}
            good = over == jobx + '.worker_pids()' and ast.unparse(g.elt) == pv and \
                alts == {('%s in %s' % (pv, RA.cleaned), True), ('%s in %s' % (pv, RA.all_pids), False)}
            detail = 'next(%s for %s in %s if %s)' % (ast.unparse(g.elt), pv, over, conds)
            dflt = defs[0].args[1] if len(defs[0].args) > 1 else None
            good = good and isinstance(dflt, ast.Constant) and dflt.value is None
        ctx.ob('R04.4', 'reaper:gone-owner-is-an-owner-that-exited', good, je, c, detail)
    # an unfinished job whose owner is gone is failed whatever the exit status was
    fails = [n for (n, c) in q.calls(je, lambda t: t.endswith('.on_job_process_lost') or t.endswith('._set_terminated'))]
    heads = {x.id for x in cfg.where(lambda x: x.kind == 'for')}
    for (fi, n, c) in callers:
        if fi is not je:
            continue
        jobx = ast.unparse(c.args[0])
        unfinished = q.outcome_edges(je, jobx + '.ready()', False)
        gone = q.outcome_edges(je, q.norm_guard(je, c.args[1], True)[0], True)
        # nodes reached after both outcomes within one iteration
        # from `owner gone` the only way to the next job without failing this one is `job.ready()` answering yes
        finished = q.outcome_edges(je, jobx + '.ready()', True)
        starts = [b for (a, b, l) in gone]
        q.need(unfinished and finished, 'reaper: test of %s.ready() not found' % jobx)
        r = cfg.reach(starts, block_nodes={x.id for x in fails}, block_edges=finished, include_src=True,
                      skip_labels=('x',))
        ok = bool(starts) and not (r & heads) and cfg.exit.id not in r
        w = None if ok else cfg.path(starts, list((r & heads) | ({cfg.exit.id} & r)),
                                     block_nodes={x.id for x in fails}, block_edges=finished,
                                     skip_labels=('x',))
        ctx.ob('R04.4', 'reaper:unfinished-job-with-gone-owner-is-always-failed', ok, je, c,
               'after `owner gone` and `not job.ready()` every path reaches on_job_process_lost or _set_terminated '
               '(whatever the exit status)' if ok else
               'some exit statuses leave the unfinished job of a dead worker unresolved', path=w)
    # cleaned only receives exited workers
    adds = [(n, t) for (n, t, v) in q.assigns(je, lambda t: t.startswith(RA.cleaned + '['))]
    q.need(adds, '_join_exited_workers does not fill its dict of reaped workers')
    for (n, t) in adds:
        g = q.guards_norm(je, n)
        worker = RA.worker
        okdefs = True      # RA.exitcode is by construction assigned from <worker>.exitcode
        # reachable only when popen is None or exitcode is not None
        exited = q.outcome_edges(je, worker + '._popen is None', True) | \
            q.outcome_edges(je, (RA.exitcode + ' is None', worker + '.exitcode is None'), False)
        r = cfg.reach([cfg.entry.id], block_edges=exited, include_src=True)
        ctx.ob('R04.4', 'reaper:cleaned-holds-only-exited-workers', okdefs and bool(exited) and n.id not in r, je, n,
               'cleaned[...] is reachable only through `popen is None` or `exitcode is not None`')


def r04_12(ctx):
    ctx.rule('R04.12', 'a job is reported as Terminated (at once, no grace period) only when its worker was stopped by '
                       'terminate_job: the flag the reaper tests is set nowhere else (shrink() and the time limits '
                       'stop workers too, and their jobs are lost jobs)', floor=1)
    m = ctx.model
    je = m.func('pool:Pool._join_exited_workers')
    term = [(n, c) for (n, c) in q.calls(je, lambda t: t.endswith('._set_terminated'))]
    q.need(term, 'the reaper never reports Terminated')
    flags = set()
    for (n, c) in term:
        for (t, p) in q.guards_norm(je, n):
            for mm in re.finditer(r"getattr\(\w+, '(\w+)', False\)|\b\w+\.(_\w*terminat\w*)\b", t):
                flags.add(mm.group(1) or mm.group(2))
    q.need(flags, 'the reaper\'s Terminated arm is not guarded by a flag of the process object')
    for fl in sorted(flags):
        writers = []
        for qn, fi in sorted(m.funcs.items()):
            for n in walk_own(fi.node):
                if isinstance(n, ast.Assign):
                    for t in n.targets:
                        if isinstance(t, ast.Attribute) and t.attr == fl and isinstance(n.value, ast.Constant) and \
                                n.value.value is True:
                            writers.append((fi, n))
        ok = bool(writers) and all(fi.qual == 'pool:Pool.terminate_job' for (fi, n) in writers)
        bad = [(fi, n) for (fi, n) in writers if fi.qual != 'pool:Pool.terminate_job']
        ctx.ob('R04.12', 'reaper:Terminated-only-for-terminate_job(%s)' % fl, ok, bad[0][0] if bad else je,
               bad[0][1] if bad else term[0][1],
               '`%s` is set only by Pool.terminate_job' % fl if ok else
               '`%s` is also set by %s: a job whose worker was stopped that way (shrink, controlled termination) is '
               'failed at once as Terminated instead of WorkerLostError after its grace period'
               % (fl, bad[0][0].qual if bad else '?'))


def r04_9(ctx):
    ctx.rule('R04.9', 'the owner / acceptance records of a map job are kept per item: every store into them is indexed '
                      'by an item position (a loop variable over the part\'s item range), never by the part index',
             floor=2)
    m = ctx.model
    ci = m.cls('pool:MapResult')
    per_item = set()
    init = ci.methods['__init__']
    for (dn, t, v) in q.assigns(init, lambda t: t.startswith('self._')):
        # [x] * length  -> a per-item list
        if isinstance(v, ast.BinOp) and isinstance(v.op, ast.Mult) and isinstance(v.left, ast.List) and \
                'length' in ast.unparse(v.right):
            per_item.add(ast.unparse(t))
    per_item.discard('self._value')       # written by slices of chunksize items: R02.1
    q.need(per_item, 'MapResult.__init__: per-item lists not found')
    n_st = 0
    for name, fi in sorted(ci.methods.items()):
        if len(fi.positional_params()) < 2:
            continue
        part = fi.positional_params()[1]
        for (dn, t, v) in q.assigns(fi, lambda t: any(t.startswith(a + '[') for a in per_item)):
            if not isinstance(t, ast.Subscript):
                continue
            n_st += 1
            idx = t.slice
            names = {x.id for x in ast.walk(idx) if isinstance(x, ast.Name)}
            loopvars = {ast.unparse(lp.stmt.target): lp for lp in fi.cfg.where(lambda x: x.kind == 'for')
                        if q.inside(fi, dn, lp.stmt.body)}
            by_item = bool(names & set(loopvars)) and all(
                'range(' in ast.unparse(loopvars[nm].stmt.iter) for nm in names & set(loopvars))
            ok = by_item and part not in names or (isinstance(idx, ast.Slice) and 'chunksize' in ast.unparse(idx))
            ctx.ob('R04.9', 'MapResult.%s:%s-indexed-by-item' % (name, ast.unparse(t.value).split('.')[-1]), ok, fi, dn,
                   '%s[%s] inside a loop over the part\'s item range' % (ast.unparse(t.value), ast.unparse(idx)) if ok else
                   '%s is a per-item list but is written at `%s`, the part index: with chunksize > 1 this is the slot of '
                   'an item of another part -- its owner record is wiped, so the death of that worker is never '
                   'attributed to the job' % (ast.unparse(t.value), ast.unparse(idx)))
    q.need(n_st >= 2, 'MapResult: no store into the per-item owner lists found')


def r04_5(ctx):
    ctx.rule('R04.5', 'a job is declared lost only from the reaper, after now - lost_time exceeded its '
                      'lost-worker timeout, with the exit status recorded in the marker', floor=4)
    m = ctx.model
    je = m.func('pool:Pool._join_exited_workers')
    sites = []
    for qn, fi in sorted(m.funcs.items()):
        if fi.module.name != 'pool':
            continue
        for (n, c) in q.calls(fi, lambda t: t.endswith('.mark_as_worker_lost')):
            sites.append((fi, n, c))
    q.need(sites, 'mark_as_worker_lost is never called')
    for (fi, n, c) in sites:
        ok = fi is je
        ctx.ob('R04.5', 'caller:%s' % fi.qual.split(':')[1], ok, fi, c, 'only the reaper declares a job lost')
        if not ok:
            continue
        # the scan for expired markers runs on every call of the reaper, before any way out of it -- in particular
        # before the "all workers joined" exit taken at shutdown, after which nobody would ever report the job
        scan = [lp for lp in je.cfg.where(lambda x: x.kind == 'for') if q.inside(je, n, lp.stmt.body)]
        outs = [x for x in je.cfg.where(lambda x: x.kind == 'stmt' and isinstance(x.ast, (ast.Raise, ast.Return)))
                if not any(q.inside(je, x, lp.stmt.body) for lp in scan)]
        early = [x for x in outs if not (scan and je.cfg.dominated_by(x, scan)[0])]
        ctx.ob('R04.5', 'reaper:expired-markers-scanned-before-any-way-out', bool(scan) and not early, je,
               early[0] if early else (scan[0] if scan else None),
               'the lost-job scan dominates every return / raise of the reaper' if not early else
               '`%s` leaves the reaper before the lost-job scan: at shutdown, once the last worker is reaped, an '
               'expired lost marker is never turned into WorkerLostError' % early[0].text())
        jobx = ast.unparse(c.args[0])
        # marker unpack
        unp = None
        for (dn, t, v) in q.assigns(je, None):
            pass
        for st in walk_own(je.node):
            if isinstance(st, ast.Assign) and isinstance(st.targets[0], ast.Tuple) and \
                    ast.unparse(st.value) == jobx + '._worker_lost' and len(st.targets[0].elts) == 2:
                unp = st
        ok = unp is not None
        ctx.ob('R04.5', 'reaper:marker-unpacked', ok, je, unp, '(lost_time, status) = %s._worker_lost' % jobx)
        if not ok:
            continue
        t_name, s_name = [ast.unparse(e) for e in unp.targets[0].elts]
        g = q.guards_norm(je, n)
        NOW = ReaperAnchors(ctx).now
        want = {('%s._lost_worker_timeout < (%s - %s)' % (jobx, NOW, t_name), True),
                ('(%s - %s) < %s._lost_worker_timeout' % (NOW, t_name, jobx), False)}
        ok = bool(g & want)
        ctx.ob('R04.5', 'reaper:grace-period-elapsed', ok, je, c,
               'guard now - %s > / >= %s._lost_worker_timeout in force' % (t_name, jobx) if ok else
               'guards in force: %s' % sorted(t for t, p in g))
        nowdefs = [v for (dn, t, v) in q.assigns(je, ReaperAnchors(ctx).now) if v is not None]
        ok = bool(nowdefs) and all(
            any(isinstance(x, ast.Call) and je.callee(x) in CLOCKS for x in ast.walk(v)) or
            (isinstance(v, ast.Constant) and v.value is None) for v in nowdefs)
        ctx.ob('R04.5', 'reaper:now-is-a-clock-read', ok, je, None, 'now := %s' % ' / '.join(ast.unparse(v) for v in nowdefs))
        ok = len(c.args) >= 2 and ast.unparse(c.args[1]) == s_name
        ctx.ob('R04.5', 'reaper:reports-recorded-status', ok, je, c, 'mark_as_worker_lost(%s, %s)' % (jobx, ast.unparse(c.args[1]) if len(c.args) > 1 else '?'))
    ml = m.func('pool:Pool.mark_as_worker_lost')
    raised = [n for n in walk_own(ml.node) if isinstance(n, ast.Raise) and n.exc is not None]
    ok = bool(raised) and all(isinstance(r.exc, ast.Call) and ml.callee(r.exc) == 'WorkerLostError' and
                              'human_status(%s)' % ml.positional_params()[2] in ast.unparse(r.exc) for r in raised)
    ctx.ob('R04.5', 'mark_as_worker_lost:raises-WorkerLostError-naming-status', ok, ml, raised[0] if raised else None,
           'WorkerLostError(... human_status(exitcode) ...)')
    sets = [c for c in walk_own(ml.node) if isinstance(c, ast.Call) and isinstance(c.func, ast.Attribute) and c.func.attr == '_set']
    ok = bool(sets) and all(ast.unparse(c.func.value) == ml.positional_params()[1] and
                            isinstance(c.args[1], ast.Tuple) and isinstance(c.args[1].elts[0], ast.Constant) and
                            c.args[1].elts[0].value is False for c in sets)
    ctx.ob('R04.5', 'mark_as_worker_lost:fails-that-job', ok, ml, sets[0] if sets else None, 'job._set(None, (False, einfo))')


def r04_6(ctx):
    from .c19 import r19_2
    r19_2(ctx, rule='R04.6')
    m = ctx.model
    hs = m.func('common:human_status')
    P = hs.positional_params()[0]
    sig = [n for n in hs.cfg.where(lambda n: n.kind == 'stmt' and isinstance(n.ast, ast.Return))
           if 'signal' in ast.unparse(n.ast)]
    import re
    neg = re.compile(r'^\(?%s( or 0)?\)? < 0$' % re.escape(P))
    ok = bool(sig) and all(q.has_guard(hs, n, neg, True) for n in sig) and \
        all('-' + P in ast.unparse(n.ast) for n in sig)
    ctx.ob('R04.6', 'human_status:negative-is-signal', ok, hs, sig[0] if sig else None,
           'negative statuses are rendered as signal -status')
    # naming a status must not fail for a status that has no name (real-time signals): the reaper calls it, and an
    # exception there takes the supervisor -- and with it the host process -- down.  The name lookup is protected by
    # a handler for what *that* lookup raises.
    RAISES = {'subscript': 'KeyError', 'signal.Signals': 'ValueError', 'Signals': 'ValueError',
              'signal.strsignal': 'ValueError', 'getattr': 'AttributeError'}
    n_l = 0
    for x in walk_own(hs.node):
        kind = None
        if isinstance(x, ast.Subscript) and isinstance(x.ctx, ast.Load) and not isinstance(x.slice, ast.Slice):
            kind = 'subscript'
        elif isinstance(x, ast.Call) and hs.callee(x) in RAISES:
            kind = hs.callee(x)
        if kind is None:
            continue
        n_l += 1
        need = RAISES[kind]
        h = q.protected_by(hs, x, [need])
        ctx.ob('R04.6', 'human_status:name-lookup-cannot-raise#%d' % n_l, h is not None, hs, x,
               '`%s` is inside a handler for %s' % (ast.unparse(x), need) if h is not None else
               '`%s` raises %s for a status without a name and no handler around it catches that: the supervisor '
               'thread dies in the reaper (PoolThread.run -> os._exit)' % (ast.unparse(x), need))
    q.need(n_l >= 1, 'human_status: no name lookup found')


def r04_7(ctx):
    ctx.rule('R04.7', 'exactly the clean and the recycle status are exempt from error logging in the reaper',
             floor=1)
    m = ctx.model
    je = m.func('pool:Pool._join_exited_workers')
    errs = q.calls(je, 'error')
    q.need(errs, '_join_exited_workers logs no error for abnormal exits')
    for (n, c) in errs:
        g = q.guards_norm(je, n)
        EC = ReaperAnchors(ctx).exitcode
        sets = [t for (t, p) in g if not p and t.startswith(EC + ' in ')]
        ok = False
        detail = 'guards: %s' % sorted(t for t, p in g)
        for t in sets:
            expr = ast.parse(t[len(EC + ' in '):], mode='eval').body
            if isinstance(expr, (ast.Tuple, ast.Set, ast.List)):
                vals = {m.const('pool', e.id) if isinstance(e, ast.Name) else getattr(e, 'value', None) for e in expr.elts}
                ok = vals == {m.const('pool', 'EX_OK'), m.const('pool', 'EX_RECYCLE')}
                detail = 'exempt statuses %s = %s' % (ast.unparse(expr), sorted(vals))
        ctx.ob('R04.7', 'reaper:error-log-exempts-exactly-clean-and-recycle', ok, je, c, detail)


def _reaper_side(fi):
    """code run by the supervisor / result handler (everything but the time-limit scanner)"""
    return not fi.qual.startswith('pool:TimeoutHandler.')


def run(ctx):
    from .sweep import r04_13 as _r04_13, r01_17 as _r01_17b
    from ..report import Only as _OnlyS4
    _r04_13(ctx)
    _r01_17b(_OnlyS4(ctx, ('mark_as_worker_lost:',), floor=1, doc='the lost-worker failure is a record of a live WorkerLostError'), 'R04.14')
    from .c01 import r01_16 as _r01_16
    _r01_16(ctx)
    # whether a worker has exited is decided by waitpid alone (borrowed from C19)
    from .c19 import exit_decided_by_waitpid as _edw
    _edw(ctx, 'R19.11')
    # the configured size is lowered once per worker that shrink() really retires (borrowed from C09): a refused shrink
    # that leaves the target too low is a lost worker that is never replaced
    from .c09 import r09_5 as _r09_5
    from ..report import Only as _Only4b
    _r09_5(_Only4b(ctx, ('shrink:',), floor=2, doc='shrink() lowers the configured size once per worker it retires'))
    # a lost worker is replaced unless the restart limiter says no: its window must be the real one (borrowed from C11)
    from .c11 import r11_2 as _r11_2
    from ..report import Only as _Only4
    _r11_2(_Only4(ctx, ('step:',), floor=3, doc='the restart limiter counts restarts inside one real window'))
    # a worker that leaves after finishing its work waits until its results were consumed, on every way out of the loop
    from .c07 import r07_7 as _r07_7
    _r07_7(_Only4(ctx, ('guard-on-every-exit',), floor=1, doc='every exit of the work loop passes the consumed-results wait'))
    r04_1(ctx, site=_reaper_side)
    r04_2(ctx)
    r04_3(ctx)
    r04_4(ctx)
    r04_5(ctx)
    r04_6(ctx)
    r04_7(ctx)
    r04_9(ctx)
    r04_12(ctx)
    # the reaper, the lost-job bookkeeping and the status naming run in the supervisor thread, where an escaped
    # exception ends the host process: their lookup-error handlers must still match the lookups they guard
    from .generic import handlers_match_lookups
    handlers_match_lookups(ctx, 'R04.10', ['common'], floor=1)
    handlers_match_lookups(ctx, 'R04.11', ['pool'], floor=0,
                           only=lambda f: f.cls is not None and f.cls.name in ('Pool', 'Supervisor'))
    # the loss must still be reported while the pool shuts down: the drain loop of the result handler
    from .c07 import r07_3
    r07_3(ctx)
    # the owner the reaper matches against is recorded for every job a worker really runs
    from .c03 import r03_5
    from ..report import Only
    r03_5(Only(ctx, ('recorded-before-callback', 'owner-is-always-recorded'), floor=4,
               doc='ApplyResult._ack records acceptance and the owner before any user callback can fail, on every '
                   'accepting path (the reaper finds the job of a dead worker through the recorded owner)'))
    # a lost worker is replaced: the supervision tick refills after every reap, whoever reaped
    from .c09 import r09_3
    r09_3(ctx)
    from .c05 import helpers_hold_live_objects
    helpers_hold_live_objects(ctx, 'R04.8', only=('ResultHandler.cache',), floor=1)


_P = 'billiard/pool.py'
MUTANTS = [
    ('worker_pids-answers-empty-when-owned', 'billiard/pool.py', '        return [self._worker_pid] if self._worker_pid else []\n', '        return [] if self._worker_pid else [self._worker_pid]\n', 'R04.13'),
    ('imap-owners-not-answered', 'billiard/pool.py', '    def worker_pids(self):\n        return self._worker_pids\n', '    def worker_pids(self):\n        return []\n', 'R04.13'),
    ('owner-record-cleared-by-part-index', _P, "                self._value[i * self._chunksize:(i + 1) * self._chunksize] = result\n",
     "                self._value[i * self._chunksize:(i + 1) * self._chunksize] = result\n                self._worker_pid[i] = None\n", 'R04.9'),
    ('status-name-lookup-raises-something-else', 'billiard/common.py', "            return 'signal {0} ({1})'.format(-status, SIGMAP[-status])\n",
     "            return 'signal {0} ({1})'.format(-status, signal.Signals(-status).name)\n", 'R04.6'),
    ('shutdown-exit-before-the-lost-job-scan', _P, "        now = None\n        # The worker may have published a result before being terminated,\n",
     "        if shutdown and not len(self._pool):\n            raise WorkersJoined()\n        now = None\n        # The worker may have published a result before being terminated,\n", 'R04.5'),
    ('lost-marker-overwritten-on-every-pass', _P, "        if job._worker_lost is None:\n            # keep the first detection: the grace period starts there and\n            # the status is the one of the worker that ran the job.\n            job._worker_lost = (monotonic(), exitcode)\n",
     "        job._worker_lost = (monotonic(), exitcode)\n", 'R04.4'),
    ('lost-only-for-nonzero-status', _P, "                    if not job.ready():\n                        exitcode = exitcodes.get(acked_by_gone) or 0\n",
     "                    exitcode = exitcodes.get(acked_by_gone)\n                    if exitcode and not job.ready():\n", 'R04.4'),
    ('cancelled-refused-without-handshake', _P, "            if self._cancelled and self._send_ack:\n", "            if self._cancelled:\n", 'R03.5'),
    ('result-handler-copies-the-cache', _P, "        self.get = get\n        self.cache = cache\n", "        self.get = get\n        self.cache = dict(cache)\n", 'R04.8'),
    ('reaper-reads-worker-pid', _P, "                    self.on_job_process_down(job, acked_by_gone)\n",
     "                    self.on_job_process_down(job, job._worker_pid)\n", 'R04.1'),
    ('unordered-drops-failure', _P, "    def _set(self, i, obj):\n        with self._cond:\n            self._items.append(obj)\n            self._index += 1\n",
     "    def _set(self, i, obj):\n        with self._cond:\n            if i is None:\n                return\n            self._items.append(obj)\n            self._index += 1\n", 'R04.2'),
    ('apply-failure-not-ready', _P, "            self._success, self._value = obj\n            self._event.set()\n",
     "            self._success, self._value = obj\n            if self._success:\n                self._event.set()\n", 'R04.2'),
    ('second-writer-of-marker', _P, "    def on_job_process_down(self, job, pid_gone):\n        pass\n",
     "    def on_job_process_down(self, job, pid_gone):\n        job._worker_lost = (monotonic(), 0)\n", 'R04.4'),
    ('lost-for-finished-job', _P, "                    if not job.ready():\n                        exitcode = exitcodes.get(acked_by_gone) or 0",
     "                    if True:\n                        exitcode = exitcodes.get(acked_by_gone) or 0", 'R04.4'),
    ('owner-not-in-all-pids-dropped', _P, "                     if pid in cleaned or pid not in all_pids),", "                     if pid in cleaned),", 'R04.4'),
    ('owner-any-pid', _P, "                    (pid for pid in job.worker_pids()\n                     if pid in cleaned or pid not in all_pids),",
     "                    (pid for pid in job.worker_pids()),", 'R04.4'),
    ('cleaned-includes-live', _P, "            if popen is None or exitcode is not None:\n                # worker exited",
     "            if popen is None or exitcode is not None or shutdown:\n                # worker exited", 'R04.4'),
    ('marker-wall-clock-status', _P, "        job._worker_lost = (monotonic(), exitcode)", "        job._worker_lost = (exitcode, monotonic())", 'R04.4'),
    ('grace-inverted', _P, "            if now - lost_time > job._lost_worker_timeout:", "            if now - lost_time < job._lost_worker_timeout:", 'R04.5'),
    ('grace-dropped', _P, "            if now - lost_time > job._lost_worker_timeout:\n                self.mark_as_worker_lost(job, lost_ret)",
     "            self.mark_as_worker_lost(job, lost_ret)", 'R04.5'),
    ('marker-unpack-swapped', _P, "            lost_time, lost_ret = job._worker_lost\n", "            lost_ret, lost_time = job._worker_lost\n", 'R04.5'),
    ('lost-at-detection', _P, "        job._worker_lost = (monotonic(), exitcode)",
     "        job._worker_lost = (monotonic(), exitcode)\n        self.mark_as_worker_lost(job, exitcode)", 'R04.5'),
    ('wrong-exception', _P, "            raise WorkerLostError(\n                'Worker exited prematurely", "            raise Terminated(\n                'Worker exited prematurely", 'R04.5'),
    ('status-sign', 'billiard/common.py', "    if (status or 0) < 0:", "    if (status or 0) > 0:", 'R04.6'),
    ('decode-positive', 'billiard/popen_fork.py', "self.returncode = -os.WTERMSIG(sts)", "self.returncode = os.WTERMSIG(sts)", 'R04.6'),
    ('recycle-logged-as-error', _P, "                if exitcode not in (EX_OK, EX_RECYCLE) and \\\n                        not getattr(worker, '_controlled_termination', False):",
     "                if exitcode not in (EX_OK,) and \\\n                        not getattr(worker, '_controlled_termination', False):", 'R04.7'),
]
TWINS = [
    ('finished-job-skipped-with-continue', _P,
     "                    if not job.ready():\n                        exitcode = exitcodes.get(acked_by_gone) or 0\n                        proc = cleaned.get(acked_by_gone)\n                        if proc and getattr(proc, '_job_terminated', False):\n                            job._set_terminated(exitcode)\n                        else:\n                            self.on_job_process_lost(\n                                job, acked_by_gone, exitcode,\n                            )\n",
     "                    if job.ready():\n                        continue\n                    exitcode = exitcodes.get(acked_by_gone) or 0\n                    proc = cleaned.get(acked_by_gone)\n                    if proc and getattr(proc, '_job_terminated', False):\n                        job._set_terminated(exitcode)\n                    else:\n                        self.on_job_process_lost(\n                            job, acked_by_gone, exitcode,\n                        )\n"),
    ('exit-status-looked-up-before-the-ready-test', _P, "                    if not job.ready():\n                        exitcode = exitcodes.get(acked_by_gone) or 0\n",
     "                    exitcode = exitcodes.get(acked_by_gone) or 0\n                    if not job.ready():\n"),
    ('grace-ge', _P, "            if now - lost_time > job._lost_worker_timeout:", "            if now - lost_time >= job._lost_worker_timeout:"),
    ('grace-flipped', _P, "            if now - lost_time > job._lost_worker_timeout:", "            if job._lost_worker_timeout < now - lost_time:"),
    ('cleaned-test-unaliased', _P, "            if popen is None or exitcode is not None:\n                # worker exited",
     "            if worker._popen is None or exitcode is not None:\n                # worker exited"),
    ('owner-filter-reordered', _P, "                     if pid in cleaned or pid not in all_pids),", "                     if pid not in all_pids or pid in cleaned),"),
]
