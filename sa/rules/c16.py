"""C16 — queues lose nothing, duplicate nothing and respect their capacity."""
import ast

from ..model import walk_own, dotted
from .. import q
from .reduce import r12_1


def _in_with(fi, node_ast, lock_texts):
    for st in walk_own(fi.node):
        if isinstance(st, ast.With) and any(fi.canon(it.context_expr) in lock_texts for it in st.items) and \
                any(x is node_ast for b in st.body for x in ast.walk(b)):
            return True
    return False


def _held_via_acquire(fi, call, lock):
    """call sits behind a successful `<lock>.acquire(...)` test and every way out releases the lock"""
    cfg = fi.cfg
    ns = cfg.node_containing(call)
    rel = q.nodes_calling(fi, lock + '.release')
    acq = lambda t: t.startswith(lock + '.acquire(')
    if not ns or not rel:
        return False
    return all(q.has_guard(fi, n, acq, True) for n in ns) and \
        all(cfg.must_pass([n], [cfg.exit, cfg.raise_exit], rel)[0] for n in ns)


def simple_queue_io_under_lock(ctx, rule):
    """SimpleQueue (the pool's task and result pipes): the receive / send of one message happens inside
    `with <lock>`, so the lock is given back on every way out (a reader interrupted by a signal included)."""
    m = ctx.model
    for cq, meth, io, lock in (('queues:SimpleQueue', 'get_payload', 'self._reader.recv_bytes', 'self._rlock'),
                               ('queues:SimpleQueue', 'send_payload', 'self._writer.send_bytes', 'self._wlock')):
        fi = m.cls(cq).methods[meth]
        ios = [(n, c) for (n, c) in q.calls(fi, io)]
        q.need(ios, '%s.%s performs no I/O' % (cq, meth))
        nolock = q.outcome_edges(fi, lock + ' is None', True)
        ok = True
        for (n, c) in ios:
            if _in_with(fi, c, (lock,)):
                continue
            # allowed only on the arm where the lock does not exist
            ok = ok and q.has_guard(fi, n, lock + ' is None', True)
        ctx.ob(rule, 'SimpleQueue.%s:io-under-%s' % (meth, lock.split('.')[1]), ok, fi, ios[0][1],
               '%s inside `with %s`' % (io, lock))


def r16_1(ctx):
    ctx.rule('R16.1', 'a whole message is read under the reader lock and written under the writer lock; a lock is '
                      'released only by the thread that acquired it', floor=7)
    m = ctx.model
    qg = m.func('queues:Queue.get')
    recvs = [(n, c) for (n, c) in q.calls(qg, ('self._reader.recv_bytes', 'self._recv_bytes'))]
    q.need(recvs, 'Queue.get never receives')
    for i, (n, c) in enumerate(sorted(recvs, key=lambda x: x[1].lineno)):
        ok = _in_with(qg, c, ('self._rlock',)) or _held_via_acquire(qg, c, 'self._rlock')
        ctx.ob('R16.1', 'Queue.get:recv-under-rlock#%d' % (i + 1), ok, qg, c,
               'the receive is inside the reader lock, released on every exit')
    # a release must be preceded by a successful acquire
    cfg = qg.cfg
    acq_fail = q.outcome_edges(qg, lambda t: t.startswith('self._rlock.acquire('), False)
    rel = q.nodes_calling(qg, 'self._rlock.release')
    q.need(acq_fail and rel, 'Queue.get: timed acquire / release of the reader lock not found')
    r = cfg.reach([b for (a, b, l) in acq_fail], include_src=True)
    bad = [x for x in rel if x.id in r]
    ctx.ob('R16.1', 'Queue.get:release-only-what-was-acquired', not bad, qg, bad[0] if bad else rel[0],
           'after a failed acquire (timeout / non-blocking) no release of the reader lock is reachable' if not bad else
           'a get() that failed to take the reader lock still releases it -- the lock another consumer is holding; '
           'two consumers then read the pipe at once')
    emp = [x for x in cfg.where(lambda x: isinstance(x.ast, ast.Raise) and 'Empty' in ast.unparse(x.ast))]
    ok = any(x.id in r for x in emp)
    ctx.ob('R16.1', 'Queue.get:failed-acquire-raises-Empty', ok, qg, None, 'a failed acquire of the reader lock raises Empty')
    simple_queue_io_under_lock(ctx, 'R16.1')
    fd = m.func('queues:Queue._feed')
    P = fd.positional_params()
    sends = [(n, c) for (n, c) in q.calls(fd, P[2])]
    q.need(sends, 'Queue._feed never sends')
    # wacquire / wrelease are locals bound to writelock.acquire / writelock.release on POSIX
    lock_alias = {}
    for (dn, t, v) in q.assigns(fd, None):
        if v is not None and isinstance(t, ast.Name) and ast.unparse(v) in ('writelock.acquire', 'writelock.release'):
            lock_alias[t.id] = ast.unparse(v)
    acq_names = ['writelock.acquire'] + [k for k, v in lock_alias.items() if v == 'writelock.acquire']
    rel_names = ['writelock.release'] + [k for k, v in lock_alias.items() if v == 'writelock.release']
    acq = q.nodes_calling(fd, tuple(acq_names))
    relw = q.nodes_calling(fd, tuple(rel_names))
    ok = bool(acq) and bool(relw)
    for (n, c) in sends:
        if any(q.has_guard(fd, n, a + ' is None', True) for a in acq_names):
            continue      # the lock-less arm (win32: message pipes are atomic), folded away on POSIX
        ok = ok and fd.cfg.must_pass([n], [fd.cfg.exit, fd.cfg.raise_exit], relw)[0]
        # the acquire of this iteration precedes the send
        loops = [x for x in fd.cfg.where(lambda x: x.kind == 'loop') if q.inside(fd, n, x.stmt.body)]
        inner = max(loops, key=lambda x: x.stmt.lineno) if loops else None
        if inner is not None:
            ok = ok and fd.cfg.must_pass([inner], [n], acq, completed=True)[0]
    ctx.ob('R16.1', 'Queue._feed:send-under-wlock', ok, fd, sends[0][1],
           'wacquire(); try: send_bytes(obj) finally: wrelease() for every message')


def _put_rules(ctx, fi, cls):
    cfg = fi.cfg
    acq = lambda t: t.startswith('self._sem.acquire(')
    apps = [(n, c) for (n, c) in q.calls(fi, 'self._buffer.append')]
    base = [(n, c) for (n, c) in q.calls(fi, ('Queue.put', 'super().put'))]
    if apps:
        ok = all(q.has_guard(fi, n, acq, True) for (n, c) in apps)
        ctx.ob('R16.2', '%s.put:enqueue-only-with-a-free-place' % cls, ok, fi, apps[0][1],
               'self._buffer.append(obj) only after self._sem.acquire(block, timeout) succeeded')
        full = [x for x in cfg.where(lambda x: isinstance(x.ast, ast.Raise) and 'Full' in ast.unparse(x.ast))]
        ok = bool(full) and all(q.has_guard(fi, x, acq, False) for x in full)
        fails = q.outcome_edges(fi, acq, False)
        r = cfg.reach([b for (a, b, l) in fails], include_src=True, skip_labels=('x',))
        ok = ok and bool(fails) and cfg.exit.id not in r
        ctx.ob('R16.2', '%s.put:Full-iff-no-place' % cls, ok, fi, full[0] if full else None,
               'raise Full exactly when the capacity semaphore could not be taken')
        ok = all([ast.unparse(a) for a in c.args] == ['block', 'timeout'] for (n, c) in q.calls(fi, 'self._sem.acquire'))
        ctx.ob('R16.2', '%s.put:acquire-honours-block-and-timeout' % cls, ok, fi, None, 'self._sem.acquire(block, timeout)')
    else:
        ctx.ob('R16.2', '%s.put:delegates' % cls, bool(base), fi, None, 'delegates to Queue.put')


def r16_2(ctx):
    ctx.rule('R16.2', 'capacity accounting: a place is taken before an item is buffered and given back exactly once '
                      'per item received; Full / Empty are raised without touching the count', floor=6)
    m = ctx.model
    _put_rules(ctx, m.func('queues:Queue.put'), 'Queue')
    _put_rules(ctx, m.func('queues:JoinableQueue.put'), 'JoinableQueue')
    qg = m.func('queues:Queue.get')
    cfg = qg.cfg
    recvs = [n for (n, c) in q.calls(qg, ('self._reader.recv_bytes', 'self._recv_bytes'))]
    rel = {n.id for n in q.nodes_calling(qg, 'self._sem.release')}
    for i, rn in enumerate(sorted(recvs, key=lambda x: x.line)):
        r = cfg.count_range([rn], [cfg.exit], lambda x: x.id in rel, skip_labels=('x',))
        ctx.ob('R16.2', 'Queue.get:one-place-returned-per-item#%d' % (i + 1), r == (1, 1), qg, rn,
               'self._sem.release() on normal paths from a completed receive to the return: min,max = %r' % (r,))
    emp = [x for x in cfg.where(lambda x: isinstance(x.ast, ast.Raise) and 'Empty' in ast.unparse(x.ast))]
    ok = bool(emp)
    for e in emp:
        r = cfg.count_range([cfg.entry], [e], lambda x: x.id in rel)
        ok = ok and r is not None and r[1] == 0
    ctx.ob('R16.2', 'Queue.get:Empty-returns-no-place', ok, qg, emp[0] if emp else None,
           'no release of the capacity semaphore on a path that raises Empty')
    r = cfg.count_range([cfg.entry], recvs, lambda x: x.id in rel)
    ctx.ob('R16.2', 'Queue.get:no-place-returned-before-receiving', r is not None and r[1] == 0, qg, None,
           'releases between entry and the receive: %r' % (r,))
    init = m.func('queues:Queue.__init__')
    sem = [v for (dn, t, v) in q.assigns(init, 'self._sem') if v is not None]
    ok = [ast.unparse(v) for v in sem] == ['ctx.BoundedSemaphore(maxsize)']
    ctx.ob('R16.2', 'Queue.__init__:capacity-semaphore-is-maxsize', ok, init, None, 'self._sem = ctx.BoundedSemaphore(maxsize)')


def r16_3(ctx):
    ctx.rule('R16.3', 'the feeder buffer is FIFO: producers append on the right (the close sentinel too), the feeder '
                      'takes from the left', floor=3)
    m = ctx.model
    n_app = 0
    for qn in ('queues:Queue.put', 'queues:JoinableQueue.put', 'queues:Queue._finalize_close'):
        fi = m.func(qn)
        for c in [x for x in walk_own(fi.node) if isinstance(x, ast.Call) and isinstance(x.func, ast.Attribute)
                  and ast.unparse(x.func.value) in ('self._buffer', 'buffer')]:
            n_app += 1
            ctx.ob('R16.3', '%s:adds-on-the-right' % qn.split(':')[1], c.func.attr == 'append', fi, c, ast.unparse(c))
    q.need(n_app >= 2, 'producers of the feeder buffer not found')
    fd = m.func('queues:Queue._feed')
    takes = [c for (n, c) in q.calls(fd, lambda t: t.startswith('buffer.'))]
    ok = bool(takes) and all(fd.callee(c) == 'buffer.popleft' for c in takes)
    ctx.ob('R16.3', '_feed:takes-from-the-left', ok, fd, takes[0] if takes else None, 'buffer.popleft()')
    bd = m.func('queues:Queue._after_fork')
    ok = any(ast.unparse(v) == 'collections.deque()' for (dn, t, v) in q.assigns(bd, 'self._buffer'))
    ctx.ob('R16.3', 'buffer-is-a-deque', ok, bd, None, 'self._buffer = collections.deque()')
    # one feeder per queue: "is there a feeder? no -> start one" is atomic among the producer threads of a process
    # (two feeders take turns on the buffer and the order of one producer's items on the pipe is lost)
    n_st = 0
    for qn, fi in sorted(m.funcs.items()):
        if fi.module.name != 'queues':
            continue
        for (n, c) in q.calls(fi, 'self._start_thread'):
            n_st += 1
            ok = _in_with(fi, c, ('self._notempty',)) and q.has_guard(fi, n, 'self._thread is None', True)
            ctx.ob('R16.3', '%s:feeder-started-once-under-the-buffer-lock' % qn.split(':')[1], ok, fi, c,
                   'if self._thread is None: self._start_thread() inside `with self._notempty`' if ok else
                   'test-and-start of the feeder thread is not atomic: two producer threads can each start a feeder')
    q.need(n_st >= 1, 'start of the feeder thread not found in Queue.put / JoinableQueue.put')


def r16_4(ctx):
    ctx.rule('R16.4', 'join accounting: one unfinished-task credit per accepted item (never for a rejected put), '
                      'task_done refuses to go below zero and wakes joiners at zero, join waits iff non-zero -- all '
                      'inside the condition', floor=6)
    m = ctx.model
    pt = m.func('queues:JoinableQueue.put')
    cfg = pt.cfg
    rel = [(n, c) for (n, c) in q.calls(pt, 'self._unfinished_tasks.release')]
    q.need(rel, 'JoinableQueue.put never credits an unfinished task')
    acq = lambda t: t.startswith('self._sem.acquire(')
    base = q.nodes_calling(pt, ('Queue.put', 'super().put'))
    for (n, c) in rel:
        ok = q.has_guard(pt, n, acq, True) or (bool(base) and cfg.dominated_by(n, base, completed=True)[0])
        ctx.ob('R16.4', 'put:credit-only-for-an-accepted-item', ok, pt, c,
               'the credit follows a successful capacity acquire (a put that raises Full credits nothing)')
        ok = _in_with(pt, c, ('self._cond',))
        ctx.ob('R16.4', 'put:credit-inside-the-condition', ok, pt, c, 'inside `with self._cond`')
    ids = {n.id for (n, c) in rel}
    apps = {n.id for n in q.nodes_calling(pt, 'self._buffer.append')} | {n.id for n in base}
    r1 = cfg.count_range([cfg.entry], [cfg.exit], lambda x: x.id in ids, skip_labels=('x',))
    r2 = cfg.count_range([cfg.entry], [cfg.exit], lambda x: x.id in apps, skip_labels=('x',))
    ctx.ob('R16.4', 'put:one-credit-per-buffered-item', r1 == (1, 1) and r2 == (1, 1), pt, None,
           'on every normal path: credits %r, items buffered %r' % (r1, r2))
    td = m.func('queues:JoinableQueue.task_done')
    ac = [(n, c) for (n, c) in q.calls(td, 'self._unfinished_tasks.acquire')]
    ok = bool(ac) and all(len(c.args) == 1 and ast.unparse(c.args[0]) == 'False' for (n, c) in ac)
    rz = [x for x in td.cfg.where(lambda x: isinstance(x.ast, ast.Raise))]
    ok = ok and bool(rz) and all(q.has_guard(td, x, 'self._unfinished_tasks.acquire(False)', False) for x in rz)
    ctx.ob('R16.4', 'task_done:never-below-zero', ok, td, None, 'non-blocking acquire; ValueError when it fails')
    na = [(n, c) for (n, c) in q.calls(td, 'self._cond.notify_all')]
    ok = bool(na) and all(q.has_guard(td, n, 'self._unfinished_tasks._semlock._is_zero()', True) and
                          _in_with(td, c, ('self._cond',)) for (n, c) in na)
    zero_t = q.outcome_edges(td, 'self._unfinished_tasks._semlock._is_zero()', True)
    r = td.cfg.reach([b for (a, b, l) in zero_t], block_nodes={n.id for (n, c) in na}, include_src=True, skip_labels=('x',))
    ok = ok and bool(zero_t) and td.cfg.exit.id not in r
    ctx.ob('R16.4', 'task_done:wakes-joiners-at-zero', ok, td, None, 'notify_all() exactly when the count reached zero')
    ok = all(_in_with(td, c, ('self._cond',)) for (n, c) in ac)
    ctx.ob('R16.4', 'task_done:inside-the-condition', ok, td, None, 'inside `with self._cond`')
    jn = m.func('queues:JoinableQueue.join')
    ws = [(n, c) for (n, c) in q.calls(jn, 'self._cond.wait')]
    ok = bool(ws) and all(q.has_guard(jn, n, 'self._unfinished_tasks._semlock._is_zero()', False) and
                          _in_with(jn, c, ('self._cond',)) for (n, c) in ws)
    nz = q.outcome_edges(jn, 'self._unfinished_tasks._semlock._is_zero()', False)
    r = jn.cfg.reach([b for (a, b, l) in nz], block_nodes={n.id for (n, c) in ws}, include_src=True, skip_labels=('x',))
    ok = ok and bool(nz) and jn.cfg.exit.id not in r
    ctx.ob('R16.4', 'join:waits-iff-unfinished', ok, jn, None, 'with self._cond: if not zero: self._cond.wait()')
    # test and wait are one critical section: a task_done() between an unlocked test and the wait is a lost wake-up
    zt = [x for x in walk_own(jn.node) if isinstance(x, ast.Call) and
          jn.callee(x) == 'self._unfinished_tasks._semlock._is_zero']
    ok = bool(zt) and all(_in_with(jn, x, ('self._cond',)) for x in zt)
    ctx.ob('R16.4', 'join:zero-test-inside-the-condition', ok, jn, zt[0] if zt else None,
           'the "nothing outstanding?" test is made while holding self._cond' if ok else
           'the test is made before the condition is taken: the last task_done() can run in between and its '
           'notify_all() finds no waiter -- join() then waits for ever')
    init = m.func('queues:JoinableQueue.__init__')
    vals = {ast.unparse(t): ast.unparse(v) for (dn, t, v) in q.assigns(init, None) if v is not None}
    ok = vals.get('self._unfinished_tasks') == 'ctx.Semaphore(0)' and vals.get('self._cond') == 'ctx.Condition()'
    ctx.ob('R16.4', '__init__:count-starts-at-zero', ok, init, None, str(vals))


def r16_10(ctx):
    ctx.rule('R16.10', 'a timed get raises Empty only because time ran out: under `block` every `raise Empty` follows a '
                       'wait that was given the (remaining) timeout and came back empty-handed -- never a '
                       'non-blocking look at the pipe', floor=2)
    m = ctx.model
    qg = m.func('queues:Queue.get')
    cfg = qg.cfg
    emp = [x for x in cfg.where(lambda x: isinstance(x.ast, ast.Raise) and 'Empty' in ast.unparse(x.ast))]
    q.need(emp, 'Queue.get never raises Empty')
    n_b = 0
    for e in emp:
        g = q.guards_norm(qg, e)
        if ('block', False) in g:
            continue            # get_nowait / non-blocking arm
        n_b += 1
        # the outcomes that lead straight to this raise (a raise under `a or b` is reached from either test)
        reasons = []
        for (a, l) in cfg.pred[e.id]:
            an = cfg.nodes[a]
            if an.kind == 'test' and l in ('t', 'f'):
                reasons.append(q.norm_guard(qg, an.ast, l == 't'))
            else:
                reasons.append((an.text(), None))
        timed = lambda t, p: (p is False and (t.startswith('self._rlock.acquire(block, timeout') or
                                              t.startswith('self._poll(timeout'))) or \
            (p is True and t.replace(' ', '') == 'timeout<0')
        instant = [t for (t, p) in reasons if not timed(t, p)]
        ok = bool(reasons) and not instant
        ctx.ob('R16.10', 'Queue.get:timed-Empty-only-after-a-timed-wait#L%d' % (e.line - qg.node.lineno), ok, qg, e,
               'Empty follows acquire(block, timeout) / _poll(timeout) coming back false' if ok else
               'a timed get raises Empty after a non-blocking look at the pipe (%s): a consumer that lost the race for '
               'an item to another consumer gives up long before its timeout' % (instant or sorted(t for t, p in g))[:1])
    q.need(n_b >= 2, 'Queue.get: raise Empty in the timed arm not found')


def r16_6(ctx):
    ctx.rule('R16.6', 'what a queue object does not carry to another process (everything outside __getstate__) is '
                      'process-local and is re-created by the after-fork hook, which is also what a restored and a new '
                      'queue start from; the hook is registered for forked children', floor=8)
    m = ctx.model
    for cq in ('queues:Queue', 'queues:JoinableQueue'):
        ci = m.cls(cq)
        gs = m.method(ci, '__getstate__')
        af = m.method(ci, '_after_fork')
        q.need(gs is not None and af is not None, '%s: __getstate__ / _after_fork not found' % cq)
        carried = set()
        for r in [x for x in walk_own(gs.node) if isinstance(x, ast.Return) and x.value is not None]:
            for x in ast.walk(r.value):
                if isinstance(x, ast.Attribute) and isinstance(x.value, ast.Name) and x.value.id == 'self':
                    carried.add(x.attr)
        if ci.name != 'Queue':
            base_gs = m.method(m.cls('queues:Queue'), '__getstate__')
            for r in [x for x in walk_own(base_gs.node) if isinstance(x, ast.Return) and x.value is not None]:
                for x in ast.walk(r.value):
                    if isinstance(x, ast.Attribute) and isinstance(x.value, ast.Name) and x.value.id == 'self':
                        carried.add(x.attr)
        from .generic import _self_assigned
        assigned = set()
        for c in m.mro(ci):
            for name, fi in c.methods.items():
                assigned |= _self_assigned(fi)
        reset = set()
        for c in m.mro(ci):
            if '_after_fork' in c.methods:
                reset |= _self_assigned(c.methods['_after_fork'])
        for attr in sorted(assigned - carried):
            ok = attr in reset
            ctx.ob('R16.6', '%s.%s:process-local-state-reset-after-fork' % (ci.name, attr), ok, af, None,
                   'not pickled, re-created by _after_fork' if ok else
                   'self.%s is process-local (not in __getstate__) but is not reset by _after_fork: a forked child '
                   'inherits the parent\'s value (e.g. a cancelled join: the child then exits without flushing the '
                   'items it put)' % attr)
    qi = m.func('queues:Queue.__init__')
    regs = [c for (n, c) in q.calls(qi, 'register_after_fork')]
    ok = bool(regs) and all(len(c.args) == 2 and ast.unparse(c.args[0]) == 'self' and
                            ast.unparse(c.args[1]).endswith('._after_fork') for c in regs)
    ctx.ob('R16.6', 'Queue.__init__:after-fork-hook-registered', ok, qi, regs[0] if regs else None,
           'register_after_fork(self, Queue._after_fork)')
    for name in ('__init__', '__setstate__'):
        fi = m.func('queues:Queue.' + name)
        calls_ = q.nodes_calling(fi, 'self._after_fork')
        ok = bool(calls_) and fi.cfg.must_pass([fi.cfg.entry], [fi.cfg.exit], calls_, skip_labels=('x',))[0]
        ctx.ob('R16.6', 'Queue.%s:starts-from-the-after-fork-state' % name, ok, fi, None, 'self._after_fork() on every path')



def r16_11(ctx):
    ctx.rule('R16.11', 'only the feeder thread touches the write end of a Queue: put() hands the object to the buffer, '
                       'close() hands the feeder its sentinel -- a second writer overtakes items the feeder has popped '
                       'but not yet written, a second closer shuts the pipe under a feeder that is still flushing',
             floor=2)
    m = ctx.model
    ci = m.cls('queues:Queue')
    seen = 0
    for name, fi in sorted(ci.methods.items()):
        for c in [x for x in walk_own(fi.node) if isinstance(x, ast.Call)]:
            t = fi.callee(c) or ''
            if t in ('self._send_bytes', 'self._writer.send_bytes', 'self._writer.send', 'self._writer.close'):
                seen += 1
                what = 'writes to' if 'send' in t else 'closes'
                ctx.ob('R16.11', 'Queue.%s:%s-the-pipe-itself' % (name, 'writes' if 'send' in t else 'closes'), False, fi, c,
                       'Queue.%s %s the pipe itself (`%s`): that is the feeder\'s job' % (name, what, ast.unparse(c)[:50]))
    st = ci.methods.get('_start_thread')
    q.need(st is not None, 'Queue._start_thread not found')
    handed = [ast.unparse(a) for c in walk_own(st.node) if isinstance(c, ast.Call) for k in c.keywords if k.arg == 'args'
              for a in (k.value.elts if isinstance(k.value, ast.Tuple) else [])]
    ctx.ob('R16.11', '_start_thread:feeder-gets-send-and-close', 'self._send_bytes' in handed and 'self._writer.close' in handed,
           st, None, 'the feeder is handed self._send_bytes and self._writer.close')
    ctx.ob('R16.11', 'Queue:no-other-writer-or-closer', seen == 0, ci, None, '%d direct uses of the write end outside the feeder' % seen)


def r16_12(ctx):
    ctx.rule('R16.12', 'JoinableQueue.put counts the item before anybody can see it: the unfinished-task count goes up '
                       'inside the critical section that appends to the buffer (the feeder needs that lock to pop)', floor=1)
    m = ctx.model
    fi = m.func('queues:JoinableQueue.put')
    # the item becomes visible through the buffer (appended here, or by the base class's put)
    app = [c for (n, c) in q.calls(fi, lambda t: t in ('self._buffer.append', 'Queue.put', 'super().put'))]
    rel = [c for (n, c) in q.calls(fi, 'self._unfinished_tasks.release')]
    # one critical section must cover both: the buffer lock (the feeder cannot pop before the count is up) or the
    # condition task_done() and join() take (nobody can look at the count before it is up)
    withs = [w for w in walk_own(fi.node) if isinstance(w, ast.With) and
             any(ast.unparse(i.context_expr) in ('self._notempty', 'self._cond') for i in w.items)]
    ok = bool(app) and bool(rel) and any(all(any(x is c for x in ast.walk(w)) for c in app + rel) for w in withs)
    ctx.ob('R16.12', 'JoinableQueue.put:counted-under-the-buffer-lock', ok, fi, rel[0] if rel else None,
           'publication and self._unfinished_tasks.release() inside one `with self._notempty` / `with self._cond`' if ok else
           'the item is published (appended / handed to Queue.put) outside the section that counts it: a consumer can '
           'take it and call task_done() while the count is still 0')



def r16_13(ctx):
    ctx.rule('R16.13', 'the feeder goes to sleep only after it found the buffer empty while holding the buffer lock: every '
                       'wait on the not-empty condition is under `not buffer`, tested inside the same lock section (a '
                       'put() between an unlocked look and the wait is a wake-up lost: the item stays in the buffer)', floor=1)
    m = ctx.model
    fi = m.func('queues:Queue._feed')
    waits = [(n, c) for (n, c) in q.calls(fi, lambda t: t in ('notempty.wait', 'nwait'))]
    q.need(waits, 'Queue._feed never waits')
    B = fi.positional_params()[0]
    for (n, c) in waits:
        ok = q.has_guard(fi, n, B, False) or q.has_guard(fi, n, 'not ' + B, True)
        ctx.ob('R16.13', '_feed:sleeps-only-when-the-buffer-is-empty-under-the-lock', ok, fi, c,
               'notempty.wait() under `if not buffer`' if ok else
               'the feeder waits without having tested the buffer under the lock')


def run(ctx):
    from .sweep import r16_14 as _r16_14, r16_15 as _r16_15
    _r16_14(ctx)
    _r16_15(ctx)
    from .sweep import r16_16 as _r16_16
    _r16_16(ctx)
    r16_13(ctx)
    r16_11(ctx)
    r16_12(ctx)
    # a waiter is counted as sleeping while it still holds the lock (borrowed from C17): join() relies on it
    from .c17 import r17_2 as _r17_2
    from ..report import Only as _Only16b
    _r17_2(_Only16b(ctx, ('announce-before-releasing-the-lock',), floor=1, doc='Condition.wait counts the sleeper before it releases the lock'))
    # join() sleeps on the condition that task_done notifies: the token accounting of notify is C17's (borrowed)
    from .c17 import r17_3 as _r17_3
    from ..report import Only as _Only16
    _r17_3(_Only16(ctx, ('notify:',), floor=3, doc='Condition.notify / notify_all keep the sleeper / token accounting exact'))
    # an item is one length-prefixed message on the pipe: what is written is written whole, what is read is read
    # exactly (a reader that takes more than is missing swallows the items behind a large one)
    from .c13 import r13_2, r13_3
    r13_2(ctx)
    r13_3(ctx)
    r16_10(ctx)
    r16_6(ctx)
    from .generic import ctor_forwards_params, per_instance_state
    ctor_forwards_params(ctx, 'R16.7', ['queues'], floor=1)
    per_instance_state(ctx, 'R16.8', ['queues'], floor=2)
    from .generic import handlers_match_lookups
    handlers_match_lookups(ctx, 'R16.9', ['queues'], floor=3)
    r16_1(ctx)
    r16_2(ctx)
    r16_3(ctx)
    r16_4(ctx)
    r12_1(ctx, rule='R16.5', modules=('queues',), floor=3)


_Q = 'billiard/queues.py'
MUTANTS = [
    ('put-does-not-wake-the-feeder', 'billiard/queues.py', "            self._buffer.append(obj)\n            self._notempty.notify()\n\n    def get(self, block=True, timeout=None):", "            self._buffer.append(obj)\n\n    def get(self, block=True, timeout=None):", 'R16.16'),
    ('feeder-drops-the-item-on-posix', 'billiard/queues.py', "                            wacquire()\n                            try:\n                                send_bytes(obj)\n                            finally:\n                                wrelease()\n", "                            wacquire()\n                            wrelease()\n", 'R16.16'),
    ('feeder-waits-without-looking', _Q, "                    if not buffer:\n                        nwait()\n", "                    nwait()\n", 'R16.13'),
    ('put-writes-the-pipe-itself', _Q, "            self._buffer.append(obj)\n            self._notempty.notify()\n\n    def get(", "            if not self._buffer:\n                self._send_bytes(ForkingPickler.dumps(obj))\n                return\n            self._buffer.append(obj)\n            self._notempty.notify()\n\n    def get(", 'R16.11'),
    ('joinable-put-counts-after-publishing', _Q, "                self._buffer.append(obj)\n                self._unfinished_tasks.release()\n                self._notempty.notify()\n", "                self._buffer.append(obj)\n                self._notempty.notify()\n        with self._cond:\n            self._unfinished_tasks.release()\n", 'R16.12'),
    ('join-tests-before-taking-the-condition', _Q, "        with self._cond:\n            if not self._unfinished_tasks._semlock._is_zero():\n                self._cond.wait()\n",
     "        if self._unfinished_tasks._semlock._is_zero():\n            return\n        with self._cond:\n            self._cond.wait()\n", 'R16.4'),
    ('reader-asks-for-a-fixed-chunk', 'billiard/connection.py', "                chunk = read(handle, remaining)\n", "                chunk = read(handle, min(size, 65536))\n", 'R13.3'),
    ('cancelled-join-inherited-by-children', _Q, "        self._jointhread = None\n        self._joincancelled = False\n", "        self._jointhread = None\n", 'R16.6'),
    ('joinable-queue-drops-maxsize', _Q, "        Queue.__init__(self, maxsize, ctx=ctx)\n", "        Queue.__init__(self, ctx=ctx)\n", 'R16.7'),
    ('joinable-queue-forwards-only-extras', _Q, "        Queue.__init__(self, maxsize, ctx=ctx)\n", "        Queue.__init__(self, *args, **kwargs)\n", 'R16.7'),
    ('feeder-started-outside-the-buffer-lock', _Q, "        with self._notempty:\n            if self._thread is None:\n                self._start_thread()\n            self._buffer.append(obj)\n",
     "        if self._thread is None:\n            self._start_thread()\n        with self._notempty:\n            self._buffer.append(obj)\n", 'R16.3'),
    ('acquire-inside-try', _Q, "            if not self._rlock.acquire(block, timeout):\n                raise Empty\n            try:\n                if block:",
     "            try:\n                if not self._rlock.acquire(block, timeout):\n                    raise Empty\n                if block:", 'R16.1'),
    ('blocking-get-unlocked', _Q, "            with self._rlock:\n                res = self._recv_bytes()\n            self._sem.release()", "            res = self._recv_bytes()\n            self._sem.release()", 'R16.1'),
    ('rlock-release-not-finally', _Q, "                res = self._recv_bytes()\n                self._sem.release()\n            finally:\n                self._rlock.release()",
     "                res = self._recv_bytes()\n                self._sem.release()\n                self._rlock.release()\n            finally:\n                pass", 'R16.1'),
    ('payload-unlocked', _Q, "    def get_payload(self):\n        with self._rlock:\n            return self._reader.recv_bytes()", "    def get_payload(self):\n        return self._reader.recv_bytes()", 'R16.1'),
    ('feeder-send-unlocked', _Q, "                            wacquire()\n                            try:\n                                send_bytes(obj)\n                            finally:\n                                wrelease()", "                            send_bytes(obj)", 'R16.1'),
    ('put-ignores-full', _Q, "    def put(self, obj, block=True, timeout=None):\n        assert not self._closed\n        if not self._sem.acquire(block, timeout):\n            raise Full\n\n        with self._notempty:\n            if self._thread is None:",
     "    def put(self, obj, block=True, timeout=None):\n        assert not self._closed\n        self._sem.acquire(block, timeout)\n\n        with self._notempty:\n            if self._thread is None:", 'R16.2'),
    ('get-double-release', _Q, "            with self._rlock:\n                res = self._recv_bytes()\n            self._sem.release()\n", "            with self._rlock:\n                res = self._recv_bytes()\n                self._sem.release()\n            self._sem.release()\n", 'R16.2'),
    ('timed-get-no-release', _Q, "                res = self._recv_bytes()\n                self._sem.release()\n            finally:", "                res = self._recv_bytes()\n            finally:", 'R16.2'),
    ('empty-releases-place', _Q, "                elif not self._poll():\n                    raise Empty", "                elif not self._poll():\n                    self._sem.release()\n                    raise Empty", 'R16.2'),
    ('lifo-buffer', _Q, "        bpopleft = buffer.popleft", "        bpopleft = buffer.pop", 'R16.3'),
    ('put-at-front', _Q, "            if self._thread is None:\n                self._start_thread()\n            self._buffer.append(obj)\n            self._notempty.notify()", "            if self._thread is None:\n                self._start_thread()\n            self._buffer.appendleft(obj)\n            self._notempty.notify()", 'R16.3'),
    ('credit-before-capacity', _Q, "    def put(self, obj, block=True, timeout=None):\n        assert not self._closed\n        if not self._sem.acquire(block, timeout):\n            raise Full\n\n        with self._notempty:\n            with self._cond:\n                if self._thread is None:\n                    self._start_thread()\n                self._buffer.append(obj)\n                self._unfinished_tasks.release()\n                self._notempty.notify()",
     "    def put(self, obj, block=True, timeout=None):\n        with self._cond:\n            self._unfinished_tasks.release()\n        Queue.put(self, obj, block, timeout)", 'R16.4'),
    ('credit-outside-cond', _Q, "            with self._cond:\n                if self._thread is None:\n                    self._start_thread()\n                self._buffer.append(obj)\n                self._unfinished_tasks.release()\n                self._notempty.notify()",
     "            if self._thread is None:\n                self._start_thread()\n            self._buffer.append(obj)\n            self._unfinished_tasks.release()\n            self._notempty.notify()", 'R16.4'),
    ('task-done-blocking', _Q, "            if not self._unfinished_tasks.acquire(False):", "            if not self._unfinished_tasks.acquire():", 'R16.4'),
    ('task-done-never-notifies', _Q, "            if self._unfinished_tasks._semlock._is_zero():\n                self._cond.notify_all()", "            if not self._unfinished_tasks._semlock._is_zero():\n                self._cond.notify_all()", 'R16.4'),
    ('join-always-waits', _Q, "            if not self._unfinished_tasks._semlock._is_zero():\n                self._cond.wait()", "            self._cond.wait()", 'R16.4'),
    ('joinable-state-misordered', _Q, "        self._cond, self._unfinished_tasks = state[-2:]", "        self._unfinished_tasks, self._cond = state[-2:]", 'R16.5'),
    ('queue-state-drops-sem', _Q, "        return (self._ignore_epipe, self._maxsize, self._reader, self._writer,\n                self._rlock, self._wlock, self._sem, self._opid)", "        return (self._ignore_epipe, self._maxsize, self._reader, self._writer,\n                self._rlock, self._wlock, self._opid)", 'R16.5'),
]
TWINS = [
    ('credit-after-base-put', _Q, "    def put(self, obj, block=True, timeout=None):\n        assert not self._closed\n        if not self._sem.acquire(block, timeout):\n            raise Full\n\n        with self._notempty:\n            with self._cond:\n                if self._thread is None:\n                    self._start_thread()\n                self._buffer.append(obj)\n                self._unfinished_tasks.release()\n                self._notempty.notify()",
     "    def put(self, obj, block=True, timeout=None):\n        with self._cond:\n            Queue.put(self, obj, block, timeout)\n            self._unfinished_tasks.release()"),
    ('get-acquire-positive', _Q, "            if not self._rlock.acquire(block, timeout):\n                raise Empty\n            try:\n                if block:",
     "            got = self._rlock.acquire(block, timeout)\n            if not got:\n                raise Empty\n            try:\n                if block:"),
]
