"""C12 — exceptions and tracebacks cross the process boundary intact."""
import ast

from ..model import walk_own, dotted
from .. import q
from .poolfacts import WorkloopAnchors
from .reduce import r12_1


def r12_2(ctx):
    ctx.rule('R12.2', 'the copied traceback is bounded: the recursive copy is guarded by depth <= max_frames, passes '
                      'depth + 1 and the same bound, and ends the chain with the truncation marker otherwise', floor=4)
    m = ctx.model
    fi = m.func('einfo:Traceback.__init__')
    P = fi.positional_params()
    q.need(len(P) >= 4, 'Traceback.__init__ signature changed: %s' % P)
    tb, bound, depth = P[1], P[2], P[3]
    rec = [(n, c) for (n, c) in q.calls(fi, 'Traceback')]
    q.need(rec, 'Traceback.__init__ does not recurse')
    for (n, c) in rec:
        args = [ast.unparse(a) for a in c.args]
        ok = len(args) == 3 and args[0] == tb + '.tb_next' and args[1] == bound and \
            args[2].replace(' ', '') in (depth + '+1', '1+' + depth)
        ctx.ob('R12.2', 'Traceback:recursion-advances-depth-keeps-bound', ok, fi, c, 'Traceback(%s)' % ', '.join(args))
        g = q.guards_norm(fi, n)
        ok = ('%s < %s' % (bound, depth), False) in g or ('%s < %s' % (depth, bound), True) in g
        ctx.ob('R12.2', 'Traceback:recursion-only-within-bound', ok, fi, c,
               'guard depth <= max_frames (or <) in force')
        ok = ('%s.tb_next is None' % tb, False) in g
        ctx.ob('R12.2', 'Traceback:recursion-only-with-a-next-frame', ok, fi, c, 'guard tb.tb_next is not None')
    trunc = [(n, c) for (n, c) in q.calls(fi, '_Truncated')]
    ok = bool(trunc) and all(
        (('%s < %s' % (bound, depth), True) in q.guards_norm(fi, n) or
         ('%s < %s' % (depth, bound), False) in q.guards_norm(fi, n)) and
        isinstance(n.ast, ast.Assign) and ast.unparse(n.ast.targets[0]) == 'self.tb_next' for (n, c) in trunc)
    ctx.ob('R12.2', 'Traceback:beyond-bound-ends-with-marker', ok, fi, trunc[0][1] if trunc else None,
           'self.tb_next = _Truncated() in the other arm')
    d = fi.default_of(bound)
    dm = m.modules['einfo'].assigns.get('DEFAULT_MAX_FRAMES')
    ok = d is not None and ast.unparse(d) == 'DEFAULT_MAX_FRAMES' and dm is not None and \
        isinstance(dm, ast.BinOp) and isinstance(dm.op, (ast.FloorDiv, ast.Div)) and \
        ast.unparse(dm.left) == 'sys.getrecursionlimit()' and isinstance(dm.right, ast.Constant) and dm.right.value > 1
    ctx.ob('R12.2', 'DEFAULT_MAX_FRAMES:fraction-of-recursion-limit', ok, fi, dm,
           'default bound = sys.getrecursionlimit() // k, k > 1 (pickling the chain recurses once per frame)',
           line=getattr(dm, 'lineno', 0))
    d2 = fi.default_of(depth)
    ctx.ob('R12.2', 'Traceback:depth-starts-at-zero', isinstance(d2, ast.Constant) and d2.value == 0, fi, d2, 'depth=0')


def r12_3(ctx):
    ctx.rule('R12.3', 'a result that cannot be serialised is reported on the same job as an encoding error: every '
                      'handler of the try around the READY put attempts the fallback put, which is flagged as failure '
                      'and built from a MaybeEncodingError', floor=4)
    A = WorkloopAnchors(ctx)
    fi, cfg = A.fi, A.fi.cfg
    ready = A.puts['READY']
    main = [(n, c, p) for (n, c, p) in ready if not any(part == 'handler' for (tr, part, h) in q.enclosing_trys(fi, c))]
    fall = [(n, c, p) for (n, c, p) in ready if (n, c, p) not in main]
    q.need(main and fall, 'Worker.workloop: main / fallback READY puts not found')
    fall_ids = {n.id for (n, c, p) in fall}
    for (n, c, p) in main:
        trs = [tr for (tr, part, h) in q.enclosing_trys(fi, c) if part == 'body' and tr.handlers]
        q.need(trs, 'the READY put is not inside a try with handlers')
        tr = trs[0]
        ok = any(q.handler_catches(h, ['Exception']) and not q.handler_catches(h, ['SystemExit']) or
                 ast.unparse(h.type) == 'Exception' for h in tr.handlers if h.type is not None)
        ctx.ob('R12.3', 'workloop:serialisation-failure-caught', ok, fi, tr,
               'the try around put((READY, ...)) has an `except Exception` handler')
        for h in tr.handlers:
            hn = [x for x in cfg.of(h) if x.kind == 'except']
            body = {x.id for x in cfg.nodes if x.id in cfg.live and q.inside(fi, x, h.body)}
            r = set()
            for s in hn:
                r |= cfg.reach([s.id], block_nodes=fall_ids, skip_labels=('x',))
            escaped = [cfg.nodes[i] for i in r if i not in body or isinstance(cfg.nodes[i].ast, ast.Raise)]
            ctx.ob('R12.3', 'workloop:handler-%s-attempts-fallback' % (ast.unparse(h.type) if h.type else 'bare'),
                   not escaped, fi, escaped[0] if escaped else h,
                   'every path through the handler reaches the fallback put' if not escaped else
                   'a failure to serialise the result can leave through `%s` without a fallback result: the job is '
                   'lost (worker dies or job never resolves)' % escaped[0].text())
    for (n, c, p) in fall:
        flag = p[2] if len(p) > 2 else None
        ok = isinstance(flag, ast.Tuple) and len(flag.elts) == 2 and isinstance(flag.elts[0], ast.Constant) and \
            flag.elts[0].value is False
        ctx.ob('R12.3', 'workloop:fallback-is-a-failure', ok, fi, c, 'fallback result = %s' % (ast.unparse(flag) if flag else '?'))
        src = flag.elts[1] if ok else None
        built = False
        if isinstance(src, ast.Name):
            for (dn, t, v) in q.assigns(fi, src.id):
                if isinstance(v, ast.Call) and fi.callee(v) == 'ExceptionInfo' and 'MaybeEncodingError' in ast.unparse(v):
                    built = True
        ctx.ob('R12.3', 'workloop:fallback-carries-MaybeEncodingError', built, fi, c,
               'einfo = ExceptionInfo((MaybeEncodingError, wrapped, tb))')
        ok = len(p) >= 2 and ast.unparse(p[0]) == A.job and ast.unparse(p[1]) == A.part
        ctx.ob('R12.3', 'workloop:fallback-on-the-same-job', ok, fi, c, 'payload[0:2] = (%s, %s)' % (A.job, A.part))
    m = ctx.model
    me = m.cls('pool:MaybeEncodingError')
    init = me.methods['__init__']
    vals = {ast.unparse(t): ast.unparse(v) for (dn, t, v) in q.assigns(init, None) if v is not None}
    P = init.positional_params()
    ok = vals.get('self.exc') == 'repr(%s)' % P[1] and vals.get('self.value') == 'repr(%s)' % P[2]
    ctx.ob('R12.3', 'MaybeEncodingError:holds-only-reprs', ok, init, None,
           'stores repr(exc) and repr(value), so the error record itself always pickles')
    # what is pickled with the exception is its .args (the arguments of Exception.__init__): text only
    texts = {t for t, v in vals.items() if v.startswith('repr(') or v.startswith('str(')}
    sup = [c for c in walk_own(init.node) if isinstance(c, ast.Call) and isinstance(c.func, ast.Attribute)
           and c.func.attr == '__init__' and ast.unparse(c.func.value) in ('super()', 'Exception', 'super(MaybeEncodingError, self)')]
    q.need(sup, 'MaybeEncodingError.__init__ does not initialise Exception')
    for c in sup:
        bad = [ast.unparse(a) for a in c.args
               if not (ast.unparse(a) in texts or isinstance(a, ast.Constant) or
                       (isinstance(a, ast.Call) and ast.unparse(a.func) in ('repr', 'str')))
               and not (ast.unparse(a) == 'self' and ast.unparse(c.func.value) != 'super()')]
        ctx.ob('R12.3', 'MaybeEncodingError:args-are-text', not bad and not c.keywords, init, c,
               'Exception.__init__ gets only repr()/str() text' if not bad else
               'the raw object `%s` becomes part of .args and is pickled with the fallback result: when it cannot be '
               'pickled either, the fallback put fails and the worker dies' % bad[0])


def traceback_chain_pickled_whole(ctx, rule):
    """Traceback.__reduce__ hands the pickler the object's own state (its __dict__, or every attribute by name), so the
    link to the next entry travels as the object it is -- including the end-of-chain marker, which is not a
    Traceback.  A re-derived, type-filtered list of links drops the marker."""
    ctx.rule(rule, 'the pickled form of a traceback entry carries its own attributes, tb_next included, as they are',
             floor=1)
    m = ctx.model
    ci = m.cls('einfo:Traceback')
    rd = ci.methods.get('__reduce__')
    init = ci.methods['__init__']
    attrs = {ast.unparse(t).split('.', 1)[1] for (dn, t, v) in q.assigns(init, lambda t: t.startswith('self.'))}
    if rd is None:
        ctx.ob(rule, 'Traceback:default-pickling', True, init, None, 'no __reduce__: the instance __dict__ is pickled')
        return
    rets = [r for r in walk_own(rd.node) if isinstance(r, ast.Return) and r.value is not None]
    q.need(rets, 'Traceback.__reduce__ returns nothing')
    for r in rets:
        txt = ast.unparse(r.value)
        named = {x.attr for x in ast.walk(r.value) if isinstance(x, ast.Attribute) and isinstance(x.value, ast.Name)
                 and x.value.id == 'self'}
        ok = 'self.__dict__' in txt or attrs <= named
        ctx.ob(rule, 'Traceback.__reduce__:state-is-the-objects-own', ok, rd, r,
               'returns self.__dict__ / every attribute by name' if ok else
               'the state is rebuilt from a walk over the chain instead of the object\'s own attributes (%s not '
               'handed over as they are): what the walk filters out -- the truncation marker at the end of a deep '
               'traceback -- is lost on every round trip' % sorted(attrs - named))


def task_failure_record(ctx, rule):
    """The record of a task's own exception is made in the handler of the task call from the exception being handled,
    whole: ExceptionInfo() (= sys.exc_info()), or an explicit triple whose traceback is the exception's full
    traceback -- never a part of it (tb_next is None for a C-level callable: Traceback(None) kills the worker)."""
    ctx.rule(rule, 'the failure record of a task is built from the whole live exception in the handler of the task call',
             floor=1)
    A = WorkloopAnchors(ctx)
    fi = A.fi
    n_rec = 0
    for tn in A.task_nodes:
        for (tr, part, h) in q.enclosing_trys(fi, tn.ast):
            if part != 'body':
                continue
            for h_ in tr.handlers:
                for c in [x for st in h_.body for x in ast.walk(st) if isinstance(x, ast.Call)
                          and fi.callee(x) == 'ExceptionInfo']:
                    n_rec += 1
                    ok = not c.args and not c.keywords
                    why = 'ExceptionInfo() of the exception being handled'
                    if not ok and len(c.args) == 1 and isinstance(c.args[0], ast.Tuple) and len(c.args[0].elts) == 3:
                        tbx = ast.unparse(c.args[0].elts[2])
                        name = h_.name or '?'
                        ok = tbx in (name + '.__traceback__', 'sys.exc_info()[2]')
                        why = 'explicit triple with the full traceback `%s`' % tbx if ok else \
                            'the record is built from `%s`, a part of the traceback: it is None when the task is a ' \
                            'C-level callable (int, operator.*), and the worker dies building the record' % tbx
                    ctx.ob(rule, 'workloop:failure-record-from-the-whole-live-exception', ok, fi, c, why)
    q.need(n_rec >= 1, 'Worker.workloop: no ExceptionInfo in the handler of the task call')


def r12_4(ctx):
    ctx.rule('R12.4', 'the picklable stand-ins provide the attributes the standard traceback formatter reads', floor=4)
    m = ctx.model
    need = {
        'einfo:Traceback': ['tb_frame', 'tb_lineno', 'tb_lasti', 'tb_next'],
        'einfo:_Truncated': ['tb_frame', 'tb_lineno', 'tb_lasti', 'tb_next'],
        'einfo:_Frame': ['f_code', 'f_globals', 'f_locals', 'f_lineno', 'f_lasti', 'f_back'],
        'einfo:_Code': ['co_filename', 'co_name', 'co_firstlineno'],
    }
    for cq, attrs in sorted(need.items()):
        ci = m.cls(cq)
        missing = [a for a in attrs if not m.provides(ci, a)]
        ctx.ob('R12.4', '%s:formatter-attributes' % ci.name, not missing, ci, None,
               'assigns %s unconditionally' % attrs if not missing else 'missing: %s' % missing)
        if ci.name in ('Traceback', '_Truncated', '_Frame', '_Code'):
            cls_prop = ci.methods.get('__class__')
            ctx.ob('R12.4', '%s:poses-as-builtin-type' % ci.name, cls_prop is not None, ci, None,
                   '__class__ property returns the types.* class the formatter isinstance-checks')
    code = m.cls('einfo:_Code')
    ok = 'co_positions' in code.methods
    ctx.ob('R12.4', '_Code:co_positions', ok, code, None, 'co_positions available on 3.11+ (used by the formatter)')
    # the formatter indexes the positions table with the traceback entry's tb_lasti, which can lie beyond the
    # instruction the frame finally stopped at (a re-raise at the top of a retry loop): the table is copied whole
    ci_init = code.methods['__init__']
    cp = ci_init.positional_params()[1]
    tabs = [(dn, v) for (dn, t, v) in q.assigns(ci_init, 'self._co_positions') if v is not None]
    q.need(tabs, '_Code.__init__ does not copy the positions table')
    for (dn, v) in tabs:
        txt = q.expand(ci_init, v).replace(' ', '')
        ok = txt in ('list(%s.co_positions())' % cp, 'tuple(%s.co_positions())' % cp, '[*%s.co_positions()]' % cp)
        ctx.ob('R12.4', '_Code:positions-table-copied-whole', ok, ci_init, dn,
               'self._co_positions = list(code.co_positions())' if ok else
               'the positions table is cut (`%s`): traceback.format_tb looks entries up by tb_lasti and fails with '
               'RuntimeError when that lies beyond the cut' % ast.unparse(v))
    tr = m.func('einfo:_Truncated.__init__')
    objs = [c for c in walk_own(tr.node) if isinstance(c, ast.Call) and tr.callee(c) == '_Object']
    kws = set()
    for c in objs:
        kws |= {k.arg for k in c.keywords}
    ok = {'f_globals', 'f_code', 'co_filename', 'co_name'} <= kws
    ctx.ob('R12.4', '_Truncated:marker-frame-is-formattable', ok, tr, None, 'marker frame has f_globals, f_code(co_filename, co_name)')


def r12_5(ctx):
    ctx.rule('R12.5', 'ExceptionInfo keeps the original exception, the full formatted traceback text (of the real '
                      'traceback, unlimited) and the bounded picklable copy; the exception is re-raised with the '
                      'remote text as its cause', floor=5)
    m = ctx.model
    fi = m.func('einfo:ExceptionInfo.__init__')
    fmt = [c for (n, c) in q.calls(fi, 'traceback.format_exception')]
    unp = None
    for n in walk_own(fi.node):
        if isinstance(n, ast.Assign) and isinstance(n.targets[0], ast.Tuple) and len(n.targets[0].elts) == 3:
            unp = [ast.unparse(e) for e in n.targets[0].elts]
    q.need(unp is not None, 'ExceptionInfo.__init__ does not unpack (type, exception, tb)')
    for c in fmt:
        args = [ast.unparse(a) for a in c.args]
        ok = args == unp and not c.keywords
        ctx.ob('R12.5', 'ExceptionInfo:text-of-the-real-unlimited-traceback', ok, fi, c,
               'traceback.format_exception(%s%s)' % (', '.join(args), ''.join(', %s=%s' % (k.arg, ast.unparse(k.value)) for k in c.keywords)))
    vals = {ast.unparse(t): v for (dn, t, v) in q.assigns(fi, None) if v is not None}
    q.need('self.traceback' in vals, 'ExceptionInfo.__init__ does not store the traceback text')
    # whatever formatter is used, the text must be made from the traceback that was handed in (the third element of
    # exc_info): an exception that was never raised -- the encoding-error record -- has no __traceback__ of its own
    txt = ast.parse(q.expand(fi, vals['self.traceback']), mode='eval').body
    from_tb = any(isinstance(x, ast.Name) and x.id == unp[2] for x in ast.walk(txt))
    ctx.ob('R12.5', 'ExceptionInfo:text-made-from-the-given-traceback', from_tb, fi, vals['self.traceback'],
           'self.traceback is formatted from `%s`' % unp[2] if from_tb else
           'the text is no longer formatted from the traceback handed in (`%s`) but from the exception object: for a '
           'record built around an exception that was never raised (MaybeEncodingError) the text names no frame'
           % unp[2])
    ok = 'self.tb' in vals and ast.unparse(vals['self.tb']) == 'Traceback(%s)' % unp[2]
    ctx.ob('R12.5', 'ExceptionInfo:bounded-copy-with-default-limit', ok, fi, None, 'self.tb = Traceback(tb)')
    ok = 'self.exception' in vals and ast.unparse(vals['self.exception']) == 'ExceptionWithTraceback(%s, self.traceback)' % unp[1]
    ctx.ob('R12.5', 'ExceptionInfo:exception-wrapped-with-text', ok, fi, None, 'ExceptionWithTraceback(exception, self.traceback)')
    ok = 'self.traceback' in vals and (not fmt or ast.unparse(vals['self.traceback']).replace(' ', '').startswith("''.join(traceback.format_exception("))
    ctx.ob('R12.5', 'ExceptionInfo:text-is-joined-lines', ok, fi, None, "''.join(format_exception(...))")
    rb = m.func('einfo:rebuild_exc')
    P = rb.positional_params()
    ok = any(isinstance(n, ast.Assign) and ast.unparse(n.targets[0]) == P[0] + '.__cause__' and
             ast.unparse(n.value) == 'RemoteTraceback(%s)' % P[1] for n in walk_own(rb.node)) and \
        any(isinstance(n, ast.Return) and ast.unparse(n.value) == P[0] for n in walk_own(rb.node))
    ctx.ob('R12.5', 'rebuild_exc:original-exception-with-remote-cause', ok, rb, None,
           'exc.__cause__ = RemoteTraceback(tb); return exc')
    get = m.func('pool:ApplyResult.get')
    rz = [n for n in get.cfg.where(lambda n: n.kind == 'stmt' and isinstance(n.ast, ast.Raise))
          if n.ast.exc is not None and 'exception' in ast.unparse(n.ast.exc)]
    ok = bool(rz) and all(ast.unparse(n.ast.exc) == 'self._value.exception' and
                          q.has_guard(get, n, 'self._success', False) for n in rz)
    ctx.ob('R12.5', 'ApplyResult.get:raises-the-transported-exception', ok, get, rz[0] if rz else None,
           'raise self._value.exception only when not successful')



def r12_10(ctx):
    ctx.rule('R12.10', 'the failure record keeps the exception object it was given: the value taken out of the exc_info '
                       'triple is what is formatted and what is stored, never a re-made instance', floor=1)
    m = ctx.model
    fi = m.func('einfo:ExceptionInfo.__init__')
    unp = [n for n in walk_own(fi.node) if isinstance(n, ast.Assign) and isinstance(n.targets[0], ast.Tuple)
           and len(n.targets[0].elts) == 3 and 'exc_info' in ast.unparse(n.value)]
    q.need(unp, 'ExceptionInfo.__init__: unpacking of the exc_info triple not found')
    ex = unp[0].targets[0].elts[1]
    q.need(isinstance(ex, ast.Name), 'ExceptionInfo.__init__: the exception is not bound to a local')
    defs = [(dn, v) for (dn, t, v) in q.assigns(fi, ex.id)]
    extra = [(dn, v) for (dn, v) in defs if dn.ast is not unp[0]]
    ctx.ob('R12.10', 'ExceptionInfo.__init__:exception-object-as-given', not extra, fi, extra[0][0] if extra else unp[0],
           '`%s` is bound once, by unpacking the triple' % ex.id if not extra else
           '`%s` is re-made (`%s`): arguments and attributes of the original exception are lost, and a constructor that '
           'does not accept them raises inside the worker\'s error path' % (ex.id, ast.unparse(extra[0][1] or extra[0][0].ast)[:70]))



def r12_11(ctx):
    ctx.rule('R12.11', 'the picklable stand-ins answer only for the attributes they have: a catch-all __getattr__ also '
                       'answers pickle\'s own probes (__setstate__, __reduce_ex__, __getstate__ on a half-built '
                       'instance) and the record can no longer be loaded', floor=4)
    m = ctx.model
    for qn, ci in sorted(m.classes.items()):
        if ci.module.name != 'einfo':
            continue
        hook = ci.methods.get('__getattr__') or ci.methods.get('__getattribute__')
        ok = True
        why = 'no attribute hook'
        if hook is not None:
            # acceptable only if it raises AttributeError for every name it does not know: every normal exit is a
            # return under a test that mentions the name parameter
            P = hook.positional_params()
            name = P[1] if len(P) > 1 else '?'
            rets = [n for n in hook.cfg.where(lambda n: n.kind == 'stmt' and isinstance(n.ast, ast.Return))]
            falls = [a for (a, l) in hook.cfg.pred[hook.cfg.exit.id] if l != 'x' and a in hook.cfg.live and
                     not isinstance(hook.cfg.nodes[a].ast, ast.Return)]
            ok = not falls and all(any(name in t and p and ('==' in t or ' in ' in t or '.startswith(' in t)
                                       for (t, p) in q.guards_norm(hook, r)) for r in rets)
            why = '__getattr__ returns only for names it tests for' if ok else \
                '%s.%s answers for any name: pickle finds a "__setstate__" that is None (or a value) on the fresh ' \
                'instance and loading the record fails in the parent\'s result thread' % (ci.name, hook.name)
        ctx.ob('R12.11', '%s:no-catch-all-attribute-hook' % ci.name, ok, hook if hook is not None else ci, None, why)



def r12_12(ctx):
    ctx.rule('R12.12', 'building a failure record is bounded: a stand-in that builds another of its own kind does so '
                       'under a depth test against a limit (the copied frame chain does); a record that nests records '
                       'for the whole cause / context chain has no bound and dies of recursion in the worker\'s error '
                       'path', floor=1)
    m = ctx.model
    n_ = 0
    for qn, ci in sorted(m.classes.items()):
        if ci.module.name != 'einfo':
            continue
        init = ci.methods.get('__init__')
        if init is None:
            continue
        for (n, c) in q.calls(init, ci.name):
            n_ += 1
            g = [t for (t, p) in q.guards_norm(init, n)]
            bounded = any(('depth' in t or 'level' in t) and ('<' in t or '>' in t) for t in g)
            ctx.ob('R12.12', '%s.__init__:self-nesting-is-bounded' % ci.name, bounded, init, c,
                   'nested %s(...) under a depth test: %s' % (ci.name, g) if bounded else
                   '%s.__init__ builds another %s without a depth bound' % (ci.name, ci.name))
    q.need(n_ >= 1, 'no self-nesting stand-in found (the frame chain copy)')


def run(ctx):
    r12_12(ctx)
    r12_11(ctx)
    r12_10(ctx)
    r12_1(ctx, modules=('einfo', 'pool'), floor=6)
    r12_2(ctx)
    r12_3(ctx)
    r12_4(ctx)
    r12_5(ctx)
    task_failure_record(ctx, 'R12.8')
    traceback_chain_pickled_whole(ctx, 'R12.9')
    # any exception a task raises reaches the caller as its record: the handler of the task call lets through only
    # the SystemExit of the termination handler, and the result hook runs inside that try
    from .c03 import r03_2b
    ctx.rule('R03.2', 'every exception of the task (and of the result hook) becomes the job\'s result; only the '
                      'termination handler\'s own SystemExit is re-raised', floor=3)
    r03_2b(ctx, WorkloopAnchors(ctx))
    # every frame / code stand-in mirrors the very object it was made from: no stand-in is shared between two
    # different code objects through a table keyed by less than the object, or through class-level state
    from .generic import memo_key_covers_inputs, per_instance_state
    memo_key_covers_inputs(ctx, 'R12.6', ['einfo'], floor=0, witness=['managers'])
    per_instance_state(ctx, 'R12.7', ['einfo'], floor=0, witness=['pool'])


_E ='billiard/einfo.py'
_P = 'billiard/pool.py'
MUTANTS = [
    ('record-nests-a-record-per-cause', 'billiard/einfo.py', "        self.exception = ExceptionWithTraceback(exception, self.traceback)\n", "        self.exception = ExceptionWithTraceback(exception, self.traceback)\n        cause = getattr(exception, '__cause__', None)\n        if cause is not None and cause.__traceback__ is not None:\n            self.cause = ExceptionInfo((type(cause), cause, cause.__traceback__), internal)\n", 'R12.12'),
    ('stand-in-answers-none-for-everything', 'billiard/einfo.py', "class _Object:\n\n    def __init__(self, **kw):\n        [setattr(self, k, v) for k, v in kw.items()]\n", "class _Object:\n\n    def __init__(self, **kw):\n        [setattr(self, k, v) for k, v in kw.items()]\n\n    def __getattr__(self, name):\n        return None\n", 'R12.11'),
    ('record-remakes-the-exception', 'billiard/einfo.py', "        self.type, exception, tb = exc_info or sys.exc_info()\n", "        self.type, exception, tb = exc_info or sys.exc_info()\n        if not isinstance(exception, Exception):\n            exception = self.type(exception)\n", 'R12.10'),
    ('failure-record-without-the-outer-frame', _P, "                        result = (False, ExceptionInfo())\n",
     "                        result = (False, ExceptionInfo((type(exc), exc, exc.__traceback__.tb_next)))\n", 'R12.8'),
    ('positions-table-cut-at-f_lasti', _E, "            self._co_positions = list(code.co_positions())\n",
     "            self._co_positions = list(code.co_positions())[:len(code.co_code) // 4]\n", 'R12.4'),
    ('text-formatted-from-the-exception-object', _E, "                traceback.format_exception(self.type, exception, tb),\n",
     "                traceback.TracebackException.from_exception(exception).format(),\n", 'R12.5'),
    ('code-stand-ins-cached-by-name', _E, "        self.f_code = self.Code(frame.f_code)\n",
     "        key = (frame.f_code.co_filename, frame.f_code.co_name)\n        if key not in _Frame._codes:\n            _Frame._codes[key] = self.Code(frame.f_code)\n        self.f_code = _Frame._codes[key]\n", 'R12.6'),
    ('encoding-error-args-hold-the-raw-error', _P, "        super().__init__(self.exc, self.value)", "        super().__init__(exc, self.value)", 'R12.3'),
    ('encoding-error-args-hold-the-raw-value', _P, "        super().__init__(self.exc, self.value)", "        super().__init__(self.exc, value)", 'R12.3'),
    ('reduce-swapped', _E, "        return rebuild_exc, (self.exc, self.tb)", "        return rebuild_exc, (self.tb, self.exc)", 'R12.1'),
    ('reduce-drops-tb', _E, "        return rebuild_exc, (self.exc, self.tb)", "        return rebuild_exc, (self.exc,)", 'R12.1'),
    ('frame-rebuilds-as-code', _E, "        return _Frame.__new__, (_Frame,), self.__dict__", "        return _Code.__new__, (_Code,), self.__dict__", 'R12.1'),
    ('traceback-drops-state', _E, "        return Traceback.__new__, (Traceback,), self.__dict__", "        return Traceback.__new__, (Traceback,)", 'R12.1'),
    ('worker-reduce-misordered', _P, "            self.inq, self.outq, self.synq, self.initializer,\n            self.initargs, self.maxtasks,",
     "            self.inq, self.outq, self.synq, self.initargs,\n            self.initializer, self.maxtasks,", 'R12.1'),
    ('unbounded-recursion', _E, "            if depth <= max_frames:\n                self.tb_next = Traceback(tb.tb_next, max_frames, depth + 1)\n            else:\n                self.tb_next = _Truncated()",
     "            self.tb_next = Traceback(tb.tb_next, max_frames, depth + 1)", 'R12.2'),
    ('depth-not-advanced', _E, "Traceback(tb.tb_next, max_frames, depth + 1)", "Traceback(tb.tb_next, max_frames, depth)", 'R12.2'),
    ('bound-inverted', _E, "            if depth <= max_frames:", "            if depth >= max_frames:", 'R12.2'),
    ('limit-is-recursion-limit', _E, "DEFAULT_MAX_FRAMES = sys.getrecursionlimit() // 8", "DEFAULT_MAX_FRAMES = sys.getrecursionlimit()", 'R12.2'),
    ('oserror-escapes-fallback', _P, "                    except Exception as exc:\n                        _, _, tb = sys.exc_info()",
     "                    except IOError:\n                        raise\n                    except Exception as exc:\n                        _, _, tb = sys.exc_info()", 'R12.3'),
    ('fallback-only-typeerror', _P, "                    except Exception as exc:\n                        _, _, tb = sys.exc_info()",
     "                    except TypeError as exc:\n                        _, _, tb = sys.exc_info()", 'R12.3'),
    ('fallback-success', _P, "put((READY, (job, i, (False, einfo), inqW_fd)))", "put((READY, (job, i, (True, einfo), inqW_fd)))", 'R12.3'),
    ('encoding-error-holds-object', _P, "        self.value = repr(value)\n        super().__init__(self.exc, self.value)", "        self.value = value\n        super().__init__(self.exc, self.value)", 'R12.3'),
    ('truncated-no-lasti', _E, "        self.tb_next = None\n        self.tb_lasti = 0\n", "        self.tb_next = None\n", 'R12.4'),
    ('frame-no-globals', _E, "        self.f_globals = {\n            \"__file__\": frame.f_globals.get(\"__file__\", \"__main__\"),\n            \"__name__\": frame.f_globals.get(\"__name__\"),\n            \"__loader__\": None,\n        }\n", "", 'R12.4'),
    ('text-limited', _E, "traceback.format_exception(self.type, exception, tb),", "traceback.format_exception(self.type, exception, tb, limit=DEFAULT_MAX_FRAMES),", 'R12.5'),
    ('text-of-the-copy', _E, "traceback.format_exception(self.type, exception, tb),", "traceback.format_exception(self.type, exception, self.tb),", 'R12.5'),
    ('cause-dropped', _E, "    exc.__cause__ = RemoteTraceback(tb)\n    return exc", "    return exc", 'R12.5'),
    ('get-raises-on-success', _P, "        if self._success:\n            return self._value\n        else:\n            raise self._value.exception",
     "        if not self._success:\n            return self._value\n        else:\n            raise self._value.exception", 'R12.5'),
]
TWINS = [
    ('encoding-error-args-repr-inline', _P, "        super().__init__(self.exc, self.value)", "        super().__init__(repr(exc), self.value)"),
    ('bound-lt', _E, "            if depth <= max_frames:", "            if depth < max_frames:"),
    ('bound-flipped', _E, "            if depth <= max_frames:", "            if max_frames >= depth:"),
    ('reduce-type-self', _P, "        return self.__class__, (\n            self.inq,", "        return type(self), (\n            self.inq,"),
]
