"""C18 — connection authentication is mutual and exact."""
import ast

from ..model import walk_own, dotted
from .. import q


def _completed_before(fi, target_nodes, call_nodes, block_edges=()):
    """every path ENTRY -> target passes a completed call (given the blocked edges)"""
    cfg = fi.cfg
    through = {n.id for n in call_nodes}
    r = cfg.reach([cfg.entry.id], completed=through, block_edges=block_edges, include_src=True)
    return bool(call_nodes) and not any(t.id in r and t.id not in through for t in target_nodes)


def r18_1(ctx):
    ctx.rule('R18.1', 'a connection is handed over only after both directions of the challenge-response completed; the '
                      'listener delivers first and the client answers first (mirror images); the manager server '
                      'authenticates before it reads the request', floor=7)
    m = ctx.model
    la = m.func('connection:Listener.accept')
    cfg = la.cfg
    nokey = q.outcome_edges(la, 'self._authkey', False) | q.outcome_edges(la, 'self._authkey is None', True)
    rets = [n for n in cfg.where(lambda n: isinstance(n.ast, ast.Return))]
    q.need(rets, 'Listener.accept returns nothing')
    conn = ast.unparse(rets[0].ast.value)
    dl = [(n, c) for (n, c) in q.calls(la, 'deliver_challenge')]
    an = [(n, c) for (n, c) in q.calls(la, 'answer_challenge')]
    for key, calls_ in (('deliver', dl), ('answer', an)):
        ok = _completed_before(la, rets, [n for (n, c) in calls_], nokey) and \
            all([ast.unparse(a) for a in c.args] == [conn, 'self._authkey'] for (n, c) in calls_)
        ctx.ob('R18.1', 'Listener.accept:%s-completed-before-hand-over' % key, ok, la, rets[0],
               '%s_challenge(%s, self._authkey) completes on every keyed path to `return %s`' % (key, conn, conn))
    ok = bool(dl) and bool(an) and _completed_before(la, [n for (n, c) in an], [n for (n, c) in dl], nokey)
    ctx.ob('R18.1', 'Listener.accept:delivers-first', ok, la, None, 'deliver_challenge before answer_challenge')
    acc = [(n, c) for (n, c) in q.calls(la, 'self._listener.accept')]
    ok = bool(acc) and isinstance(acc[0][0].ast, ast.Assign) and ast.unparse(acc[0][0].ast.targets[0]) == conn
    ctx.ob('R18.1', 'Listener.accept:authenticates-the-accepted-connection', ok, la, None, '%s = self._listener.accept()' % conn)
    cl = m.func('connection:Client')
    cfg = cl.cfg
    K = 'authkey'
    nokey = q.outcome_edges(cl, K + ' is None', True) | q.outcome_edges(cl, K, False)
    rets = [n for n in cfg.where(lambda n: isinstance(n.ast, ast.Return))]
    conn = ast.unparse(rets[0].ast.value)
    dl = [(n, c) for (n, c) in q.calls(cl, 'deliver_challenge')]
    an = [(n, c) for (n, c) in q.calls(cl, 'answer_challenge')]
    for key, calls_ in (('deliver', dl), ('answer', an)):
        ok = _completed_before(cl, rets, [n for (n, c) in calls_], nokey) and \
            all([ast.unparse(a) for a in c.args] == [conn, K] for (n, c) in calls_)
        ctx.ob('R18.1', 'Client:%s-completed-before-hand-over' % key, ok, cl, rets[0],
               '%s_challenge(%s, authkey) completes on every keyed path to `return %s`' % (key, conn, conn))
    ok = bool(dl) and bool(an) and _completed_before(cl, [n for (n, c) in dl], [n for (n, c) in an], nokey)
    ctx.ob('R18.1', 'Client:answers-first', ok, cl, None, 'answer_challenge before deliver_challenge (mirror of the listener)')
    hr = m.func('managers:Server.handle_request')
    C = hr.positional_params()[1]
    recv = [n for (n, c) in q.calls(hr, C + '.recv')]
    dl = [(n, c) for (n, c) in q.calls(hr, 'connection.deliver_challenge')]
    an = [(n, c) for (n, c) in q.calls(hr, 'connection.answer_challenge')]
    ok = bool(recv) and _completed_before(hr, recv, [n for (n, c) in dl]) and _completed_before(hr, recv, [n for (n, c) in an]) \
        and all([ast.unparse(a) for a in c.args] == [C, 'self.authkey'] for (n, c) in dl + an) and \
        _completed_before(hr, [n for (n, c) in an], [n for (n, c) in dl])
    ctx.ob('R18.1', 'Server.handle_request:authenticated-before-request-is-read', ok, hr, recv[0] if recv else None,
           'deliver_challenge(c, self.authkey); answer_challenge(c, self.authkey); request = c.recv()')
    # a failed handshake must not reach the dispatch of the request
    fcalls = [n for (n, c) in q.calls(hr, None) if hr.callee(c) == 'func']
    ok = bool(fcalls) and all(_completed_before(hr, [f], [n for (n, c) in an]) for f in fcalls)
    ctx.ob('R18.1', 'Server.handle_request:no-dispatch-without-authentication', ok, hr, fcalls[0] if fcalls else None,
           'func(c, ...) is reachable only after the handshake completed')


class _Mac:
    """One keyed-digest computation as seen from a challenge function: directly (hmac.new(key, msg, alg)) or through a
    module-level helper whose body is such a computation (one level)."""

    def __init__(self, node, call, key, msg, alg, whole_key, gives_bytes, how):
        self.node, self.call, self.key, self.msg, self.alg = node, call, key, msg, alg
        self.whole_key, self.gives_bytes, self.how = whole_key, gives_bytes, how


def _primitive(fi, c):
    """(key expr, msg expr, algorithm text) if c is a keyed-digest primitive"""
    cal = fi.callee(c)
    if cal in ('hmac.new', 'hmac.HMAC', 'hmac.digest'):
        kw = {k.arg: k.value for k in c.keywords}
        key = c.args[0] if c.args else kw.get('key')
        msg = c.args[1] if len(c.args) > 1 else kw.get('msg')
        alg = c.args[2] if len(c.args) > 2 else kw.get('digestmod', kw.get('digest'))
        return key, msg, 'hmac/' + (ast.unparse(alg) if alg is not None else '?')
    if cal.split('.')[-1] in ('blake2b', 'blake2s'):
        kw = {k.arg: k.value for k in c.keywords}
        if 'key' in kw:
            return kw['key'], (c.args[0] if c.args else kw.get('data')), cal.split('.')[-1]
    return None


def _mac_sites(m, fi):
    out = []
    for (n, c) in q.calls(fi, None):
        p = _primitive(fi, c)
        if p is not None and p[0] is not None and p[1] is not None:
            # bytes iff the enclosing expression takes .digest() of it (hmac.digest returns bytes itself)
            out.append(_Mac(n, c, p[0], p[1], p[2], True, None, 'direct'))
            continue
        g = m.resolve_func(fi.callee(c), fi.module) if '.' not in fi.callee(c) else None
        if g is None or g is fi:
            continue
        inner = [(x, _primitive(g, x)) for x in walk_own(g.node) if isinstance(x, ast.Call)]
        inner = [(x, p_) for (x, p_) in inner if p_ is not None and p_[0] is not None and p_[1] is not None]
        if len(inner) != 1:
            continue
        x, (k, msg, alg) = inner[0]
        P = g.positional_params()
        actual = {}
        for i, a in enumerate(c.args):
            if i < len(P):
                actual[P[i]] = a
        for kw_ in c.keywords:
            if kw_.arg:
                actual[kw_.arg] = kw_.value
        whole = isinstance(k, ast.Name) and k.id in actual and g.assigned_names().get(k.id, 0) == 0
        key_names = [y.id for y in ast.walk(k) if isinstance(y, ast.Name) and y.id in actual]
        msg_ok = isinstance(msg, ast.Name) and msg.id in actual and g.assigned_names().get(msg.id, 0) == 0
        rets = [r for r in walk_own(g.node) if isinstance(r, ast.Return) and r.value is not None]
        gives = bool(rets) and all(any(y is x for y in ast.walk(r.value)) and
                                   (ast.unparse(r.value).endswith('.digest()') or g.callee(x) == 'hmac.digest')
                                   for r in rets)
        if not key_names or not msg_ok:
            continue
        out.append(_Mac(n, c, actual[key_names[0]], actual[msg.id], alg, whole, gives,
                        'via %s(): key reaches the primitive as `%s`' % (g.name, ast.unparse(k))))
    return out


def r18_2(ctx):
    ctx.rule('R18.2', 'fresh challenge per call from os.urandom, digest = HMAC(key, that challenge), welcome only when '
                      'the response equals the digest (else failure + AuthenticationError); the answerer strips exactly '
                      'the prefix, uses the same key/algorithm structure and fails unless welcomed', floor=10)
    m = ctx.model
    mi = m.modules['connection']
    dc = m.func('connection:deliver_challenge')
    cfg = dc.cfg
    conn, key = dc.positional_params()[:2]
    ctx.ob('R18.2', 'deliver_challenge:takes-connection-and-key-only', len(dc.params) == 2, dc, None,
           'no parameter can carry a precomputed challenge: %s' % dc.params)
    # the handshake keeps nothing between calls: a digest helper that remembers a keyed object (or anything else) in
    # module globals lets one key's state answer for another key when two threads authenticate at once
    seen, todo = {}, [(dc, 0), (m.func('connection:answer_challenge'), 0)]
    while todo:
        f, d = todo.pop()
        if f.qual in seen or d > 3:
            continue
        seen[f.qual] = f
        for c_ in [x for x in walk_own(f.node) if isinstance(x, ast.Call)]:
            cal = f.callee(c_)
            g_ = m.resolve_func(cal, f.module) if cal and '.' not in cal else None
            if g_ is not None and g_.module is f.module:
                todo.append((g_, d + 1))
    stateful = [(f, n) for f in seen.values() for n in walk_own(f.node) if isinstance(n, (ast.Global, ast.Nonlocal))]
    ctx.ob('R18.2', 'handshake:keeps-no-state-between-calls', not stateful, stateful[0][0] if stateful else dc,
           stateful[0][1] if stateful else None,
           'no function of the handshake (%d looked at) writes a module global' % len(seen) if not stateful else
           '%s keeps state in module globals (%s): with two keys in use at once one key\'s remembered object can be '
           'published under the other key, and from then on that key authenticates the wrong peers'
           % (stateful[0][0].qual, ', '.join(stateful[0][1].names)))
    macs = _mac_sites(m, dc)
    q.need(macs, 'deliver_challenge computes no keyed digest (hmac.new / keyed hash, directly or through a helper)')
    M1 = macs[0]
    hm = [(M1.node, M1.call)]
    msg = M1.msg
    ok = isinstance(msg, ast.Name) and ast.unparse(M1.key) == key and M1.whole_key
    ctx.ob('R18.2', 'deliver_challenge:digest-keyed-with-authkey', ok, dc, M1.call,
           '%s (%s)' % (ast.unparse(M1.call), M1.how) if ok else
           'the digest is not keyed with the whole key: %s (%s) -- keys that differ only in the part that is dropped '
           'authenticate each other' % (ast.unparse(M1.call), M1.how))
    mname = msg.id if isinstance(msg, ast.Name) else '?'
    defs = [(dn, v) for (dn, t, v) in q.assigns(dc, mname)]
    ml = mi.consts.get('MESSAGE_LENGTH')
    ok = mname not in dc.params and len(defs) == 1 and isinstance(defs[0][1], ast.Call) and \
        dc.callee(defs[0][1]) == 'os.urandom' and len(defs[0][1].args) == 1 and \
        ((isinstance(defs[0][1].args[0], ast.Name) and defs[0][1].args[0].id == 'MESSAGE_LENGTH' and
          isinstance(ml, int) and ml >= 16) or
         (isinstance(defs[0][1].args[0], ast.Constant) and isinstance(defs[0][1].args[0].value, int)
          and defs[0][1].args[0].value >= 16))
    ctx.ob('R18.2', 'deliver_challenge:fresh-random-challenge-per-call', ok, dc, defs[0][0] if defs else None,
           '%s = os.urandom(MESSAGE_LENGTH=%r) assigned in the body on every call (not a default argument, not a constant)'
           % (mname, ml))
    sends = [(n, c) for (n, c) in q.calls(dc, conn + '.send_bytes')]
    ch = [(n, c) for (n, c) in sends if ast.unparse(c.args[0]).replace(' ', '') == 'CHALLENGE+' + mname]
    ok = len(ch) == 1 and bool(defs) and cfg.dominated_by(ch[0][0], [defs[0][0]])[0]
    ctx.ob('R18.2', 'deliver_challenge:sends-prefix-plus-that-challenge', ok, dc, ch[0][1] if ch else None,
           'connection.send_bytes(CHALLENGE + %s)' % mname)
    dig = [(dn, v) for (dn, t, v) in q.assigns(dc, None) if v is not None and any(x is hm[0][1] for x in ast.walk(v))]
    dname = ast.unparse(dig[0][0].ast.targets[0]) if dig else '?'
    ok = bool(dig) and (ast.unparse(dig[0][1]).endswith('.digest()') if M1.gives_bytes is None else
                        (M1.gives_bytes and dig[0][1] is M1.call))
    ctx.ob('R18.2', 'deliver_challenge:digest-bytes', ok, dc, None, '%s = <keyed digest>.digest()' % dname)
    rv = [(n, c) for (n, c) in q.calls(dc, conn + '.recv_bytes')]
    rname = ast.unparse(rv[0][0].ast.targets[0]) if rv and isinstance(rv[0][0].ast, ast.Assign) else \
        dc.canon(rv[0][1]) if rv and rv[0][0].kind == 'test' else '?'      # ... or compared where it is read
    eq = (q.eq_text(rname, dname), 'hmac.compare_digest(%s, %s)' % (rname, dname), 'hmac.compare_digest(%s, %s)' % (dname, rname))
    wel = [(n, c) for (n, c) in sends if ast.unparse(c.args[0]) == 'WELCOME']
    fai = [(n, c) for (n, c) in sends if ast.unparse(c.args[0]) == 'FAILURE']
    ok = len(wel) >= 1 and all(q.has_guard(dc, n, eq, True) for (n, c) in wel)
    # the verdict computed once and sent with one call: accepted = <eq>; send_bytes(WELCOME if accepted else FAILURE);
    # if not accepted: raise AuthenticationError
    one_call = None
    for (n, c) in sends:
        a0 = c.args[0] if c.args else None
        if isinstance(a0, ast.IfExp) and ast.unparse(a0.body) == 'WELCOME' and ast.unparse(a0.orelse) == 'FAILURE':
            t = a0.test
            tdefs = [d for (dn, t_, d) in q.assigns(dc, t.id)] if isinstance(t, ast.Name) else [t]
            if len(tdefs) == 1 and tdefs[0] is not None and q.norm_guard(dc, tdefs[0], True) in [(e, True) for e in eq[:1]] + \
                    [(q.eq_text(dname, rname), True)]:
                one_call = (n, c, q.norm_guard(dc, t, True)[0])
    if one_call is not None and not wel:
        ok = True
        wel = [(one_call[0], one_call[1])]
    ctx.ob('R18.2', 'deliver_challenge:welcome-only-for-the-exact-digest', ok, dc, wel[0][1] if wel else None,
           'send WELCOME only under %s == %s (whole-value equality)' % (rname, dname))
    wrong = q.outcome_edges(dc, eq, False)
    rz = [n for n in cfg.where(lambda n: isinstance(n.ast, ast.Raise) and 'AuthenticationError' in ast.unparse(n.ast))]
    ok = bool(wrong) and bool(fai) and bool(rz)
    if ok:
        r = cfg.reach([b for (a, b, l) in wrong], block_nodes={n.id for n in rz}, include_src=True, skip_labels=('x',))
        ok = cfg.exit.id not in r
        r2 = cfg.reach([b for (a, b, l) in wrong], block_nodes={n.id for (n, c) in fai}, include_src=True, skip_labels=('x',))
        ok = ok and not any(n.id in r2 for n in rz) and not any(n.id in cfg.reach([b for (a, b, l) in wrong], include_src=True) for (n, c) in wel)
    if one_call is not None and not fai:
        # refused: the raise is reached exactly when the verdict is false, after the (single) send
        acc = one_call[2]
        ok = bool(rz) and all(q.has_guard(dc, n, acc, False) for n in rz) and \
            all(cfg.dominated_by(n, [one_call[0]])[0] for n in rz)
        if ok:
            r = cfg.reach([b for (a, b, l) in q.outcome_edges(dc, acc, False)], block_nodes={n.id for n in rz},
                          include_src=True, skip_labels=('x',))
            ok = cfg.exit.id not in r
    ctx.ob('R18.2', 'deliver_challenge:wrong-digest-is-refused', ok, dc, None,
           'on any other response: send FAILURE, raise AuthenticationError, never WELCOME')
    ac = m.func('connection:answer_challenge')
    cfg2 = ac.cfg
    conn2, key2 = ac.positional_params()[:2]
    macs2 = _mac_sites(m, ac)
    q.need(macs2, 'answer_challenge computes no keyed digest')
    M2 = macs2[0]
    hm2 = [(M2.node, M2.call)]
    a1, a2 = M1.call, M2.call
    alg1, alg2 = M1.alg, M2.alg
    ok = ast.unparse(M2.key) == key2 and M2.whole_key and alg1 == alg2 and \
        (M1.how == 'direct') == (M2.how == 'direct') and \
        (M1.how == 'direct' or ac.callee(a2) == dc.callee(a1))
    ctx.ob('R18.2', 'answer_challenge:same-key-and-algorithm-structure', ok, ac, a2,
           'deliverer %s over (%s, <challenge>) / answerer %s (%s)' % (alg1, key, ast.unparse(a2), M2.how))
    m2 = M2.msg
    m2n = m2.id if isinstance(m2, ast.Name) else '?'
    mdefs = [(dn, v) for (dn, t, v) in q.assigns(ac, m2n)]
    strip = [(dn, v) for (dn, v) in mdefs if ast.unparse(v).replace(' ', '') == '%s[len(CHALLENGE):]' % m2n]
    recvd = [(dn, v) for (dn, v) in mdefs if isinstance(v, ast.Call) and ac.callee(v) == conn2 + '.recv_bytes']
    ok = len(mdefs) == 2 and len(strip) == 1 and len(recvd) == 1 and \
        cfg2.dominated_by(hm2[0][0], [strip[0][0]])[0] and cfg2.dominated_by(strip[0][0], [recvd[0][0]])[0]
    ctx.ob('R18.2', 'answer_challenge:strips-exactly-the-prefix', ok, ac, strip[0][0] if strip else None,
           '%s = %s[len(CHALLENGE):] (the challenge bytes themselves are never altered)' % (m2n, m2n))
    pre = [n for n in cfg2.where(lambda n: n.kind == 'stmt' and isinstance(n.ast, ast.Assert)
                                 and ast.unparse(n.ast.test).replace(' ', '') in (
                                     '%s[:len(CHALLENGE)]==CHALLENGE' % m2n, '%s.startswith(CHALLENGE)' % m2n))]
    pre += [t for t in cfg2.where(lambda t: t.kind == 'test') if
            ac.canon(t.ast).replace(' ', '') in ('%s[:len(CHALLENGE)]==CHALLENGE' % m2n, '%s.startswith(CHALLENGE)' % m2n)]
    ok = bool(pre) and bool(strip) and cfg2.dominated_by(strip[0][0], pre)[0]
    ctx.ob('R18.2', 'answer_challenge:checks-the-prefix', ok, ac, pre[0] if pre else None, 'message[:len(CHALLENGE)] == CHALLENGE')
    snd = [(n, c) for (n, c) in q.calls(ac, conn2 + '.send_bytes')]
    d2 = [(dn, v) for (dn, t, v) in q.assigns(ac, None) if v is not None and any(x is a2 for x in ast.walk(v))]
    d2n = ast.unparse(d2[0][0].ast.targets[0]) if d2 else '?'
    ok = len(snd) == 1 and (ast.unparse(snd[0][1].args[0]) == d2n or
                            # ... or the digest expression itself is the argument
                            any(x is a2 for x in ast.walk(snd[0][1].args[0])))
    if ok and not d2:
        d2n = ast.unparse(snd[0][1].args[0])
    ctx.ob('R18.2', 'answer_challenge:sends-the-digest', ok, ac, snd[0][1] if snd else None, 'connection.send_bytes(%s)' % d2n)
    rz2 = [n for n in cfg2.where(lambda n: isinstance(n.ast, ast.Raise) and 'AuthenticationError' in ast.unparse(n.ast))]
    rv2 = sorted([(n, c) for (n, c) in q.calls(ac, conn2 + '.recv_bytes')], key=lambda x: x[1].lineno)
    r2n = ast.unparse(rv2[-1][0].ast.targets[0]) if rv2 and isinstance(rv2[-1][0].ast, ast.Assign) else \
        ac.canon(rv2[-1][1]) if rv2 else '?'        # the verdict compared where it is read
    welcomed = q.outcome_edges(ac, q.eq_text(r2n, 'WELCOME'), True)
    refused = q.outcome_edges(ac, q.eq_text(r2n, 'WELCOME'), False)
    ok = bool(rz2) and bool(refused) and all(q.has_guard(ac, n, q.eq_text(r2n, 'WELCOME'), False) for n in rz2)
    if ok:
        r = cfg2.reach([b for (a, b, l) in refused], block_nodes={n.id for n in rz2}, include_src=True, skip_labels=('x',))
        ok = cfg2.exit.id not in r
    ctx.ob('R18.2', 'answer_challenge:fails-unless-welcomed', ok, ac, rz2[0] if rz2 else None,
           'raise AuthenticationError unless the verdict equals WELCOME')
    cons = {k: mi.consts.get(k) for k in ('CHALLENGE', 'WELCOME', 'FAILURE')}
    ok = all(isinstance(v, bytes) and v for v in cons.values()) and len(set(cons.values())) == 3
    ctx.ob('R18.2', 'verdict-constants-distinct', ok, None, None, str(cons))


def r18_3(ctx):
    ctx.rule('R18.3', 'every read of the handshake is bounded by a constant maximum length', floor=3)
    m = ctx.model
    n = 0
    for fn in ('deliver_challenge', 'answer_challenge'):
        fi = m.func('connection:' + fn)
        for (cn, c) in q.calls(fi, fi.positional_params()[0] + '.recv_bytes'):
            n += 1
            ok = len(c.args) == 1 and isinstance(c.args[0], ast.Constant) and isinstance(c.args[0].value, int) and \
                0 < c.args[0].value <= 4096
            ctx.ob('R18.3', '%s:bounded-read#%d' % (fn, n), ok, fi, c, ast.unparse(c))
        others = [c for (cn, c) in q.calls(fi, lambda t: t.endswith('.recv'))]
        ctx.ob('R18.3', '%s:no-unpickling-before-authentication' % fn, not others, fi, others[0] if others else None,
               'the handshake never calls recv() (unpickle) on unauthenticated data')
    q.need(n >= 3, 'handshake reads not found')


def r18_4(ctx):
    ctx.rule('R18.4', 'a key that is not a byte string is rejected with TypeError before it is stored or used', floor=2)
    m = ctx.model
    bad = lambda t: t == 'isinstance(authkey, bytes)'
    for qn, uses in (('connection:Listener.__init__', lambda fi: [dn for (dn, t, v) in q.assigns(fi, 'self._authkey')]),
                     ('connection:Client', lambda fi: [n for (n, c) in q.calls(fi, ('answer_challenge', 'deliver_challenge'))])):
        fi = m.func(qn)
        cfg = fi.cfg
        rz = [n for n in cfg.where(lambda n: isinstance(n.ast, ast.Raise) and 'TypeError' in ast.unparse(n.ast))]
        ok = bool(rz) and all(q.has_guard(fi, n, bad, False) and q.has_guard(fi, n, 'authkey is None', False) for n in rz)
        # with a non-bytes, non-None key no use is reachable
        notbytes = q.outcome_edges(fi, bad, False)
        r = cfg.reach([b for (a, b, l) in notbytes], block_nodes={n.id for n in rz}, include_src=True, skip_labels=('x',))
        us = uses(fi)
        isnone = q.outcome_edges(fi, 'authkey is None', True)
        tests = {a for (a, b, l) in notbytes}
        r_keyed = cfg.reach([cfg.entry.id], block_nodes=tests, block_edges=isnone, include_src=True)
        ok = ok and bool(notbytes) and bool(us) and not any(u.id in r for u in us) and \
            not any(u.id in r_keyed for u in us)
        ctx.ob('R18.4', '%s:non-bytes-key-rejected-before-use' % qn.split(':')[1], ok, fi, rz[0] if rz else None,
               'if authkey is not None and not isinstance(authkey, bytes): raise TypeError, before any use')


def r18_5(ctx):
    ctx.rule('R18.5', 'authentication keys are not pickled outside process spawning', floor=2)
    m = ctx.model
    fi = m.func('process:AuthenticationString.__reduce__')
    cfg = fi.cfg
    rz = [n for n in cfg.where(lambda n: isinstance(n.ast, ast.Raise))]
    rets = [n for n in cfg.where(lambda n: isinstance(n.ast, ast.Return))]
    sp = lambda t: t.endswith('get_spawning_popen() is None') and t.replace('billiard.', '').replace('context.', '') == 'get_spawning_popen() is None'
    ok = bool(rz) and all(q.has_guard(fi, n, sp, True) for n in rz) and bool(rets) and \
        all(q.has_guard(fi, n, sp, False) for n in rets)
    ctx.ob('R18.5', 'AuthenticationString.__reduce__:refuses-unless-spawning', ok, fi, rz[0] if rz else None,
           'raise TypeError when get_spawning_popen() is None; pickle only otherwise')
    ak = [f for qn, f in m.funcs.items() if qn.startswith('process:BaseProcess.authkey')]
    setter = [f for f in ak if len(f.positional_params()) == 2]
    ok = bool(setter) and any(ast.unparse(v) == 'AuthenticationString(%s)' % setter[0].positional_params()[1]
                              for (dn, t, v) in q.assigns(setter[0], lambda t: t.endswith("['authkey']")))
    ctx.ob('R18.5', 'Process.authkey:wrapped', ok, setter[0] if setter else None, None,
           "self._config['authkey'] = AuthenticationString(authkey)")



def r18_6(ctx):
    ctx.rule('R18.6', 'both ends key the digest with the key exactly as the user gave it: the listener stores its '
                      'parameter, the client passes its parameter -- a key that one side transforms (hashes, truncates, '
                      'pads) before the handshake no longer matches the same key on the other side', floor=3)
    m = ctx.model
    li = m.func('connection:Listener.__init__')
    defs = [(dn, v) for (dn, t, v) in q.assigns(li, 'self._authkey')]
    odd = [(dn, v) for (dn, v) in defs if not (isinstance(v, ast.Name) and v.id == 'authkey' and 'authkey' in li.params
                                              and not q.assigns(li, 'authkey'))]
    ctx.ob('R18.6', 'Listener.__init__:stores-the-key-as-given', bool(defs) and not odd, li, odd[0][0] if odd else None,
           'self._authkey = authkey' if not odd else
           'self._authkey = %s: the listener keys its digests with something else than the caller\'s key' % ast.unparse(odd[0][1])[:60])
    ac = m.func('connection:Listener.accept')
    cl = m.func('connection:Client')
    for fi, want in ((ac, 'self._authkey'), (cl, 'authkey')):
        calls = [(n, c) for (n, c) in q.calls(fi, lambda t: t in ('deliver_challenge', 'answer_challenge'))]
        ok = bool(calls) and all(len(c.args) == 2 and ast.unparse(c.args[1]) == want for (n, c) in calls) and \
            not (want == 'authkey' and q.assigns(fi, 'authkey'))
        ctx.ob('R18.6', '%s:handshake-gets-that-key' % fi.qual.split(':')[1], ok, fi, calls[0][1] if calls else None,
               'deliver_challenge / answer_challenge(c, %s)' % want)


def no_second_owner_for_a_descriptor(ctx, rule, modules):
    """socket.socket(fileno=X.fileno()), os.fdopen(X.fileno()) and os.close(X.fileno()) make a second owner for a
    descriptor an object still holds: when either owner closes it the other is left with a number the kernel hands to
    the next open -- the stale owner then closes or reads somebody else's connection"""
    ctx.rule(rule, 'a descriptor that a connection object holds gets no second owner: no socket / file object is built '
                   'over `<obj>.fileno()` (without detach()), and it is not closed behind the object\'s back', floor=0)
    m = ctx.model
    seen = 0
    for qn, fi in sorted(m.funcs.items()):
        if fi.module.name not in modules:
            continue
        for c in [x for x in walk_own(fi.node) if isinstance(x, ast.Call)]:
            callee = fi.callee(c) or ''
            fd_args = []
            if callee in ('socket.socket', 'socket'):
                fd_args = [k.value for k in c.keywords if k.arg == 'fileno'] + list(c.args[3:4])
            elif callee in ('os.fdopen', 'os.close', 'io.open', 'open'):
                fd_args = list(c.args[:1])
                if callee != 'os.close' and any(k.arg == 'closefd' and ast.unparse(k.value) == 'False' for k in c.keywords):
                    fd_args = []
            if not fd_args:
                continue
            seen += 1
            borrowed = [a for a in fd_args if any(isinstance(x, ast.Call) and isinstance(x.func, ast.Attribute) and
                                                  x.func.attr == 'fileno' for x in ast.walk(a))]
            detached = any(isinstance(x, ast.Call) and isinstance(x.func, ast.Attribute) and x.func.attr == 'detach'
                           for x in walk_own(fi.node))
            ok = not borrowed or detached
            ctx.ob(rule, 'descriptor-owner@%s:%s' % (fi.qual.split(':')[1], callee), ok, fi, c,
                   'built over a descriptor this code owns' if ok else
                   '`%s` takes over `%s`, which the object still holds: closed twice, the second close hits whoever got '
                   'the number in between' % (ast.unparse(c)[:50], ast.unparse(borrowed[0])[:40]))
    ctx.note('%s: %d places that build an owner over a raw descriptor examined' % (rule, seen))


def run(ctx):
    r18_6(ctx)
    no_second_owner_for_a_descriptor(ctx, 'R18.7', ('connection',))
    r18_1(ctx)
    r18_2(ctx)
    r18_3(ctx)
    r18_4(ctx)
    r18_5(ctx)
    ctx.note('the iff over all key pairs rests on HMAC itself (e.g. zero-padding of short keys) and is not decided')


_C = 'billiard/connection.py'
MUTANTS = [
    ('listener-prehashes-long-keys', _C, "        self._authkey = authkey\n\n    def accept(self):", "        self._authkey = authkey and (authkey if len(authkey) < 64 else __import__('hashlib').md5(authkey).digest())\n\n    def accept(self):", 'R18.6'),
    ('refused-peer-hung-up-through-a-second-socket-object', _C, "        if self._authkey:\n            deliver_challenge(c, self._authkey)\n            answer_challenge(c, self._authkey)\n        return c",
     "        if self._authkey:\n            try:\n                deliver_challenge(c, self._authkey)\n                answer_challenge(c, self._authkey)\n            except AuthenticationError:\n                with socket.socket(fileno=c.fileno()) as s:\n                    s.shutdown(socket.SHUT_RDWR)\n                raise\n        return c", 'R18.7'),
    ('accept-skips-answer', _C, "        if self._authkey:\n            deliver_challenge(c, self._authkey)\n            answer_challenge(c, self._authkey)\n        return c", "        if self._authkey:\n            deliver_challenge(c, self._authkey)\n        return c", 'R18.1'),
    ('accept-swallows-failure', _C, "        if self._authkey:\n            deliver_challenge(c, self._authkey)\n            answer_challenge(c, self._authkey)\n        return c",
     "        if self._authkey:\n            try:\n                deliver_challenge(c, self._authkey)\n                answer_challenge(c, self._authkey)\n            except AuthenticationError:\n                pass\n        return c", 'R18.1'),
    ('listener-answers-first', _C, "            deliver_challenge(c, self._authkey)\n            answer_challenge(c, self._authkey)\n        return c", "            answer_challenge(c, self._authkey)\n            deliver_challenge(c, self._authkey)\n        return c", 'R18.1'),
    ('client-one-way', _C, "    if authkey is not None:\n        answer_challenge(c, authkey)\n        deliver_challenge(c, authkey)\n", "    if authkey is not None:\n        answer_challenge(c, authkey)\n", 'R18.1'),
    ('server-reads-before-auth', 'billiard/managers.py', "            connection.deliver_challenge(c, self.authkey)\n            connection.answer_challenge(c, self.authkey)\n            request = c.recv()",
     "            request = c.recv()\n            connection.deliver_challenge(c, self.authkey)\n            connection.answer_challenge(c, self.authkey)", 'R18.1'),
    ('challenge-default-arg', _C, "def deliver_challenge(connection, authkey):\n    import hmac\n    assert isinstance(authkey, bytes)\n    message = os.urandom(MESSAGE_LENGTH)\n",
     "def deliver_challenge(connection, authkey, message=os.urandom(20)):\n    import hmac\n    assert isinstance(authkey, bytes)\n", 'R18.2'),
    ('challenge-constant', _C, "    message = os.urandom(MESSAGE_LENGTH)\n", "    message = b'\\x00' * MESSAGE_LENGTH\n", 'R18.2'),
    ('challenge-short', _C, "MESSAGE_LENGTH = 20", "MESSAGE_LENGTH = 2", 'R18.2'),
    ('digest-of-constant', _C, "    digest = hmac.new(authkey, message, 'md5').digest()\n    response = connection.recv_bytes(256)        # reject large message\n    if response == digest:",
     "    digest = hmac.new(authkey, CHALLENGE, 'md5').digest()\n    response = connection.recv_bytes(256)        # reject large message\n    if response == digest:", 'R18.2'),
    ('prefix-comparison', _C, "    if response == digest:\n        connection.send_bytes(WELCOME)", "    if digest.startswith(response):\n        connection.send_bytes(WELCOME)", 'R18.2'),
    ('failure-not-raised', _C, "        connection.send_bytes(FAILURE)\n        raise AuthenticationError('digest received was wrong')", "        connection.send_bytes(FAILURE)", 'R18.2'),
    ('welcome-always', _C, "    if response == digest:\n        connection.send_bytes(WELCOME)\n    else:\n        connection.send_bytes(FAILURE)\n        raise AuthenticationError('digest received was wrong')",
     "    connection.send_bytes(WELCOME)\n    if response != digest:\n        raise AuthenticationError('digest received was wrong')", 'R18.2'),
    ('answer-replace-prefix', _C, "    message = message[len(CHALLENGE):]\n", "    message = message.replace(CHALLENGE, b'')\n", 'R18.2'),
    ('answer-other-alg', _C, "    message = message[len(CHALLENGE):]\n    digest = hmac.new(authkey, message, 'md5').digest()", "    message = message[len(CHALLENGE):]\n    digest = hmac.new(authkey, message, 'sha1').digest()", 'R18.2'),
    ('answer-ignores-verdict', _C, "    if response != WELCOME:\n        raise AuthenticationError('digest sent was rejected')", "    if response == FAILURE:\n        raise AuthenticationError('digest sent was rejected')", 'R18.2'),
    ('unbounded-read', _C, "    response = connection.recv_bytes(256)        # reject large message\n    if response == digest:", "    response = connection.recv_bytes()\n    if response == digest:", 'R18.3'),
    ('listener-key-unchecked', _C, "        if authkey is not None and not isinstance(authkey, bytes):\n            raise TypeError('authkey should be a byte string')\n\n        self._authkey = authkey", "        self._authkey = authkey", 'R18.4'),
    ('client-key-checked-late', _C, "    if authkey is not None and not isinstance(authkey, bytes):\n        raise TypeError('authkey should be a byte string')\n\n    if authkey is not None:\n        answer_challenge(c, authkey)\n        deliver_challenge(c, authkey)\n",
     "    if authkey is not None:\n        answer_challenge(c, authkey)\n        deliver_challenge(c, authkey)\n\n    if authkey is not None and not isinstance(authkey, bytes):\n        raise TypeError('authkey should be a byte string')\n", 'R18.4'),
    ('key-pickles-anywhere', 'billiard/process.py', "        if get_spawning_popen() is None:\n            raise TypeError(\n                'Pickling an AuthenticationString object is '\n                'disallowed for security reasons')\n", "", 'R18.5'),
]
_BOTH_OLD = ("def deliver_challenge(connection, authkey):\n    import hmac\n    assert isinstance(authkey, bytes)\n    message = os.urandom(MESSAGE_LENGTH)\n    connection.send_bytes(CHALLENGE + message)\n    digest = hmac.new(authkey, message, 'md5').digest()\n    response = connection.recv_bytes(256)        # reject large message\n    if response == digest:\n        connection.send_bytes(WELCOME)\n    else:\n        connection.send_bytes(FAILURE)\n        raise AuthenticationError('digest received was wrong')\n\n\ndef answer_challenge(connection, authkey):\n    import hmac\n    assert isinstance(authkey, bytes)\n    message = connection.recv_bytes(256)         # reject large message\n    assert message[:len(CHALLENGE)] == CHALLENGE, 'message = %r' % message\n    message = message[len(CHALLENGE):]\n    digest = hmac.new(authkey, message, 'md5').digest()\n")


def _both_new(helper_body):
    return ("def _digest(authkey, message):\n" + helper_body +
            "\n\ndef deliver_challenge(connection, authkey):\n    assert isinstance(authkey, bytes)\n    message = os.urandom(MESSAGE_LENGTH)\n    connection.send_bytes(CHALLENGE + message)\n    digest = _digest(authkey, message)\n    response = connection.recv_bytes(256)        # reject large message\n    if response == digest:\n        connection.send_bytes(WELCOME)\n    else:\n        connection.send_bytes(FAILURE)\n        raise AuthenticationError('digest received was wrong')\n\n\ndef answer_challenge(connection, authkey):\n    assert isinstance(authkey, bytes)\n    message = connection.recv_bytes(256)         # reject large message\n    assert message[:len(CHALLENGE)] == CHALLENGE, 'message = %r' % message\n    message = message[len(CHALLENGE):]\n    digest = _digest(authkey, message)\n")


MUTANTS += [
    ('helper-truncates-the-key', _C, _BOTH_OLD,
     _both_new("    import hmac\n    return hmac.new(authkey[:64], message, 'md5').digest()\n"), 'R18.2'),
    ('helper-keyed-hash-with-sliced-key', _C, _BOTH_OLD,
     _both_new("    from hashlib import blake2b\n    return blake2b(message, key=authkey[:blake2b.MAX_KEY_SIZE], digest_size=16).digest()\n"), 'R18.2'),
]

TWINS = [
    ('digest-through-a-helper', _C, _BOTH_OLD, _both_new("    import hmac\n    return hmac.new(authkey, message, 'md5').digest()\n")),
    ('compare-digest', _C, "    if response == digest:\n        connection.send_bytes(WELCOME)", "    if hmac.compare_digest(response, digest):\n        connection.send_bytes(WELCOME)"),
    ('verdict-flipped', _C, "    if response != WELCOME:\n        raise AuthenticationError('digest sent was rejected')", "    if WELCOME != response:\n        raise AuthenticationError('digest sent was rejected')"),
    ('accept-key-is-not-none', _C, "        if self._authkey:\n            deliver_challenge(c, self._authkey)", "        if self._authkey is not None:\n            deliver_challenge(c, self._authkey)"),
]
