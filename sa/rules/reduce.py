"""R12.1 — writer/reader agreement of every pickling hook in the package:
__reduce__, __getstate__/__setstate__, and reducers registered with
reduction.register / ForkingPickler.register."""
import ast

from ..model import walk_own, dotted, AnalysisError
from .. import q


def _norm(name):
    return name.strip('_').lower()


def _attr_name(e):
    """the attribute a writer position reads: self.X / obj.X -> 'X'"""
    if isinstance(e, ast.Attribute) and isinstance(e.value, ast.Name):
        return e.attr
    if isinstance(e, ast.Call) and dotted(e.func) == 'bytes' and e.args and isinstance(e.args[0], ast.Name):
        return None
    return None


def _returns(fi):
    return [n for n in walk_own(fi.node) if isinstance(n, ast.Return) and n.value is not None]


def _reader_params(model, target):
    """(positional params without self, n_required, owner, param->attr map for classes)"""
    if hasattr(target, 'methods'):     # ClassInfo
        init = model.method(target, '__init__')
        if init is None:
            return [], 0, target, {}
        P = init.positional_params()[1:]
        nd = len(init.node.args.defaults)
        stored = {}
        for attr, vals in model.init_attrs(target).items():
            for (v, uncond, owner) in vals:
                if isinstance(v, ast.Name) and v.id in P:
                    stored.setdefault(v.id, set()).add(attr)
        return P, len(P) - nd, init, stored
    P = target.positional_params()
    nd = len(target.node.args.defaults)
    return P, len(P) - nd, target, {}


def _resolve_callable(model, fi, e, own_cls):
    """-> ('new', ClassInfo) | ('class', ClassInfo) | ('func', FuncInfo) | ('builtin', name) | ('unknown', text)"""
    d = dotted(e)
    txt = ast.unparse(e)
    if txt in ('self.__class__', 'type(self)') and own_cls is not None:
        return 'class', own_cls
    if d and d.endswith('.__new__'):
        c = model.resolve_class(d[:-len('.__new__')], fi.module)
        if c is not None:
            return 'new', c
    if d in ('getattr', 'object.__new__'):
        return 'builtin', d
    import builtins as _b
    if d and '.' not in d and hasattr(_b, d) and d not in fi.module.assigns and \
            model.resolve_func(d, fi.module) is None and model.resolve_class(d, fi.module) is None:
        return 'external', d
    if d and d.split('.')[0] in fi.module.imports and fi.module.imports[d.split('.')[0]][0].startswith('<ext>'):
        return 'external', d
    if txt.startswith('type(self).') or txt.startswith('self.__class__.'):
        attr = txt.split('.')[-1]
        if own_cls is not None and model.method(own_cls, attr) is None and model.class_attr(own_cls, attr) is None:
            return 'missing-own', txt
    if d:
        c = model.resolve_class(d, fi.module)
        if c is not None:
            return 'class', c
        f = model.resolve_func(d, fi.module) if '.' not in d else None
        if f is not None:
            return 'func', f
    return 'unknown', txt


def _check_tuple(ctx, rule, model, fi, ret, own_cls, label):
    """one `return callable, (args...)[, state]`"""
    v = ret.value
    if not (isinstance(v, ast.Tuple) and len(v.elts) >= 2 and isinstance(v.elts[1], ast.Tuple)):
        return False
    kind, target = _resolve_callable(model, fi, v.elts[0], own_cls)
    args = list(v.elts[1].elts)
    key = '%s -> %s' % (label, ast.unparse(v.elts[0]))
    if kind == 'new':
        ok = len(args) == 1 and ast.unparse(args[0]) == target.name and len(v.elts) == 3 and \
            ast.unparse(v.elts[2]) == 'self.__dict__' and (own_cls is None or target is own_cls)
        ctx.ob(rule, key, ok, fi, ret, 'Cls.__new__, (Cls,), self.__dict__ with Cls = the defining class'
               if ok else 'rebuild recipe names a different class or drops the state: %s' % ast.unparse(v))
        return True
    if kind == 'builtin':
        ctx.ob(rule, key, len(args) == 2, fi, ret, 'getattr(obj, name)')
        return True
    if kind == 'external':
        ctx.ob(rule, key + ' (external reader)', True, fi, ret,
               'rebuilt by a standard-library / builtin callable: arity trusted')
        return True
    if kind == 'missing-own':
        ctx.note('%s: %s names an attribute no class in the package defines (pickling raises AttributeError); '
                 'not part of a given property, reported as a note' % (label, target))
        return True
    if kind == 'unknown':
        ctx.ob(rule, key + ' (unresolved)', False, fi, ret,
               'the rebuild callable `%s` is not defined anywhere in the package' % target)
        return True
    P, nreq, owner, stored = _reader_params(model, target)
    ok = nreq <= len(args) <= len(P) or (hasattr(owner, 'node') and owner.node.args.vararg is not None)
    detail = '%d value(s) written, reader %s takes %s' % (len(args), getattr(owner, 'qual', '?'), P)
    if ok:
        for k, a in enumerate(args):
            w = _attr_name(a)
            if w is None or k >= len(P):
                continue
            p = P[k]
            if kind == 'class':
                attrs = stored.get(p)
                if attrs:
                    if w not in attrs and _norm(w) not in {_norm(x) for x in attrs}:
                        ok = False
                        detail = 'position %d writes .%s but the reader stores parameter `%s` as .%s' % (
                            k, w, p, '/.'.join(sorted(attrs)))
                        break
                    continue
            if _norm(w) != _norm(p) and _norm(p) not in _norm(w) and _norm(w) not in _norm(p):
                ok = False
                detail = 'position %d writes .%s but the reader binds it to parameter `%s`' % (k, w, p)
                break
    ctx.ob(rule, key, ok, fi, ret, detail)
    return True


def r12_1(ctx, rule='R12.1', modules=None, floor=1):
    ctx.rule(rule, 'pickling hooks agree with their readers: arity and position-by-position correspondence of what '
                   '__reduce__ / __getstate__ / a registered reducer writes and what the rebuild callable / '
                   '__setstate__ binds', floor=floor)
    m = ctx.model
    n = 0

    def in_scope(mi):
        return modules is None or mi.name in modules
    # 1. __reduce__
    for ci in sorted(m.classes.values(), key=lambda c: c.qual):
        if not in_scope(ci.module):
            continue
        fi = ci.methods.get('__reduce__')
        if fi is not None:
            rets = _returns(fi)
            if not rets:
                raises = [x for x in walk_own(fi.node) if isinstance(x, ast.Raise)]
                ctx.ob(rule, '%s.__reduce__ refuses' % ci.name, bool(raises), fi, None, 'raises instead of pickling')
                n += 1
            for i, r in enumerate(rets):
                label = '%s.__reduce__%s' % (ci.name, '#%d' % (i + 1) if len(rets) > 1 else '')
                if _check_tuple(ctx, rule, m, fi, r, ci, label):
                    n += 1
                else:
                    ctx.ob(rule, label + ' (shape)', False, fi, r, 'not of the form callable, (args...)')
                    n += 1
        # 2. getstate / setstate
        gs, ss = ci.methods.get('__getstate__'), ci.methods.get('__setstate__')
        if gs is not None or ss is not None:
            n += 1
            label = '%s.__getstate__/__setstate__' % ci.name
            if gs is None or ss is None:
                ctx.ob(rule, label, False, gs or ss, None, 'only one of the pair is defined')
                continue
            _check_state_pair(ctx, rule, m, ci, gs, ss, label)
    # 3. registered reducers
    for qn, fi in sorted(m.funcs.items()):
        pass
    for mi in sorted(m.modules.values(), key=lambda x: x.name):
        if not in_scope(mi):
            continue
        for call in [x for x in ast.walk(mi.tree) if isinstance(x, ast.Call)]:
            d = dotted(call.func) or ''
            if d.split('.')[-1] == 'register' and d in ('reduction.register', 'register', 'ForkingPickler.register') \
                    and len(call.args) == 2 and isinstance(call.args[1], ast.Name):
                red = m.resolve_func(call.args[1].id, mi)
                if red is None:
                    continue
                if any(o.key.startswith(red.name + ' ') for o in ctx.obs if o.rule == rule):
                    continue
                for i, r in enumerate(_returns(red)):
                    label = '%s%s' % (red.name, '#%d' % (i + 1) if len(_returns(red)) > 1 else '')
                    if _check_tuple(ctx, rule, m, red, r, None, label):
                        n += 1
    return n


def _state_seq(fi, expr, self_name='self'):
    """list of attribute names for a tuple of self.X, or None"""
    if isinstance(expr, ast.Tuple):
        out = []
        for e in expr.elts:
            if isinstance(e, ast.Attribute) and isinstance(e.value, ast.Name) and e.value.id == self_name:
                out.append(e.attr)
            else:
                return None
        return out
    return None


def _check_state_pair(ctx, rule, m, ci, gs, ss, label):
    rets = _returns(gs)
    sparam = ss.positional_params()[1] if len(ss.positional_params()) > 1 else None
    wrote = None
    base_call = None
    opaque = False
    for r in rets:
        v = r.value
        if isinstance(v, ast.BinOp) and isinstance(v.op, ast.Add) and isinstance(v.left, ast.Call) and \
                ast.unparse(v.left.func).endswith('.__getstate__'):
            base_call = v.left
            wrote = _state_seq(gs, v.right)
        elif isinstance(v, ast.Tuple):
            wrote = _state_seq(gs, v)
        elif isinstance(v, (ast.Name, ast.Attribute)):
            # self._state = (a, b) assigned elsewhere, or a local built up piecewise
            src = None
            for cfi in ci.methods.values():
                for n in walk_own(cfi.node):
                    if isinstance(n, ast.Assign) and any(ast.unparse(t) == ast.unparse(v) for t in n.targets) \
                            and isinstance(n.value, ast.Tuple):
                        src = n.value
            if src is not None and _state_seq(gs, src) is not None:
                wrote = _state_seq(gs, src)
            else:
                opaque = True
    read = None
    tail_n = None
    for n in walk_own(ss.node):
        if isinstance(n, ast.Assign) and isinstance(n.targets[0], ast.Tuple):
            val = n.value
            seq = _state_seq(ss, n.targets[0])
            if seq is None:
                continue
            if isinstance(val, ast.Name) and val.id == sparam:
                read = seq
            elif isinstance(val, ast.Subscript) and ast.unparse(val.value) == sparam and \
                    isinstance(val.slice, ast.Slice):
                read = seq
                tail_n = ast.unparse(val.slice)
        if isinstance(n, ast.Assign) and len(n.targets) >= 2 and isinstance(n.targets[0], ast.Tuple):
            # a, b = self._state = state
            seq = _state_seq(ss, n.targets[0])
            if seq is not None and isinstance(n.value, ast.Name) and n.value.id == sparam:
                read = seq
    if opaque:
        star = any(isinstance(x, ast.Call) and any(isinstance(a, ast.Starred) and ast.unparse(a.value) == sparam
                                                   for a in x.args) for x in walk_own(ss.node))
        ctx.ob(rule, label + ' (opaque state, C reader)', star, gs, None,
               'state is built piecewise and handed to a C-level _rebuild(*state): arity trusted')
        return
    ok = wrote is not None and read is not None and wrote == read
    detail = 'writes %s, reads %s' % (wrote, read)
    if ok and base_call is not None:
        k = len(wrote)
        ok = tail_n == '-%d:' % k and any(
            isinstance(x, ast.Call) and ast.unparse(x.func).endswith('.__setstate__') and len(x.args) == 2 and
            ast.unparse(x.args[1]) == '%s[:-%d]' % (sparam, k) for x in walk_own(ss.node))
        detail += '; base state + %d own fields, split as state[:-%d] / state[-%d:]' % (k, k, k)
    ctx.ob(rule, label, ok, gs, None, detail)
