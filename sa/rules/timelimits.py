"""Rules about the time-limit scanner shared by C05 (hard) and C06 (soft)."""
import ast

from ..model import walk_own, dotted
from .. import q
from .poolfacts import CLOCKS


class Scan:
    """Anchors inside TimeoutHandler.handle_timeouts."""

    def __init__(self, ctx):
        m = ctx.model
        self.fi = fi = m.func('pool:TimeoutHandler.handle_timeouts')
        self.cfg = cfg = fi.cfg
        self.timed_out = fi.children.get('_timed_out')
        q.need(self.timed_out is not None, 'handle_timeouts: closure _timed_out not found')
        self.hard = q.calls(fi, 'self.on_hard_timeout')
        self.soft = q.calls(fi, 'self.on_soft_timeout')
        q.need(self.hard, 'handle_timeouts never calls on_hard_timeout')
        q.need(self.soft, 'handle_timeouts never calls on_soft_timeout')
        # the for loop over the cache copy
        fors = [n for n in cfg.where(lambda n: n.kind == 'for')
                if any(q.inside(fi, h, n.stmt.body) for (h, c) in self.hard)]
        q.need(fors, 'handle_timeouts: loop over the cache not found')
        self.loop = fors[0]
        t = self.loop.stmt.target
        q.need(isinstance(t, ast.Tuple) and len(t.elts) == 2, 'handle_timeouts: loop target is not (key, job)')
        self.key, self.job = [ast.unparse(e) for e in t.elts]
        # tests that call _timed_out
        self.tests = {}
        for tn in cfg.where(lambda n: n.kind == 'test'):
            e = tn.ast
            if isinstance(e, ast.Call) and isinstance(e.func, ast.Name) and e.func.id == '_timed_out':
                self.tests[tn.id] = (tn, e)

    def limit_defs(self, name):
        return [(dn, v) for (dn, t, v) in q.assigns(self.fi, name)]


def r05_2(ctx, which, rule):
    """limit precedence for 'hard' or 'soft'"""
    ctx.rule(rule, 'the limit compared for a job is its own limit, falling back to the pool default only when '
                   'the job has none; per-call limits take precedence in apply_async and reach the handle', floor=4)
    S = Scan(ctx)
    fi, cfg = S.fi, S.cfg
    m = ctx.model
    attr, dflt, action = ('_timeout', 'self.t_hard', S.hard) if which == 'hard' else \
        ('_soft_timeout', 'self.t_soft', S.soft)
    # the _timed_out test guarding the action
    for (an, ac) in action:
        test = None
        for tid, (tn, e) in S.tests.items():
            lab_edges = {(tn.id, b, l) for (b, l) in cfg.succ[tn.id] if l == 't'}
            r = cfg.reach([S.loop.id], block_edges=lab_edges, block_nodes=(), include_src=False)
            # the action must be unreachable within the iteration when this test's true edge is removed
            body_r = cfg.reach([b for (b, l) in cfg.succ[S.loop.id] if l == 't'], block_edges=lab_edges,
                               block_nodes={S.loop.id}, include_src=True)
            if an.id not in body_r:
                test = (tn, e)
        ok = test is not None
        ctx.ob(rule, 'scan:%s-action-under-its-_timed_out-test' % which, ok, fi, an,
               'the %s action runs only when _timed_out(...) for it is truthy' % which)
        if not ok:
            continue
        tn, e = test
        ok = len(e.args) == 2 and isinstance(e.args[1], ast.Name)
        lim = e.args[1].id if ok else None
        start = ast.unparse(e.args[0]) if e.args else '?'
        # start is the job's acceptance time
        sdefs = [ast.unparse(v) for (dn, t, v) in q.assigns(fi, start)] if isinstance(e.args[0], ast.Name) else [start]
        ctx.ob(rule, 'scan:%s-clock-starts-at-acceptance' % which,
               sdefs == ['%s._time_accepted' % S.job] or fi.canon(e.args[0]) == '%s._time_accepted' % S.job, fi, e,
               'start = %s' % ' / '.join(sdefs))
        if not ok:
            ctx.ob(rule, 'scan:%s-limit-chain' % which, False, fi, e, 'second argument of _timed_out is not a local name')
            continue
        defs = S.limit_defs(lim)
        own = [(dn, v) for (dn, v) in defs if ast.unparse(v) == '%s.%s' % (S.job, attr)]
        fall = [(dn, v) for (dn, v) in defs if fi.canon(v) == dflt]
        other = [(dn, v) for (dn, v) in defs if (dn, v) not in own and (dn, v) not in fall]
        ok = len(own) == 1 and not other
        if ok:
            ok = cfg.must_pass([S.loop], [tn], [own[0][0]], skip_labels=('x',))[0]
            for (dn, v) in fall:
                ok = ok and q.has_guard(fi, dn, '%s is None' % lim, True) and \
                    cfg.must_pass([S.loop], [dn], [own[0][0]], skip_labels=('x',))[0]
        ctx.ob(rule, 'scan:%s-limit-chain' % which, ok, fi, e,
               '%s := %s.%s, then %s only under `%s is None`' % (lim, S.job, attr, dflt, lim) if ok else
               'definitions of %s: %s' % (lim, [ast.unparse(v) for dn, v in defs]))
    # apply_async: per-call value first, then pool default; bound to the right constructor parameter
    aa = m.func('pool:Pool.apply_async')
    pname = 'timeout' if which == 'hard' else 'soft_timeout'
    pooldef = 'self.timeout' if which == 'hard' else 'self.soft_timeout'
    defs = [(dn, v) for (dn, t, v) in q.assigns(aa, pname)]
    chain = [v for (dn, v) in defs if isinstance(v, ast.BoolOp) and isinstance(v.op, ast.Or)]
    ok = len(chain) == 1 and [ast.unparse(x) for x in chain[0].values] == [pname, pooldef]
    ctx.ob(rule, 'apply_async:%s-per-call-before-pool-default' % which, ok, aa, chain[0] if chain else None,
           '%s = %s or %s' % (pname, pname, pooldef))
    ar = m.cls('pool:ApplyResult')
    init = ar.methods['__init__']
    cons = [c for (n, c) in q.calls(aa, 'ApplyResult')]
    q.need(cons, 'apply_async does not construct ApplyResult')
    P = init.positional_params()[1:]
    for c in cons:
        bound = {}
        for i, a in enumerate(c.args):
            if i < len(P):
                bound[P[i]] = a
        for k in c.keywords:
            if k.arg:
                bound[k.arg] = k.value
        ok = pname in bound and ast.unparse(bound[pname]) == pname
        ctx.ob(rule, 'apply_async:%s-bound-to-constructor-parameter' % which, ok, aa, c,
               'ApplyResult(..., %s=%s)' % (pname, ast.unparse(bound[pname]) if pname in bound else '<missing>'))
    ok = any(isinstance(n, ast.Assign) and ast.unparse(n.targets[0]) == 'self.' + attr and ast.unparse(n.value) == pname
             for n in walk_own(init.node))
    ctx.ob(rule, 'ApplyResult.__init__:stores-%s' % attr, ok, init, None, 'self.%s = %s' % (attr, pname))
    # the scanner is given the pool defaults in the right order
    pi = m.func('pool:Pool.__init__')
    th = m.cls('pool:TimeoutHandler').methods['__init__']
    TP = th.positional_params()[1:]
    for c in [c for (n, c) in q.calls(pi, 'self.TimeoutHandler')]:
        bound = {TP[i]: a for i, a in enumerate(c.args) if i < len(TP)}
        want = 't_hard' if which == 'hard' else 't_soft'
        ok = want in bound and ast.unparse(bound[want]) == pooldef
        ctx.ob(rule, 'Pool.__init__:scanner-gets-%s-default' % which, ok, pi, c,
               '%s <- %s' % (want, ast.unparse(bound[want]) if want in bound else '?'))


def scan_period(ctx, rule):
    """"within about one scan period" / "soft before hard": limits are per job, so the period between two scans is a
    small constant that does not depend on the pool's default limits (a job can carry shorter ones)."""
    ctx.rule(rule, 'the scanner thread sleeps a constant of at most one second between two scans', floor=1)
    m = ctx.model
    fi = m.func('pool:TimeoutHandler.body')
    sl = [(n, c) for (n, c) in q.calls(fi, 'time.sleep')]
    q.need(sl, 'TimeoutHandler.body does not pause between scans')
    for (n, c) in sl:
        a = c.args[0] if c.args else None
        v = a.value if isinstance(a, ast.Constant) else None
        if v is None and isinstance(a, ast.Name):
            try:
                v = q.const_of(fi, a)
            except Exception:
                v = None
        ok = isinstance(v, (int, float)) and 0 < v <= 1.0
        ctx.ob(rule, 'TimeoutHandler.body:scan-period-is-a-small-constant', ok, fi, c,
               'time.sleep(%s) between scans' % v if ok else
               'the pause between scans is `%s`, not a constant <= 1 s: a job whose own limits are shorter than the '
               'pause is noticed late, and its soft limit can be skipped altogether (the scan tests the hard limit '
               'first)' % ast.unparse(a))


def r05_3(ctx, rule):
    ctx.rule(rule, '_timed_out is falsy whenever start or limit is falsy and truthy only when '
                   'now - start - limit >= 0', floor=2)
    S = Scan(ctx)
    fi = S.timed_out
    cfg = fi.cfg
    P = fi.positional_params()
    q.need(len(P) == 2, '_timed_out signature changed')
    start, limit = P
    rets = cfg.where(lambda n: n.kind == 'stmt' and isinstance(n.ast, ast.Return))
    truthy = [n for n in rets if not (n.ast.value is None or
                                      (isinstance(n.ast.value, ast.Constant) and not n.ast.value.value))]
    q.need(truthy, '_timed_out never returns a truthy value')
    for n in truthy:
        g = q.guards_norm(fi, n)
        clock = [c for c in CLOCKS]
        passed = any((('%s() < (%s + %s)' % (c, start, limit), False) in g) or
                     (('(%s + %s) < %s()' % (start, limit, c), True) in g) or
                     (('%s() < (%s + %s)' % (c, limit, start), False) in g) or
                     (('(%s + %s) < %s()' % (limit, start, c), True) in g) for c in clock)
        if isinstance(n.ast.value, ast.Compare):
            t, p = q.norm_guard(fi, n.ast.value, True)
            passed = passed or any((t, p) in {('%s() < (%s + %s)' % (c, start, limit), False),
                                              ('(%s + %s) < %s()' % (start, limit, c), True)} for c in clock)
        ctx.ob(rule, '_timed_out:truthy-only-after-start+limit', passed, fi, n,
               'guards: %s' % sorted('%s=%s' % (t, p) for t, p in g))
        ok = (start, True) in g and (limit, True) in g
        ctx.ob(rule, '_timed_out:never-without-start-or-limit', ok, fi, n,
               'a truthy result requires both %s and %s to be truthy' % (start, limit))


def r05_6(ctx, rule):
    ctx.rule(rule, 'every scan evaluates the hard limit of every pending job: no path through an iteration of the '
                   'scan skips the hard test (except for a job that is already resolved)', floor=1)
    S = Scan(ctx)
    fi, cfg = S.fi, S.cfg
    hard_tests = []
    for (hn, hc) in S.hard:
        for tid, (tn, e) in S.tests.items():
            edges = {(tn.id, b, l) for (b, l) in cfg.succ[tn.id] if l == 't'}
            body_r = cfg.reach([b for (b, l) in cfg.succ[S.loop.id] if l == 't'], block_edges=edges,
                               block_nodes={S.loop.id}, include_src=True)
            if hn.id not in body_r:
                hard_tests.append(tn)
    q.need(hard_tests, 'hard test not identified')
    resolved = q.outcome_edges(fi, S.job + '.ready()', True)
    ok, w = q.every_iteration_passes(fi, S.loop, hard_tests, block_edges=resolved)
    ctx.ob(rule, 'scan:hard-limit-tested-for-every-job', ok, fi, S.loop,
           'each iteration over the cache reaches the hard _timed_out test' if ok else
           'an iteration can finish without looking at the job\'s hard limit (e.g. a job that was soft-signalled '
           'is never hard-limited)', path=w)
    early = q.loop_early_exits(fi, S.loop)
    ctx.ob(rule, 'scan:visits-every-job', not early, fi, early[0] if early else S.loop,
           'the loop over the cache copy is left only when exhausted')


def r05_5(ctx, rule):
    ctx.rule(rule, 'a job past its hard limit is never only soft-signalled: the soft action is reachable only '
                   'when the hard test was falsy', floor=1)
    S = Scan(ctx)
    fi, cfg = S.fi, S.cfg
    hard_tests = []
    for (hn, hc) in S.hard:
        for tid, (tn, e) in S.tests.items():
            edges = {(tn.id, b, l) for (b, l) in cfg.succ[tn.id] if l == 't'}
            body_r = cfg.reach([b for (b, l) in cfg.succ[S.loop.id] if l == 't'], block_edges=edges,
                               block_nodes={S.loop.id}, include_src=True)
            if hn.id not in body_r:
                hard_tests.append(tn)
    q.need(hard_tests, 'hard test not identified')
    for (sn, sc) in S.soft:
        # soft action unreachable from the true edge of the hard test within the iteration
        starts = [b for tn in hard_tests for (b, l) in cfg.succ[tn.id] if l == 't']
        r = cfg.reach(starts, block_nodes={S.loop.id}, include_src=True)
        ctx.ob(rule, 'scan:soft-only-when-hard-test-falsy', sn.id not in r, fi, sn,
               'on_soft_timeout is not reachable in an iteration whose hard test was truthy')
        # and the hard test is evaluated first
        ok, w = cfg.must_pass([S.loop], [sn], hard_tests, skip_labels=('x',))
        ctx.ob(rule, 'scan:hard-tested-before-soft', ok, fi, sn, 'the hard test precedes the soft action', path=w)
