"""C08 — terminate() and termination signals always end workers promptly."""
import ast

from ..model import walk_own, dotted
from .. import q
from .poolfacts import facts, _msg_tuple
from .shared import r08_1, EXIT_FLAG


def r08_2(ctx):
    ctx.rule('R08.2', 'every path out of Worker.__call__ after the work loop runs _do_exit; _do_exit runs '
                      'the exit callback first, reports (pid, exitcode) and always ends in os._exit', floor=5)
    m = ctx.model
    fi = m.func('pool:Worker.__call__')
    cfg = fi.cfg
    wl = q.nodes_calling(fi, 'self.workloop')
    q.need(wl, 'Worker.__call__ does not call self.workloop')
    de = q.nodes_calling(fi, 'self._do_exit')
    ok, w = cfg.must_pass(wl, [cfg.exit, cfg.raise_exit], de)
    ctx.ob('R08.2', '__call__:do_exit-on-every-exit', ok, fi, wl[0],
           'every path from the workloop call to function exit (normal or exceptional) calls _do_exit',
           path=w)
    # after_fork precedes the loop (handlers installed)
    af = q.nodes_calling(fi, 'self.after_fork')
    ok, w = cfg.dominated_by(wl[0], af) if af else (False, None)
    ctx.ob('R08.2', '__call__:after_fork-before-loop', ok, fi, wl[0],
           'signal handlers are installed (after_fork) before the work loop', path=w)
    dx = m.func('pool:Worker._do_exit')
    c2 = dx.cfg
    P = dx.positional_params()
    death = []
    for n, c in q.calls(dx, 'self.outq.put'):
        mt = _msg_tuple(c.args[0]) if c.args else None
        if mt and mt[0] == 'DEATH':
            death.append((n, c, mt[1]))
    q.need(death, 'Worker._do_exit does not put a DEATH message')
    for (n, c, p) in death:
        ok = len(p) == 2 and ast.unparse(p[0]) == P[1] and ast.unparse(p[1]) == P[2]
        ctx.ob('R08.2', '_do_exit:death-carries-pid-exitcode', ok, dx, c,
               'payload = (%s)' % ', '.join(ast.unparse(x) for x in p))
        cb = q.nodes_calling(dx, 'self.on_exit')
        unset = q.outcome_edges(dx, 'self.on_exit is None', True) | q.outcome_edges(dx, 'self.on_exit', False)
        r = c2.reach([c2.entry.id], block_nodes={x.id for x in cb}, block_edges=unset)
        ok = bool(cb) and n.id not in r
        ctx.ob('R08.2', '_do_exit:exit-callback-before-death-message', ok, dx, n,
               'when an exit callback is set it is called before the DEATH put')
        ex = q.nodes_calling(dx, 'os._exit')
        ok, w = c2.must_pass([n], [c2.exit, c2.raise_exit], ex)
        ctx.ob('R08.2', '_do_exit:os-exit-after-death-put-on-every-edge', ok, dx, n,
               'normal and exception edges of the DEATH put lead to os._exit', path=w)
    ex_calls = q.calls(dx, 'os._exit')
    q.need(ex_calls, 'Worker._do_exit never calls os._exit')
    for (n, c) in ex_calls:
        ok = len(c.args) == 1 and ast.unparse(c.args[0]) == P[2]
        ctx.ob('R08.2', '_do_exit:exits-with-exitcode', ok, dx, c, 'os._exit(%s)' % ', '.join(ast.unparse(a) for a in c.args))
    # no normal path leaves _do_exit without os._exit (when the callback does not raise)
    ok, w = c2.must_pass([c2.entry], [c2.exit], {n for (n, c) in ex_calls}, skip_labels=('x',))
    ctx.ob('R08.2', '_do_exit:never-returns', ok, dx, None,
           'every normal path through _do_exit reaches os._exit', path=w)


def _param_index(fi, name):
    P = fi.positional_params()
    return P.index(name) if name in P else -1


def r08_3(ctx):
    ctx.rule('R08.3', '_terminate_pool marks supervisor and task feeder, enqueues both sentinels, terminates '
                      'every live worker, stops the helper threads and joins the workers', floor=9)
    m = ctx.model
    fi = m.func('pool:Pool._terminate_pool')
    cfg = fi.cfg
    P = fi.positional_params()
    q.need(len(P) >= 10, 'Pool._terminate_pool signature changed: %s' % P)
    cls, taskqueue, inqueue, outqueue, pool, worker_handler, task_handler, result_handler, cache, \
        timeout_handler = P[:10]
    th_none = q.outcome_edges(fi, '%s is None' % timeout_handler, True) | \
        q.outcome_edges(fi, timeout_handler, False)
    pool_guard = q.outcome_edges(fi, pool, False) | \
        q.outcome_edges(fi, lambda t: t.startswith('hasattr(%s[0], ' % pool), False)
    assumed = th_none | pool_guard

    def on_every_path(key, pattern, argcheck=None, extra_block=()):
        ns = [n for (n, c) in q.calls(fi, pattern) if argcheck is None or argcheck(c)]
        ok, w = cfg.must_pass([cfg.entry], [cfg.exit], ns, skip_labels=('x',)) if ns else (False, None)
        if ns:
            r = cfg.reach([cfg.entry.id], block_nodes={n.id for n in ns},
                          block_edges=assumed | set(extra_block), skip_labels=('x',))
            ok = cfg.exit.id not in r
            w = None if ok else cfg.path([cfg.entry.id], [cfg.exit.id], block_nodes={n.id for n in ns},
                                         block_edges=assumed | set(extra_block), skip_labels=('x',))
        ctx.ob('R08.3', key, ok, fi, ns[0] if ns else None,
               'on every normal path (assuming %s is set and the pool holds processes)' % timeout_handler
               if ok else 'missing or skippable', path=w)
        return ns

    on_every_path('terminate_pool:supervisor-marked', worker_handler + '.terminate')
    on_every_path('terminate_pool:task-feeder-marked', task_handler + '.terminate')
    on_every_path('terminate_pool:task-sentinel', taskqueue + '.put',
                  lambda c: len(c.args) == 1 and isinstance(c.args[0], ast.Constant) and c.args[0].value is None)
    rs = on_every_path('terminate_pool:result-sentinel', (cls + '._set_result_sentinel', outqueue + '.put'))
    srs = m.func('pool:Pool._set_result_sentinel')
    ok = any(isinstance(c.args[0], ast.Constant) and c.args[0].value is None
             for (n, c) in q.calls(srs, srs.positional_params()[1] + '.put') if c.args)
    ctx.ob('R08.3', '_set_result_sentinel:puts-None', ok, srs, None, 'outqueue.put(None)')
    on_every_path('terminate_pool:scanner-marked', timeout_handler + '.terminate')
    on_every_path('terminate_pool:task-feeder-stopped', (cls + '._stop_task_handler', 'stop_if_not_current'),
                  lambda c: c.args and ast.unparse(c.args[0]) == task_handler)
    on_every_path('terminate_pool:result-handler-stopped', result_handler + '.stop')
    on_every_path('terminate_pool:scanner-stopped', timeout_handler + '.stop')
    # per-worker loops
    fors = [n for n in cfg.where(lambda n: n.kind == 'for') if ast.unparse(n.stmt.iter) == pool]
    term_loops, join_loops = [], []
    for f in fors:
        var = ast.unparse(f.stmt.target)
        alive = q.outcome_edges(fi, (var + '._is_alive()', var + '.is_alive()'), False)
        started = q.outcome_edges(fi, var + '._popen is None', True)
        tn = [n for (n, c) in q.calls(fi, var + '.terminate') if q.inside(fi, n, f.stmt.body)]
        jn = [n for (n, c) in q.calls(fi, var + '.join') if q.inside(fi, n, f.stmt.body)]
        if tn:
            ok, w = q.every_iteration_passes(fi, f, tn, block_edges=alive)
            ctx.ob('R08.3', 'terminate_pool:every-live-worker-terminated', ok, fi, f,
                   'each iteration over the worker list terminates the worker unless it is not alive', path=w)
            term_loops.append(f)
            early = q.loop_early_exits(fi, f)
            ctx.ob('R08.3', 'terminate_pool:terminate-loop-visits-every-worker', not early, fi,
                   early[0] if early else f, 'the loop is left only when the worker list is exhausted'
                   if not early else 'loop left early by `%s`' % early[0].text())
        if jn:
            ok, w = q.every_iteration_passes(fi, f, jn, block_edges=alive | started)
            ctx.ob('R08.3', 'terminate_pool:every-live-worker-joined', ok, fi, f,
                   'each iteration joins the worker unless it is not alive / never started', path=w)
            join_loops.append(f)
            early = q.loop_early_exits(fi, f)
            ctx.ob('R08.3', 'terminate_pool:join-loop-visits-every-worker', not early, fi,
                   early[0] if early else f, 'the loop is left only when the worker list is exhausted'
                   if not early else 'loop left early by `%s`' % early[0].text())
    for key, loops in (('terminate-loop', term_loops), ('join-loop', join_loops)):
        ok = False
        w = None
        if loops:
            r = cfg.reach([cfg.entry.id], block_nodes={f.id for f in loops}, block_edges=assumed,
                          skip_labels=('x',))
            ok = cfg.exit.id not in r
        ctx.ob('R08.3', 'terminate_pool:%s-on-every-path' % key, ok, fi, loops[0] if loops else None,
               'the loop over the worker list is on every normal path when the pool holds processes')
    if term_loops and join_loops:
        # terminate before join
        r = cfg.reach([cfg.entry.id], block_nodes={f.id for f in term_loops}, block_edges=assumed,
                      skip_labels=('x',))
        ok = not any(f.id in r for f in join_loops)
        w = None if ok else cfg.path([cfg.entry.id], [f.id for f in join_loops],
                                     block_nodes={f.id for f in term_loops}, block_edges=assumed,
                                     skip_labels=('x',))
        ctx.ob('R08.3', 'terminate_pool:terminate-before-join', ok, fi, join_loops[0],
               'workers are signalled before they are joined', path=w)


def r08_4(ctx):
    ctx.rule('R08.4', 'Pool._terminate_pool is referenced only as the Finalize callback stored in '
                      'Pool._terminate; terminate() and __exit__ go through that object', floor=3)
    m = ctx.model
    refs = []
    for fi in m.funcs.values():
        for n in walk_own(fi.node):
            if isinstance(n, ast.Attribute) and n.attr == '_terminate_pool':
                refs.append((fi, n))
            elif isinstance(n, ast.Name) and n.id == '_terminate_pool':
                refs.append((fi, n))
    q.need(refs, 'no reference to _terminate_pool found')
    init = m.func('pool:Pool.__init__')
    fin = None
    for n in walk_own(init.node):
        if isinstance(n, ast.Assign) and any(ast.unparse(t) == 'self._terminate' for t in n.targets) \
                and isinstance(n.value, ast.Call) and init.callee(n.value).split('.')[-1] == 'Finalize':
            fin = n.value
    ctx.ob('R08.4', 'Pool.__init__:finalizer-registered', fin is not None and len(fin.args) >= 2 and
           ast.unparse(fin.args[1]) == 'self._terminate_pool', init, fin,
           'self._terminate = Finalize(self, self._terminate_pool, ...)')
    for (fi, n) in refs:
        ok = fin is not None and any(x is n for x in ast.walk(fin))
        ctx.ob('R08.4', 'ref:%s' % fi.qual.split(':')[1], ok, fi, n,
               'the only reference is the Finalize registration' if ok else
               '_terminate_pool referenced outside the Finalize registration (can run twice)')
    term = m.func('pool:Pool.terminate')
    tcalls = q.nodes_calling(term, 'self._terminate')
    ok, w = term.cfg.must_pass([term.cfg.entry], [term.cfg.exit], tcalls, skip_labels=('x',)) if tcalls else (False, None)
    ctx.ob('R08.4', 'terminate:calls-finalizer', ok, term, None, 'every normal path calls self._terminate()', path=w)
    sets = [dn for (dn, t, v) in q.assigns(term, 'self._state') if ast.unparse(v) == 'TERMINATE']
    ok = bool(sets) and bool(tcalls) and all(term.cfg.dominated_by(tc, sets)[0] for tc in tcalls)
    ctx.ob('R08.4', 'terminate:state-set-first', ok, term, None, 'self._state = TERMINATE before the finalizer runs')
    ex = m.func('pool:Pool.__exit__')
    ok = bool(q.nodes_calling(ex, 'self.terminate'))
    ctx.ob('R08.4', '__exit__:terminates', ok, ex, None, '__exit__ calls self.terminate()')


def r08_5(ctx):
    ctx.rule('R08.5', 'terminate_job marks the process it signalled, and the reaper reports Terminated '
                      'exactly for marked processes', floor=3)
    m = ctx.model
    fi = m.func('pool:Pool.terminate_job')
    cfg = fi.cfg
    kills = q.calls(fi, ('_kill', 'os.kill'))
    q.need(kills, 'terminate_job sends no signal')
    marks = q.assigns(fi, lambda t: t.endswith('._job_terminated'))
    ok = bool(marks)
    ctx.ob('R08.5', 'terminate_job:marks', ok, fi, None, 'assigns <proc>._job_terminated')
    pid = fi.positional_params()[1]
    for (dn, t, v) in marks:
        procname = ast.unparse(t.value)
        # proc was looked up by the pid that is signalled
        looked = [vv for (n2, tt, vv) in q.assigns(fi, procname)]
        lk_ok = False
        for n2 in cfg.where(lambda n: n.kind == 'stmt' and isinstance(n.ast, ast.Assign)):
            if procname in [x.id for x in ast.walk(n2.ast.targets[0]) if isinstance(x, ast.Name)] and \
                    isinstance(n2.ast.value, ast.Call) and \
                    fi.callee(n2.ast.value) == 'self._process_by_pid' and \
                    ast.unparse(n2.ast.value.args[0]) == pid:
                lk_ok = True
        kill_same = all(ast.unparse(c.args[0]) == pid for (n, c) in kills)
        ok = lk_ok and kill_same and ast.unparse(v) == 'True'
        ctx.ob('R08.5', 'terminate_job:marks-the-signalled-process', ok, fi, dn,
               '%s looked up by %s, signal sent to %s' % (procname, pid, pid))
        # only after a completed kill
        ok, w = cfg.dominated_by(dn, [n for (n, c) in kills], completed=True)
        # and not on the exception edge: the mark must not be reachable from a handler
        hnodes = [n for n in cfg.where(lambda n: n.kind == 'except')]
        via_handler = any(dn.id in cfg.reach([h.id]) for h in hnodes)
        ctx.ob('R08.5', 'terminate_job:mark-only-after-successful-signal', ok and not via_handler, fi, dn,
               'the mark is set only when the kill call completed', path=w)
    je = m.func('pool:Pool._join_exited_workers')
    st = q.calls(je, lambda c: c.endswith('._set_terminated'))
    q.need(st, '_join_exited_workers never calls _set_terminated')
    flag = lambda t: t.startswith('getattr(') and "'_job_terminated'" in t and t.endswith('False)')
    for (n, c) in st:
        ok = q.has_guard(je, n, flag, True)
        ctx.ob('R08.5', 'reaper:terminated-iff-marked', ok, je, c,
               '_set_terminated is called under getattr(proc, "_job_terminated", False)')
    lost = q.calls(je, 'self.on_job_process_lost')
    heads = {n.id for n in je.cfg.where(lambda n: n.kind == 'for')}
    marked = q.outcome_edges(je, flag, True)
    q.need(marked, '_join_exited_workers does not test the _job_terminated mark')
    r = je.cfg.reach([b for (a, b, l) in marked], block_nodes=heads, include_src=True)
    for (n, c) in lost:
        ctx.ob('R08.5', 'reaper:lost-only-when-not-marked', n.id not in r, je, c,
               'on_job_process_lost is not reachable in the iteration in which the mark was seen')


def r08_6(ctx):
    ctx.rule('R08.6', 'the termination signal is in both signal tables handled by reset_signals; the handler '
                      'sets the exit flag before raising and exits hard when re-entered', floor=5)
    m = ctx.model
    mi = m.modules['common']
    for tbl in ('TERMSIGS_DEFAULT', 'TERMSIGS_FULL'):
        v = mi.assigns.get(tbl)
        ok = isinstance(v, ast.Set) and any(isinstance(e, ast.Name) and e.id == 'TERM_SIGNAME' for e in v.elts)
        ctx.ob('R08.6', 'common:%s-has-term-signal' % tbl, ok, None, v,
               '%s contains TERM_SIGNAME' % tbl, line=getattr(v, 'lineno', 0))
    sigs = mi.all_assigns.get('TERM_SIGNAL', [])
    names = mi.all_assigns.get('TERM_SIGNAME', [])
    q.need(sigs and len(sigs) == len(names), 'TERM_SIGNAL/TERM_SIGNAME assignments not found pairwise')
    for v, vn in zip(sigs, names):
        a, b = ast.unparse(v), ast.unparse(vn)
        ok = (isinstance(vn, ast.Constant) and a == 'signal.' + str(vn.value)) or a == 'getattr(signal, %s)' % b
        ctx.ob('R08.6', 'common:term-signal-and-name-agree', ok, None, v, 'TERM_SIGNAL, TERM_SIGNAME = %s, %s' % (a, b),
               line=getattr(v, 'lineno', 0))
    rs = m.func('common:reset_signals')
    P = rs.positional_params()
    d = rs.default_of(P[0])
    ctx.ob('R08.6', 'reset_signals:default-handler', d is not None and ast.unparse(d) == '_shutdown_cleanup', rs, d,
           'default handler is _shutdown_cleanup')
    # iterates the tables, installs `handler`
    it_ok = any(isinstance(n, ast.For) and 'TERMSIGS_FULL' in ast.unparse(n.iter) and 'TERMSIGS_DEFAULT' in ast.unparse(n.iter)
                for n in walk_own(rs.node))
    ctx.ob('R08.6', 'reset_signals:iterates-tables', it_ok, rs, None, 'for sig in TERMSIGS_FULL if full else TERMSIGS_DEFAULT')
    inst = [c for (n, c) in q.calls(rs, ('maybe_setsignal', 'signal.signal'))
            if len(c.args) == 2 and ast.unparse(c.args[1]) == P[0]]
    ctx.ob('R08.6', 'reset_signals:installs-handler', bool(inst), rs, inst[0] if inst else None,
           'maybe_setsignal(num, handler)')
    sc = m.func('common:_shutdown_cleanup')
    cfg = sc.cfg
    hard = q.nodes_calling(sc, 'os._exit')
    ok = bool(hard) and all(q.has_guard(sc, n, EXIT_FLAG, True) for n in hard)
    ctx.ob('R08.6', '_shutdown_cleanup:hard-exit-when-reentered', ok, sc, hard[0] if hard else None,
           'os._exit under %s' % EXIT_FLAG)
    ex = q.calls(sc, 'sys.exit')
    ok = bool(ex)
    ctx.ob('R08.6', '_shutdown_cleanup:raises-SystemExit', ok, sc, None, 'calls sys.exit(...)')
    # the worker installs it: after_fork calls reset_signals without overriding the handler
    af = m.func('pool:Worker.after_fork')
    calls_ = q.calls(af, 'reset_signals')
    ok = bool(calls_) and all(not c.args and all(k.arg != P[0] for k in c.keywords) for (n, c) in calls_)
    ctx.ob('R08.6', 'after_fork:installs-default-handler', ok, af, None, 'reset_signals(full=...) with the default handler')
    ok, w = af.cfg.must_pass([af.cfg.entry], [af.cfg.exit], [n for (n, c) in calls_], skip_labels=('x',)) if calls_ else (False, None)
    ctx.ob('R08.6', 'after_fork:reset_signals-on-every-path', ok, af, None, 'not skippable', path=w)


def r08_9(ctx):
    ctx.rule('R08.9', 'the worker installs its termination handlers after everything user-supplied has run in '
                      'after_fork, and before the work loop: nothing later can replace them', floor=2)
    m = ctx.model
    fi = m.func('pool:Worker.after_fork')
    cfg = fi.cfg
    resets = q.nodes_calling(fi, 'reset_signals')
    q.need(resets, 'Worker.after_fork does not call reset_signals')
    user = [n for (n, c) in q.calls(fi, lambda t: t in ('self.initializer',))]
    q.need(user, 'Worker.after_fork does not call the initializer')
    after = cfg.reach([r.id for r in resets], skip_labels=('x',))
    late = [u for u in user if u.id in after]
    ctx.ob('R08.9', 'after_fork:no-user-code-after-the-handlers-are-installed', not late, fi, late[0] if late else resets[0],
           'the initializer runs before reset_signals()' if not late else
           'the initializer runs after reset_signals(): whatever it does to SIGTERM / SIGHUP (Celery resets them) '
           'replaces the handler that turns the signal into SystemExit -- a signalled worker dies without its exit '
           'callback, or does not stop at all')
    ok = cfg.must_pass([cfg.entry], [cfg.exit], resets, skip_labels=('x',))[0]
    ctx.ob('R08.9', 'after_fork:handlers-installed-on-every-path', ok, fi, resets[0], 'reset_signals() is not skippable')
    # signal.signal calls after the reset may only concern signals that are not termination signals
    term = {'signal.SIGTERM', 'signal.SIGHUP', 'signal.SIGQUIT', 'TERM_SIGNAL'}
    bad = [c for (n, c) in q.calls(fi, 'signal.signal') if n.id in after and c.args and ast.unparse(c.args[0]) in term]
    ctx.ob('R08.9', 'after_fork:no-termination-signal-rebound-afterwards', not bad, fi, bad[0] if bad else None,
           'after reset_signals only the soft-timeout signal and SIGINT are bound')


def r08_12(ctx):
    ctx.rule('R08.12', 'the signal Process.terminate() sends is the one the workers install their exit handler for '
                       '(common.TERM_SIGNAL, which REMAP_SIGTERM can move), not a literal', floor=2)
    m = ctx.model
    fi = m.func('popen_fork:Popen.terminate')
    sent = []

    def collect(f, binding, depth=0):
        for c in [x for x in walk_own(f.node) if isinstance(x, ast.Call)]:
            cal = f.callee(c)
            if cal == 'os.kill' and len(c.args) >= 2:
                a = c.args[1]
                sent.append((f, c, binding.get(a.id, f.canon(a)) if isinstance(a, ast.Name) else f.canon(a)))
            elif cal.startswith('self.') and cal.count('.') == 1 and depth < 2 and f.cls is not None:
                g = m.method(f.cls, cal.split('.')[1])
                if g is not None and g is not f and g.name not in ('wait', 'poll'):
                    P = g.positional_params()[1:]
                    b = {P[i]: f.canon(a) for i, a in enumerate(c.args) if i < len(P)}
                    b.update({k.arg: f.canon(k.value) for k in c.keywords if k.arg})
                    collect(g, b, depth + 1)
    collect(fi, {})
    q.need(sent, 'Popen.terminate sends no signal')
    tsig = m.func('common:_shutdown_cleanup')     # anchor: the receiver side lives in common
    for (f, c, sig) in sent:
        ok = sig.split('.')[-1] == 'TERM_SIGNAL'
        ctx.ob('R08.12', 'Popen.terminate:sends-TERM_SIGNAL', ok, f, c,
               'os.kill(pid, TERM_SIGNAL)' if ok else
               'terminate() sends `%s`; with REMAP_SIGTERM set the workers ignore SIGTERM and handle TERM_SIGNAL: '
               'terminate(), shrink() and the hard time limit then signal nobody' % sig)
    # the pool's own senders use the same constant
    n_pool = 0
    for qn, f in sorted(m.funcs.items()):
        if f.module.name != 'pool':
            continue
        for (n, c) in q.calls(f, ('_kill', 'os.kill')):
            if len(c.args) >= 2 and 'TERM' in ast.unparse(c.args[1]).upper():
                n_pool += 1
                names = {f.canon(x).split('.')[-1] for x in ast.walk(c.args[1])
                         if isinstance(x, (ast.Name, ast.Attribute))}
                ok = 'TERM_SIGNAL' in names and 'SIGTERM' not in names
                ctx.ob('R08.12', '%s:sends-TERM_SIGNAL' % f.qual.split(':')[1], ok, f, c, ast.unparse(c))
    q.need(n_pool >= 1, 'pool.py: no sender of the termination signal found')


def r08_11(ctx):
    ctx.rule('R08.11', 'a termination signal that arrived while a task was running is honoured even when the task '
                       'swallowed the SystemExit it raised: before the worker takes another job it looks at the '
                       'exit-requested flag', floor=1)
    from .poolfacts import WorkloopAnchors
    A = WorkloopAnchors(ctx)
    fi, cfg = A.fi, A.fi.cfg
    takes = q.nodes_calling(fi, 'self.wait_for_job')
    q.need(takes, 'Worker.workloop does not call wait_for_job')
    flag = lambda t: t.replace(' ', '') in (EXIT_FLAG + '[0]', EXIT_FLAG.split('.')[-1] + '[0]') or \
        t.replace(' ', '').endswith('_should_have_exited[0]')
    looks = q.outcome_edges(fi, flag, True) | q.outcome_edges(fi, flag, False)
    tests = {a for (a, b, l) in looks}
    # the D2 repair tests the flag only inside the except arm (together with isinstance): a look that every path
    # from the task call to the next job passes is what is asked for
    starts = []
    for tn in A.task_nodes:
        starts += [b for (b, l) in cfg.succ[tn.id]]
    r = cfg.reach(starts, block_nodes=tests, include_src=True)
    again = [t for t in takes if t.id in r]
    ctx.ob('R08.11', 'workloop:exit-flag-looked-at-before-the-next-job', not again, fi, again[0] if again else None,
           'every path from the task call to the next wait_for_job() tests the exit-requested flag' if not again else
           'a task that catches BaseException swallows the SystemExit of the termination handler; the worker then '
           'sends the result and goes on to take further jobs (terminate_job / hard time limit / operator TERM has no '
           'effect until SIGKILL, which may hit it while it holds the task pipe lock)',
           path=None if not again else cfg.path(starts, [again[0].id], block_nodes=tests))
    # ... and the look has consequences: from the "exit was requested" outcome of every look that lies behind the task
    # call, the next wait_for_job() is not reachable (the worker leaves by raise / return)
    # the looks that count are those made after the result was sent (the one in the task's handler decides, together
    # with the exception type, whether there is a result at all)
    sent = [n.id for (n, c, pl) in A.puts.get('READY', [])]
    q.need(sent, 'Worker.workloop sends no READY')
    behind = cfg.reach(sent, include_src=False, skip_labels=('x',))
    yes = [b for (a, b, l) in q.outcome_edges(fi, flag, True) if a in behind and
           not any(q.inside(fi, cfg.nodes[a], h.body) for t_ in ast.walk(fi.node) if isinstance(t_, ast.Try)
                   for h in t_.handlers if any(x is tc for st_ in t_.body for x in ast.walk(st_) for tc in A.task_calls))]
    q.need(yes, 'Worker.workloop: no exit-requested outcome behind the task call')
    r2 = cfg.reach(yes, include_src=True)
    goes_on = [t for t in takes if t.id in r2]
    ctx.ob('R08.11', 'workloop:exit-requested-means-no-further-job', not goes_on, fi, goes_on[0] if goes_on else None,
           'with the exit-requested flag set the worker leaves the loop (raise / return), it never reaches the next '
           'wait_for_job()' if not goes_on else
           'the flag is looked at but with it set the worker still goes on to wait for the next job',
           path=None if not goes_on else cfg.path(yes, [goes_on[0].id]))



def r08_13(ctx):
    ctx.rule('R08.13', 'terminate() signals the workers before it joins the result handler: that thread drains until the '
                       'cache is empty or the workers are gone, so joined first it waits for the running tasks', floor=1)
    m = ctx.model
    fi = m.func('pool:Pool._terminate_pool')
    cfg = fi.cfg
    term = [n for (n, c) in q.calls(fi, lambda t: t.endswith('.terminate') and not t.startswith('timeout_handler')
                                    and not t.startswith('result_handler') and not t.startswith('task_handler'))]
    stops = [n for (n, c) in q.calls(fi, 'result_handler.stop')]
    q.need(term and stops, '_terminate_pool: worker terminate loop or result_handler.stop() not found')
    after = cfg.reach([s.id for s in stops], skip_labels=('x',))
    late = [t for t in term if t.id in after]
    ctx.ob('R08.13', '_terminate_pool:workers-signalled-before-result-handler-joined', not late, fi,
           late[0] if late else stops[0],
           'p.terminate() for every worker precedes result_handler.stop()' if not late else
           'result_handler.stop() is reached before the workers were signalled: terminate() waits for the running tasks '
           '(for ever, with jobs still queued)')



def r08_14(ctx):
    ctx.rule('R08.14', 'the finalizer stops what the pool has: every helper thread handed to _terminate_pool (the argument '
                       'tuple is built once, in __init__) is bound in __init__ only -- a thread created later is one '
                       'terminate() never stops or joins', floor=3)
    m = ctx.model
    init = m.func('pool:Pool.__init__')
    fin = [c for (n, c) in q.calls(init, lambda t: t.endswith('Finalize'))]
    q.need(fin, 'Pool.__init__ creates no finalizer')
    args = [k.value for k in fin[0].keywords if k.arg == 'args']
    q.need(args and isinstance(args[0], ast.Tuple), 'Pool.__init__: finalizer arguments not found')
    attrs = [ast.unparse(e) for e in args[0].elts if isinstance(e, ast.Attribute) and ast.unparse(e).startswith('self._')
             and ('handler' in ast.unparse(e))]
    ci = m.cls('pool:Pool')
    for a in attrs:
        writers = sorted({fi.qual.split(':')[1] for qn, fi in m.funcs.items()
                          if fi.cls is not None and fi.cls.qual == ci.qual and q.assigns(fi, a)})
        ok = writers == ['Pool.__init__']
        ctx.ob('R08.14', 'finalizer-argument:%s-bound-in-__init__-only' % a.split('.')[1], ok, init, fin[0],
               '%s is assigned in %s' % (a, writers))


def run(ctx):
    from .sweep import r08_15 as _r08_15, r07_15 as _r07_15b
    _r08_15(ctx)
    _r07_15b(ctx, 'R08.16')
    from .sweep import r08_17 as _r08_17, r07_16 as _r07_16b
    _r08_17(ctx)
    _r07_16b(ctx, 'R08.18')
    from .sweep import r08_19 as _r08_19
    _r08_19(ctx)
    r08_14(ctx)
    # a worker interrupted inside a task has sent no result for it: the counter its exit wait compares with the parent's
    # credit counts results sent, not jobs taken (borrowed from C03) -- otherwise the signalled worker sits out 30 s
    from .c03 import r03_4 as _r03_4
    from .poolfacts import WorkloopAnchors as _WA
    from ..report import Only as _Only8
    _r03_4(_Only8(ctx, ('one-increment-per-executed-job', 'no-increment-before-task'), floor=2, doc='the completed counter moves after the task ran and its result was sent, never before'), _WA(ctx))
    r08_13(ctx)
    # the finalizer got the worker list at construction: it terminates the workers on *that* list
    from .c07 import r07_2
    from ..report import Only
    r07_2(Only(ctx, ('rebind', 'tell_others-on-every-normal-exit'), floor=2,
               doc='the lists and tables handed to the helper threads and to the finalizer are mutated in place, never '
                   're-bound; the feeder sends the shutdown sentinels on every way out of its loop (the finalizer '
                   'blocks on the task-queue lock an idle worker holds until its sentinel arrives)'))
    r08_12(ctx)
    r08_11(ctx)
    r08_9(ctx)
    # terminate() ends by joining every worker without a timeout
    from .c19 import untimed_sentinel_wait
    ctx.rule('R08.10', 'the untimed join of a worker blocks in waitpid, not on the sentinel pipe its descendants keep '
                       'open', floor=1)
    untimed_sentinel_wait(ctx, 'R08.10')
    r08_1(ctx)
    r08_2(ctx)
    r08_3(ctx)
    r08_4(ctx)
    r08_5(ctx)
    r08_6(ctx)
    # no worker is forked after terminate() signalled the pool: the refill loop re-checks the state
    from .c09 import r09_1
    r09_1(ctx, refill=False)
    # the feeder stops handing out queued tasks as soon as the pool is terminated
    from .c01 import feeder_serves_while_running
    feeder_serves_while_running(ctx, 'R08.7', parts='b')
    # a reader killed in the middle of a message must not leave the pipe lock held
    from .c16 import simple_queue_io_under_lock
    ctx.rule('R08.8', 'the pool\'s pipes are read and written inside `with <lock>`: a worker stopped by the '
                      'termination signal in the middle of a message gives the lock back', floor=2)
    simple_queue_io_under_lock(ctx, 'R08.8')


_P ='billiard/pool.py'
_C = 'billiard/common.py'
MUTANTS = [
    ('terminate-does-not-publish-the-state', 'billiard/pool.py', '    def terminate(self):\n        self._state = TERMINATE\n', '    def terminate(self):\n        pass\n', 'R08.15'),
    ('exit-flag-looked-at-but-ignored', 'billiard/pool.py', '                        # honour the signal now, do not take another job.\n                        raise SystemExit()\n', '                        # honour the signal now, do not take another job.\n                        pass\n', 'R08.11'),
    ('own-handlers-left-alone', 'billiard/common.py', '        (current is not None and current != signal.SIG_IGN)\n', '        current == signal.SIG_DFL\n', 'R08.17'),
    ('exiting-worker-ignores-the-termination-signal', 'billiard/pool.py', '        if self.on_exit is not None:\n            self.on_exit(pid, exitcode)\n', '        signal.signal(TERM_SIGNAL, signal.SIG_IGN)\n        if self.on_exit is not None:\n            self.on_exit(pid, exitcode)\n', 'R08.19'),
    ('scanner-created-on-demand', _P, "        if self.threads and self._timeout_handler is not None:\n            with self._timeout_handler_mutex:\n", "        if self.threads and self._timeout_handler is None and self._timeout_handler_mutex is not None:\n            self._timeout_handler = self.TimeoutHandler(self._pool, self._cache, self.soft_timeout, self.timeout)\n        if self.threads and self._timeout_handler is not None:\n            with self._timeout_handler_mutex:\n", 'R08.14'),
    ('result-handler-joined-before-workers-signalled', _P, "        # Terminate workers which haven't already finished\n        if pool and hasattr(pool[0], 'terminate'):\n            debug('terminating workers')\n            for p in pool:\n                if p._is_alive():\n                    p.terminate()\n\n        debug('joining task handler')\n        cls._stop_task_handler(task_handler)\n\n        debug('joining result handler')\n        result_handler.stop()\n",
     "        debug('joining task handler')\n        cls._stop_task_handler(task_handler)\n\n        debug('joining result handler')\n        result_handler.stop()\n\n        # Terminate workers which haven't already finished\n        if pool and hasattr(pool[0], 'terminate'):\n            debug('terminating workers')\n            for p in pool:\n                if p._is_alive():\n                    p.terminate()\n", 'R08.13'),
    ('terminate-sends-a-literal-SIGTERM', 'billiard/popen_fork.py', "                os.kill(self.pid, TERM_SIGNAL)\n", "                os.kill(self.pid, signal.SIGTERM)\n", 'R08.12'),
    ('reaper-rebinds-the-worker-list', _P, "                del self._pool[i]\n                del self._poolctrl[worker.pid]\n",
     "                self._pool = [w for w in self._pool if w is not worker]\n                del self._poolctrl[worker.pid]\n", 'R07.2'),
    ('swallowed-termination-not-honoured', _P, "                    if _should_have_exited[0]:\n                        # the termination-signal handler ran while the task\n                        # was running and the task swallowed the SystemExit:\n                        # honour the signal now, do not take another job.\n                        raise SystemExit()\n", "", 'R08.11'),
    ('handlers-installed-before-the-initializer', _P,
     "        if self.initializer is not None:\n            self.initializer(*self.initargs)\n\n        # Make sure all exiting signals call finally: blocks.\n        # This is important for the semaphore to be released.\n        reset_signals(full=self.sigprotection)\n",
     "        reset_signals(full=self.sigprotection)\n\n        if self.initializer is not None:\n            self.initializer(*self.initargs)\n", 'R08.9'),
    ('handlers-only-with-sigprotection', _P, "        reset_signals(full=self.sigprotection)\n",
     "        if self.sigprotection:\n            reset_signals(full=True)\n", 'R08.9'),
    ('untimed-join-waits-on-the-sentinel', 'billiard/popen_fork.py',
     "            if timeout is not None:\n                from .connection import wait\n                if not wait([self.sentinel], timeout):\n                    return None\n",
     "            from .connection import wait\n            if not wait([self.sentinel], timeout):\n                return None\n", 'R08.10'),
    ('refill-state-checked-once', _P, "        for i in range(self._processes - len(self._pool)):\n            if self._state != RUN:\n                return\n",
     "        if self._state != RUN:\n            return\n        for i in range(self._processes - len(self._pool)):\n", 'R09.1'),
    ('feeder-state-checked-once-per-sequence', _P, "                for i, task in enumerate(taskseq):\n                    if self._state:\n                        debug('task handler found thread._state != RUN')\n                        break\n                    try:\n",
     "                if self._state:\n                    break\n                for i, task in enumerate(taskseq):\n                    try:\n", 'R08.7'),
    ('pipe-read-lock-not-released-on-error', 'billiard/queues.py', "        with self._rlock:\n            return self._reader.recv_bytes()\n",
     "        self._rlock.acquire()\n        res = self._reader.recv_bytes()\n        self._rlock.release()\n        return res\n", 'R08.8'),
    ('swallow-systemexit', _P,
     "                        if (isinstance(exc, SystemExit) and\n                                _should_have_exited[0]):\n",
     "                        if False:\n", 'R08.1'),
    ('flag-set-after-exit', _C,
     "    _should_have_exited[0] = True\n    sys.exit(-(256 - signum))",
     "    try:\n        sys.exit(-(256 - signum))\n    finally:\n        _should_have_exited[0] = True", 'R08.1'),
    ('receive-bare-except', _P,
     "            except (EOFError, IOError) as exc:\n                if get_errno(exc) == errno.EINTR:",
     "            except BaseException as exc:\n                if get_errno(exc) == errno.EINTR:", 'R08.1'),
    ('do_exit-only-on-error', _P,
     "        finally:\n            self._do_exit(pid, _exitcode[0], None)\n",
     "        else:\n            self._do_exit(pid, _exitcode[0], None)\n", 'R08.2'),
    ('death-before-callback', _P,
     "        if self.on_exit is not None:\n            self.on_exit(pid, exitcode)\n\n        if sys.platform != 'win32':\n            try:\n                self.outq.put((DEATH, (pid, exitcode)))\n                time.sleep(1)\n            finally:\n                os._exit(exitcode)",
     "        if sys.platform != 'win32':\n            try:\n                self.outq.put((DEATH, (pid, exitcode)))\n                time.sleep(1)\n                if self.on_exit is not None:\n                    self.on_exit(pid, exitcode)\n            finally:\n                os._exit(exitcode)", 'R08.2'),
    ('death-no-finally', _P,
     "            try:\n                self.outq.put((DEATH, (pid, exitcode)))\n                time.sleep(1)\n            finally:\n                os._exit(exitcode)",
     "            self.outq.put((DEATH, (pid, exitcode)))\n            time.sleep(1)\n            os._exit(exitcode)", 'R08.2'),
    ('death-swapped', _P, "self.outq.put((DEATH, (pid, exitcode)))", "self.outq.put((DEATH, (exitcode, pid)))", 'R08.2'),
    ('terminate-only-first', _P,
     "            for p in pool:\n                if p._is_alive():\n                    p.terminate()\n",
     "            for p in pool:\n                if p._is_alive():\n                    p.terminate()\n                    break\n", 'R08.3'),
    ('terminate-skips-busy', _P,
     "            for p in pool:\n                if p._is_alive():\n                    p.terminate()\n",
     "            for p in pool:\n                if p._is_alive() and not cache:\n                    p.terminate()\n", 'R08.3'),
    ('no-result-sentinel', _P, "        cls._set_result_sentinel(outqueue, pool)\n", "        pass\n", 'R08.3'),
    ('scanner-not-stopped', _P, "            timeout_handler.stop(TIMEOUT_MAX)\n", "            pass\n", 'R08.3'),
    ('task-sentinel-conditional', _P, "        taskqueue.put(None)                 # sentinel\n",
     "        if cache:\n            taskqueue.put(None)\n", 'R08.3'),
    ('terminate-direct', _P, "        self._worker_handler.terminate()\n        self._terminate()\n",
     "        self._worker_handler.terminate()\n        self._terminate_pool(self._taskqueue, self._inqueue, self._outqueue, self._pool, self._worker_handler, self._task_handler, self._result_handler, self._cache, self._timeout_handler, self._help_stuff_finish_args())\n", 'R08.4'),
    ('mark-on-failure-too', _P,
     "            else:\n                proc._controlled_termination = True\n                proc._job_terminated = True",
     "            proc._controlled_termination = True\n            proc._job_terminated = True", 'R08.5'),
    ('terminated-unconditional', _P, "if proc and getattr(proc, '_job_terminated', False):", "if proc:", 'R08.5'),
    ('sigterm-not-in-default', _C, "    'SIGQUIT',\n    TERM_SIGNAME,\n    'SIGUSR1',\n}\n\nTERMSIGS_FULL",
     "    'SIGQUIT',\n    'SIGUSR1',\n}\n\nTERMSIGS_FULL", 'R08.6'),
    ('no-hard-exit', _C, "    if _should_have_exited[0]:\n        os._exit(EX_SOFTWARE)\n", "", 'R08.6'),
]
TWINS = [
    ('flag-via-local', _P,
     "                        if (isinstance(exc, SystemExit) and\n                                _should_have_exited[0]):\n",
     "                        if _should_have_exited[0] and isinstance(exc, SystemExit):\n"),
    ('reraise-always-systemexit', _P,
     "                        if (isinstance(exc, SystemExit) and\n                                _should_have_exited[0]):\n",
     "                        if isinstance(exc, SystemExit):\n"),
    ('separate-clause', _P,
     "                    except BaseException as exc:\n                        if (isinstance(exc, SystemExit) and\n                                _should_have_exited[0]):\n                            # raised by the termination-signal handler:\n                            # honour it, it is not the task's result.\n                            raise\n",
     "                    except SystemExit:\n                        raise\n                    except BaseException as exc:\n"),
    ('alive-spelling', _P, "                if p._is_alive():\n                    p.terminate()", "                if not p._is_alive():\n                    continue\n                p.terminate()"),
]
