"""C17 — locks, semaphores, conditions and events: no lost wake-ups (structural clauses only)."""
import ast

from ..model import walk_own, dotted
from .. import q
from .reduce import r12_1


def r17_1(ctx):
    ctx.rule('R17.1', 'Lock, RLock, Semaphore and BoundedSemaphore construct the underlying semaphore with the right '
                      'kind, initial value and maximum', floor=4)
    m = ctx.model
    want = {'Lock': ('SEMAPHORE', '1', '1'), 'RLock': ('RECURSIVE_MUTEX', '1', '1'),
            'Semaphore': ('SEMAPHORE', 'value', 'SEM_VALUE_MAX'), 'BoundedSemaphore': ('SEMAPHORE', 'value', 'value')}
    for name, (kind, val, mx) in sorted(want.items()):
        fi = m.func('synchronize:%s.__init__' % name)
        calls_ = [c for (n, c) in q.calls(fi, ('SemLock.__init__', 'super().__init__'))]
        ok = len(calls_) == 1
        if ok:
            a = [ast.unparse(x) for x in calls_[0].args]
            a = a[1:] if a and a[0] == 'self' else a
            ok = a[:3] == [kind, val, mx]
        ctx.ob('R17.1', '%s:(kind, value, max)' % name, ok, fi, calls_[0] if calls_ else None,
               'SemLock.__init__(self, %s, %s, %s)' % (kind, val, mx))
    sl = m.func('synchronize:SemLock._make_methods')
    vals = {ast.unparse(t): ast.unparse(v) for (dn, t, v) in q.assigns(sl, None) if v is not None}
    ok = vals.get('self.acquire') == 'self._semlock.acquire' and vals.get('self.release') == 'self._semlock.release'
    ctx.ob('R17.1', 'SemLock:acquire-release-are-the-semaphore', ok, sl, None, str(vals))


def r17_2(ctx):
    ctx.rule('R17.2', 'Condition.wait: announce, release the lock count times, block; on every exit from the block '
                      'acknowledge (woken_count) and re-acquire the lock the same number of times; return what the '
                      'blocking acquire returned', floor=7)
    m = ctx.model
    fi = m.func('synchronize:Condition.wait')
    cfg = fi.cfg
    T = fi.positional_params()[1]
    blocks = [(n, c) for (n, c) in q.calls(fi, 'self._wait_semaphore.acquire')]
    q.need(blocks, 'Condition.wait does not block on _wait_semaphore')
    bn, bc = blocks[0]
    ok = [ast.unparse(a) for a in bc.args] == ['True', T]
    ctx.ob('R17.2', 'wait:blocks-with-timeout', ok, fi, bc, 'self._wait_semaphore.acquire(True, timeout)')
    ann = q.nodes_calling(fi, 'self._sleeping_count.release')
    ok, w = cfg.dominated_by(bn, ann, completed=True) if ann else (False, None)
    ctx.ob('R17.2', 'wait:announced-before-blocking', ok, fi, bn, '_sleeping_count.release() precedes the block', path=w)
    own = [n for n in cfg.where(lambda n: n.kind == 'stmt' and isinstance(n.ast, ast.Assert)
                                and '_is_mine()' in ast.unparse(n.ast.test))]
    ok = bool(own) and bool(ann) and all(cfg.dominated_by(a, own)[0] for a in ann)
    ctx.ob('R17.2', 'wait:asserts-ownership-first', ok, fi, None, 'assert self._lock._semlock._is_mine()')
    cnt = [(dn, v) for (dn, t, v) in q.assigns(fi, 'count')]
    ok = [ast.unparse(v) for dn, v in cnt] == ['self._lock._semlock._count()']
    ctx.ob('R17.2', 'wait:count-is-recursion-depth', ok, fi, None, 'count = self._lock._semlock._count()')
    fors = sorted(cfg.where(lambda n: n.kind == 'for'), key=lambda n: (n.stmt.lineno, n.id))
    rel_loops = [f for f in fors if any(q.inside(fi, x, f.stmt.body) for x in q.nodes_calling(fi, 'self._lock.release'))]
    acq_loops = [f for f in fors if any(q.inside(fi, x, f.stmt.body) for x in q.nodes_calling(fi, 'self._lock.acquire'))]
    ok = bool(rel_loops) and all(ast.unparse(f.stmt.iter) == 'range(count)' for f in rel_loops) and \
        all(cfg.must_pass([cfg.entry], [bn], [f], skip_labels=('x',))[0] for f in rel_loops[:1]) and \
        all(q.every_iteration_passes(fi, f, q.nodes_calling(fi, 'self._lock.release'))[0] for f in rel_loops)
    ctx.ob('R17.2', 'wait:lock-released-count-times-before-blocking', ok, fi, rel_loops[0] if rel_loops else None,
           'for i in range(count): self._lock.release()')
    ok = bool(ann) and bool(rel_loops) and cfg.must_pass([cfg.entry], rel_loops, ann, skip_labels=('x',))[0]
    ctx.ob('R17.2', 'wait:announce-before-releasing-the-lock', ok, fi, None,
           'the sleeper is counted while it still holds the lock (a notifier cannot miss it)')
    wok = q.nodes_calling(fi, 'self._woken_count.release')
    ok, w = cfg.must_pass([bn], [cfg.exit, cfg.raise_exit], wok) if wok else (False, None)
    ctx.ob('R17.2', 'wait:acknowledged-on-every-exit', ok, fi, bn,
           '_woken_count.release() on the normal, timeout and exception exits of the block (finally)', path=w)
    after_ack = [b for x in wok for (b, l) in cfg.succ[x.id] if l != 'x']
    r_ack = cfg.reach(after_ack, block_nodes={f.id for f in acq_loops}, include_src=True)
    ok = bool(acq_loops) and all(ast.unparse(f.stmt.iter) == 'range(count)' for f in acq_loops) and \
        bool(after_ack) and cfg.exit.id not in r_ack and cfg.raise_exit.id not in r_ack and \
        all(q.every_iteration_passes(fi, f, q.nodes_calling(fi, 'self._lock.acquire'))[0] for f in acq_loops)
    ctx.ob('R17.2', 'wait:lock-reacquired-count-times-on-every-exit', ok, fi, acq_loops[0] if acq_loops else None,
           'for i in range(count): self._lock.acquire() in the finally')
    ok = bool(wok) and bool(acq_loops) and all(cfg.must_pass([bn], [f], wok)[0] for f in acq_loops)
    ctx.ob('R17.2', 'wait:acknowledge-before-reacquiring', ok, fi, None,
           'the waiter reports itself woken before it competes for the lock the notifier holds')
    ok = isinstance(bn.ast, ast.Return) or any(
        isinstance(r.ast, ast.Return) and isinstance(bn.ast, ast.Assign) and
        ast.unparse(r.ast.value) == ast.unparse(bn.ast.targets[0]) for r in cfg.where(lambda r: isinstance(r.ast, ast.Return)))
    ctx.ob('R17.2', 'wait:returns-the-acquire-result', ok, fi, bn, 'True when woken, False on timeout')


def _follow_delegation(m, fi):
    """notify_all may be written as notify(n=...): analyse the function that holds the loops"""
    for c in [x for x in walk_own(fi.node) if isinstance(x, ast.Call)]:
        if fi.callee(c) == 'self.notify' and fi.name != 'notify':
            return m.func('synchronize:Condition.notify'), True
    return fi, False


def r17_3(ctx):
    ctx.rule('R17.3', 'notify / notify_all conserve tokens: ownership and a zero wait semaphore are asserted first; '
                      'timed-out waiters are reconciled one sleeper per woken token; one wake token and one '
                      'acknowledgement per sleeper grabbed; stale wake tokens are drained (by a loop when more than '
                      'one can exist)', floor=10)
    m = ctx.model
    for name in ('notify', 'notify_all'):
        fi0 = m.func('synchronize:Condition.%s' % name)
        fi, delegated = _follow_delegation(m, fi0)
        cfg = fi.cfg
        tag = name + ('(via notify)' if delegated else '')
        asserts = [n for n in cfg.where(lambda n: n.kind == 'stmt' and isinstance(n.ast, ast.Assert))]
        own = [a for a in asserts if '_is_mine()' in ast.unparse(a.ast.test)]
        zero = [a for a in asserts if ast.unparse(a.ast.test).replace(' ', '') == 'notself._wait_semaphore.acquire(False)']
        first_ops = [n for (n, c) in q.calls(fi, ('self._woken_count.acquire', 'self._sleeping_count.acquire',
                                                  'self._wait_semaphore.release'))]
        ok = bool(own) and bool(zero) and all(cfg.dominated_by(x, own)[0] and cfg.dominated_by(x, zero)[0]
                                              for x in first_ops if x not in zero)
        ctx.ob('R17.3', '%s:asserts-first' % tag, ok, fi, None,
               'assert owner; assert not self._wait_semaphore.acquire(False)')
        # reconciliation loop
        whiles = [n for n in cfg.where(lambda n: n.kind == 'loop')]
        recon = [wl for wl in whiles if ast.unparse(wl.stmt.test) == 'self._woken_count.acquire(False)']
        ok = len(recon) == 1
        if ok:
            sl = [n for (n, c) in q.calls(fi, 'self._sleeping_count.acquire')
                  if q.inside(fi, n, recon[0].stmt.body) and [ast.unparse(a) for a in c.args] == ['False']]
            ids = {n.id for n in sl}
            body_start = [n for n in cfg.nodes if n.id in cfg.live and q.inside(fi, n, recon[0].stmt.body[:1])]
            r = cfg.count_range(body_start[:1], [recon[0]], lambda x: x.id in ids, skip_labels=('x',)) if body_start else None
            first_is = bool(body_start) and body_start[0].id in ids
            ok = bool(sl) and ((r == (0, 0) and first_is and len(sl) == 1) or r == (1, 1) or
                               (first_is and r is not None and r[1] == 0))
            # an `assert` is not executed under python -O: the acquire that does the work must not live inside one
            in_assert = [n for n in sl if isinstance(n.ast, ast.Assert)]
            ctx.ob('R17.3', '%s:reconciliation-does-not-depend-on-assert' % tag, not in_assert, fi,
                   in_assert[0] if in_assert else recon[0],
                   'the sleeper registration is taken off by a statement of its own (the assert only looks at the '
                   'answer)' if not in_assert else
                   '_sleeping_count.acquire(False) is the test of an assert: with -O it is never executed, every '
                   'timed-out wait leaves a phantom sleeper and the next notify waits for ever for its acknowledgement')
        ctx.ob('R17.3', '%s:one-sleeper-per-timed-out-waiter' % tag, ok, fi, recon[0] if recon else None,
               'while woken_count.acquire(False): sleeping_count.acquire(False) exactly once')
        wake = [(n, c) for (n, c) in q.calls(fi, 'self._wait_semaphore.release')]
        ack = [(n, c) for (n, c) in q.calls(fi, 'self._woken_count.acquire') if not c.args]
        q.need(wake, 'Condition.%s releases no wake token' % name)
        grab = lambda t: t == 'self._sleeping_count.acquire(False)'
        ok = all(q.has_guard(fi, n, grab, True) or
                 any(ast.unparse(wl.stmt.test) == 'self._sleeping_count.acquire(False)' and q.inside(fi, n, wl.stmt.body)
                     for wl in whiles) for (n, c) in wake)
        ctx.ob('R17.3', '%s:wake-token-only-for-a-grabbed-sleeper' % tag, ok, fi, wake[0][1],
               '_wait_semaphore.release() only after _sleeping_count.acquire(False) succeeded')
        # stale acknowledgements of waiters that timed out are taken off *before* a sleeper is woken: otherwise the
        # notifier's wait for "the sleeper woke" is satisfied by a stale token and it takes the wake token back
        ok = bool(recon) and all(cfg.dominated_by(n, recon)[0] for (n, c) in wake)
        ctx.ob('R17.3', '%s:timed-out-waiters-reconciled-before-the-wake-up' % tag, ok, fi, wake[0][1],
               'the reconciliation loop runs before any wake token is posted' if ok else
               'the reconciliation of timed-out waiters runs after the wake-up: a stale acknowledgement satisfies '
               '_woken_count.acquire() at once and the re-zero takes the wake token back -- the notification is lost')
        # and the converse: a grabbed sleeper (its registration is consumed) always gets its token -- otherwise it
        # sleeps on, uncounted, and no later notify can reach it
        grabbed = q.outcome_edges(fi, grab, True)
        grab_tests = {a for (a, b, l) in grabbed} | {a for (a, b, l) in q.outcome_edges(fi, grab, False)}
        wake_ids = {n.id for (n, c) in wake}
        r = cfg.reach([b for (a, b, l) in grabbed], block_nodes=wake_ids, include_src=True, skip_labels=('x',))
        lost = (r & grab_tests) | ({cfg.exit.id} & r)
        ctx.ob('R17.3', '%s:every-grabbed-sleeper-gets-a-token' % tag, bool(grabbed) and not lost, fi,
               cfg.nodes[sorted(lost)[0]] if lost and sorted(lost)[0] != cfg.exit.id else None,
               'after _sleeping_count.acquire(False) succeeded every path posts _wait_semaphore.release()' if not lost else
               'a sleeper registration can be consumed without posting a wake token (e.g. the quota test comes after '
               'the grab in the loop condition): that waiter stays asleep and is no longer counted')
        in_loop = [n for (n, c) in wake if any(q.inside(fi, n, wl.stmt.body) for wl in whiles) or
                   any(q.inside(fi, n, f.stmt.body) for f in cfg.where(lambda f: f.kind == 'for'))]
        if in_loop:
            # many sleepers: a counter ties acknowledgements to wake tokens
            wl = [x for x in whiles if q.inside(fi, in_loop[0], x.stmt.body)]
            fl = [x for x in cfg.where(lambda f: f.kind == 'for') if q.inside(fi, in_loop[0], x.stmt.body)]
            loopn = (wl or fl)[0]
            incs = [dn for (dn, t, v) in q.assigns(fi, None) if isinstance(dn.ast, ast.AugAssign)
                    and isinstance(dn.ast.op, ast.Add) and ast.unparse(dn.ast.value) == '1'
                    and q.inside(fi, dn, loopn.stmt.body)]
            counter = ast.unparse(incs[0].ast.target) if incs else None
            ok = counter is not None and q.every_iteration_passes(fi, loopn, incs)[0] and \
                q.every_iteration_passes(fi, loopn, in_loop)[0]
            ctx.ob('R17.3', '%s:tokens-counted' % tag, ok, fi, loopn, 'one wake token and one count per sleeper grabbed')
            ackf = [f for f in cfg.where(lambda f: f.kind == 'for') if any(q.inside(fi, n, f.stmt.body) for (n, c) in ack)]
            ok = counter is not None and bool(ackf) and all(ast.unparse(f.stmt.iter) == 'range(%s)' % counter for f in ackf) and \
                all(q.every_iteration_passes(fi, f, [n for (n, c) in ack])[0] for f in ackf)
            ctx.ob('R17.3', '%s:one-acknowledgement-per-token' % tag, ok, fi, ackf[0] if ackf else None,
                   'for i in range(%s): self._woken_count.acquire()' % counter)
            drains = [x for x in whiles if ast.unparse(x.stmt.test) == 'self._wait_semaphore.acquire(False)']
            after = bool(drains) and bool(ackf) and cfg.must_pass([ackf[0]], [cfg.exit], drains, skip_labels=('x',))[0]
            ctx.ob('R17.3', '%s:stale-tokens-drained-by-a-loop' % tag, after, fi, drains[0] if drains else None,
                   'while self._wait_semaphore.acquire(False): pass -- several waiters may have timed out after '
                   'their token was released, a single acquire would leave tokens behind')
        else:
            r = None
            ok = len(wake) == 1 and len(ack) == 1 and cfg.must_pass([wake[0][0]], [cfg.exit], [ack[0][0]], skip_labels=('x',))[0]
            ctx.ob('R17.3', '%s:one-token-one-acknowledgement' % tag, ok, fi, wake[0][1],
                   'release one wake token, then wait for one acknowledgement')
            rz = [(n, c) for (n, c) in q.calls(fi, 'self._wait_semaphore.acquire')
                  if [ast.unparse(a) for a in c.args] == ['False'] and n not in zero]
            ok = bool(rz) and bool(ack) and all(cfg.must_pass([ack[0][0]], [cfg.exit], [n for (n, c) in rz], skip_labels=('x',))[0]
                                                for _ in [0])
            ctx.ob('R17.3', '%s:stale-token-drained' % tag, ok, fi, rz[0][1] if rz else None,
                   'self._wait_semaphore.acquire(False) after the acknowledgement')


def _whole_body_in_cond(fi):
    body = [s for s in fi.node.body if not (isinstance(s, ast.Expr) and isinstance(s.value, ast.Constant))]
    return len(body) == 1 and isinstance(body[0], ast.With) and \
        any(fi.canon(it.context_expr) == 'self._cond' for it in body[0].items)


def r17_4(ctx):
    ctx.rule('R17.4', 'Event: every method runs entirely inside the event\'s condition; each successful flag probe is '
                      'paired with a release; set = probe, release, notify_all; wait returns the probe made after '
                      'waiting', floor=8)
    m = ctx.model
    ci = m.cls('synchronize:Event')
    for name in ('is_set', 'set', 'clear', 'wait'):
        fi = ci.methods[name]
        ctx.ob('R17.4', 'Event.%s:inside-the-condition' % name, _whole_body_in_cond(fi), fi, None,
               'the whole body is `with self._cond:` (probe = acquire(False) + release(): not atomic without it)')
    probe = lambda t: t == 'self._flag.acquire(False)'
    for name in ('is_set', 'wait'):
        fi = ci.methods[name]
        cfg = fi.cfg
        rel = q.nodes_calling(fi, 'self._flag.release')
        got = q.outcome_edges(fi, probe, True)
        missed = q.outcome_edges(fi, probe, False)
        ok = bool(got) and bool(rel)
        # after every successful probe a release follows before leaving / probing again
        probes = [n for (n, c) in q.calls(fi, 'self._flag.acquire')]
        for (a, b, l) in got:
            r = cfg.reach([b], block_nodes={x.id for x in rel}, include_src=True, skip_labels=('x',))
            ok = ok and cfg.exit.id not in r and not any(p.id in r for p in probes)
        # no release after a failed probe
        for (a, b, l) in missed:
            r = cfg.reach([b], block_nodes={p.id for p in probes}, include_src=True, skip_labels=('x',))
            ok = ok and not any(x.id in r for x in rel)
        ctx.ob('R17.4', 'Event.%s:probe-restores-the-flag' % name, ok, fi, None,
               'acquire(False) that succeeded is followed by release(); a failed one by none')
        rets = [n for n in cfg.where(lambda n: isinstance(n.ast, ast.Return))]
        ok = bool(rets)
        for r0 in rets:
            v = ast.unparse(r0.ast.value)
            g = q.guards_norm(fi, r0)
            if v == 'True':
                ok = ok and ('self._flag.acquire(False)', True) in g
            elif v == 'False':
                ok = ok and ('self._flag.acquire(False)', False) in g
            else:
                # the answer of the probe itself, kept in a local: flag = self._flag.acquire(False) ... return flag
                defs = [d for (dn, t, d) in q.assigns(fi, v)] if isinstance(r0.ast.value, ast.Name) else []
                ok = ok and len(defs) == 1 and defs[0] is not None and \
                    ast.unparse(defs[0]).replace(' ', '') == 'self._flag.acquire(False)'
        ctx.ob('R17.4', 'Event.%s:returns-the-probe' % name, ok, fi, None, 'True iff the probe succeeded')
    wt = ci.methods['wait']
    cw = [(n, c) for (n, c) in q.calls(wt, 'self._cond.wait')]
    T = wt.positional_params()[1]
    ok = bool(cw) and all([ast.unparse(a) for a in c.args] == [T] and q.has_guard(wt, n, probe, False) for (n, c) in cw)
    ctx.ob('R17.4', 'Event.wait:sleeps-only-when-clear-with-the-timeout', ok, wt, None, 'else: self._cond.wait(timeout)')
    rets = [n for n in wt.cfg.where(lambda n: isinstance(n.ast, ast.Return))]
    probes = [n for (n, c) in q.calls(wt, 'self._flag.acquire')]
    final = [p for p in probes if all(not wt.cfg.must_pass([p], [x for (x, c) in cw], [], skip_labels=('x',))[0] or True for _ in [0])]
    # the probe that decides the result is evaluated after the condition wait
    ok = bool(cw) and bool(rets)
    for (n, c) in cw:
        r = wt.cfg.reach([n.id], block_nodes={p.id for p in probes}, skip_labels=('x',))
        ok = ok and not any(x.id in r for x in rets)
    ctx.ob('R17.4', 'Event.wait:result-probed-after-waiting', ok, wt, None,
           'no return is reachable from the condition wait without probing the flag again')
    st = ci.methods['set']
    seq = [st.callee(c) + '(' + ', '.join(ast.unparse(a) for a in c.args) + ')' for (n, c) in
           sorted(q.calls(st, lambda t: t.startswith('self._flag.') or t.startswith('self._cond.')), key=lambda x: (x[1].lineno, x[1].col_offset))]
    ok = seq == ['self._flag.acquire(False)', 'self._flag.release()', 'self._cond.notify_all()']
    ctx.ob('R17.4', 'Event.set:probe-release-notify_all', ok, st, None, ' ; '.join(seq))
    cl = ci.methods['clear']
    seq = [cl.callee(c) + '(' + ', '.join(ast.unparse(a) for a in c.args) + ')' for (n, c) in
           q.calls(cl, lambda t: t.startswith('self._flag.'))]
    ctx.ob('R17.4', 'Event.clear:takes-the-flag-if-set', seq == ['self._flag.acquire(False)'], cl, None, ' ; '.join(seq))
    init = ci.methods['__init__']
    vals = {ast.unparse(t): ast.unparse(v) for (dn, t, v) in q.assigns(init, None) if v is not None}
    ok = vals.get('self._flag') == 'ctx.Semaphore(0)' and vals.get('self._cond', '').startswith('ctx.Condition(')
    ctx.ob('R17.4', 'Event.__init__:flag-starts-clear', ok, init, None, str(vals))
    ci2 = m.cls('synchronize:Condition')
    init = ci2.methods['__init__']
    vals = {ast.unparse(t): ast.unparse(v) for (dn, t, v) in q.assigns(init, None) if v is not None}
    ok = all(vals.get('self.' + a) == 'ctx.Semaphore(0)' for a in ('_sleeping_count', '_woken_count', '_wait_semaphore'))
    ctx.ob('R17.4', 'Condition.__init__:counters-start-at-zero', ok, init, None, 'three Semaphore(0)')


def semlock_forgets_ownership_in_a_forked_child(ctx, rule):
    """A child forked while the parent holds a lock inherits the C-level owner count and thread ident; the after-fork
    hook zeroes them.  It must be installed for every lock a forked child can inherit -- in particular when the
    semaphore has been unlinked at once (start method fork), where its name is None."""
    ctx.rule(rule, 'every SemLock registers the after-fork hook that resets the inherited owner count, whatever the '
                   'start method', floor=2)
    m = ctx.model
    fi = m.func('synchronize:SemLock.__init__')
    cfg = fi.cfg
    reg = [(n, c) for (n, c) in q.calls(fi, lambda t: t.endswith('register_after_fork'))]
    q.need(reg, 'SemLock.__init__ registers no after-fork hook')
    # the hook: a function nested in __init__, or a function of the module, that calls <obj>._semlock._after_fork()
    cands = list(fi.children.values()) + [f for qn, f in m.funcs.items()
                                          if f.module is fi.module and f.cls is None and f.parent is None]
    hooks = [ch for ch in cands
             if any(isinstance(x, ast.Call) and isinstance(x.func, ast.Attribute) and x.func.attr == '_after_fork'
                    for x in ast.walk(ch.node))]
    ok = bool(hooks) and all(len(c.args) == 2 and ast.unparse(c.args[0]) == 'self' and
                             ast.unparse(c.args[1]) in {h.name for h in hooks} for (n, c) in reg)
    ctx.ob(rule, 'SemLock.__init__:hook-resets-the-C-level-owner', ok, fi, reg[0][1],
           'register_after_fork(self, <function calling obj._semlock._after_fork()>)')
    skip = q.outcome_edges(fi, 'sem_unlink', False)
    r = cfg.reach([cfg.entry.id], block_nodes={n.id for (n, c) in reg}, block_edges=skip, include_src=True,
                  skip_labels=('x',))
    ok = cfg.exit.id not in r
    g = set()
    for (n, c) in reg:
        g |= {t for (t, p) in q.guards_norm(fi, n)}
    ctx.ob(rule, 'SemLock.__init__:hook-installed-for-every-lock', ok, fi, reg[0][1],
           'unconditional (under sem_unlink)' if ok else
           'the hook is installed only under %s: a lock whose semaphore was unlinked at once (start method fork) gets '
           'none, so a child forked while the parent holds the lock believes it owns it and never waits'
           % sorted(t for t in g if t != 'sem_unlink'))



def r17_8(ctx):
    ctx.rule('R17.8', 'the after-fork hook of a lock only resets the child\'s own bookkeeping: it never releases or '
                      'acquires the semaphore, which is shared with the parent (a child that "gives back" a lock its '
                      'parent holds lets a second holder in)', floor=1)
    m = ctx.model
    fi = m.func('synchronize:SemLock.__init__')
    cands = list(fi.children.values()) + [f for qn, f in m.funcs.items()
                                          if f.module is fi.module and f.cls is None and f.parent is None]
    hooks = [ch for ch in cands if any(isinstance(x, ast.Call) and isinstance(x.func, ast.Attribute) and
                                       x.func.attr == '_after_fork' for x in ast.walk(ch.node))]
    q.need(hooks, 'SemLock: after-fork hook not found')
    for h in hooks:
        bad = [x for x in walk_own(h.node) if isinstance(x, ast.Call) and isinstance(x.func, ast.Attribute) and
               x.func.attr in ('release', 'acquire', '__exit__', '__enter__')]
        ctx.ob('R17.8', 'after-fork-hook:%s:touches-only-own-bookkeeping' % h.name, not bad, h, bad[0] if bad else None,
               'the hook calls _after_fork() only' if not bad else
               '`%s` in the after-fork hook operates on the semaphore the parent still uses' % ast.unparse(bad[0])[:40])


def run(ctx):
    r17_8(ctx)
    semlock_forgets_ownership_in_a_forked_child(ctx, 'R17.6')
    # Lock / Semaphore / BoundedSemaphore / Condition hand kind, value and bound on to SemLock unchanged
    from .generic import ctor_forwards_params
    ctor_forwards_params(ctx, 'R17.7', ['synchronize'], floor=4)
    r17_1(ctx)
    r17_2(ctx)
    r17_3(ctx)
    r17_4(ctx)
    r12_1(ctx, rule='R17.5', modules=('synchronize',), floor=3)
    ctx.assume('the C-level semaphore (_multiprocessing.SemLock) implements acquire/release/_count/_is_mine correctly')
    ctx.note('lost-wake-up freedom over interleavings needs a model checker over the semaphore operations '
             '(a different technique family); only the protocol shape is decided here')


_Y = 'billiard/synchronize.py'
MUTANTS = [
    ('after-fork-hook-gives-the-lock-back', 'billiard/synchronize.py', "                def _after_fork(obj):\n                    obj._semlock._after_fork()\n", "                def _after_fork(obj):\n                    if obj._semlock._is_mine():\n                        obj._semlock.release()\n                    obj._semlock._after_fork()\n", 'R17.8'),
    ('semaphore-ignores-its-initial-value', 'billiard/synchronize.py', "        SemLock.__init__(self, SEMAPHORE, value, SEM_VALUE_MAX, ctx=ctx)", "        SemLock.__init__(self, SEMAPHORE, 1, SEM_VALUE_MAX, ctx=ctx)", 'R17.7'),
    ('bounded-semaphore-bound-not-its-value', 'billiard/synchronize.py', "        SemLock.__init__(self, SEMAPHORE, value, value, ctx=ctx)", "        SemLock.__init__(self, SEMAPHORE, value, SEM_VALUE_MAX, ctx=ctx)", 'R17.1'),
    ('after-fork-hook-only-for-named-semaphores', 'billiard/synchronize.py',
     "            if sys.platform != 'win32':\n                def _after_fork(obj):\n                    obj._semlock._after_fork()\n                util.register_after_fork(self, _after_fork)\n\n            if _semname(self._semlock) is not None:\n",
     "            if _semname(self._semlock) is not None:\n                def _after_fork(obj):\n                    obj._semlock._after_fork()\n                util.register_after_fork(self, _after_fork)\n", 'R17.6'),
    ('sleeper-grabbed-then-quota-tested', 'billiard/synchronize.py', "        while self._sleeping_count.acquire(False):\n            self._wait_semaphore.release()        # wake up one sleeper\n",
     "        while self._sleeping_count.acquire(False) and sleepers < 64:\n            self._wait_semaphore.release()        # wake up one sleeper\n", 'R17.3'),
    ('lock-is-recursive', _Y, "        SemLock.__init__(self, SEMAPHORE, 1, 1, ctx=ctx)\n\n    def __repr__(self):\n        try:\n            if self._semlock._is_mine():\n                name = process.current_process().name\n                if threading.current_thread().name != 'MainThread':\n                    name += '|' + threading.current_thread().name\n            elif",
     "        SemLock.__init__(self, RECURSIVE_MUTEX, 1, 1, ctx=ctx)\n\n    def __repr__(self):\n        try:\n            if self._semlock._is_mine():\n                name = process.current_process().name\n                if threading.current_thread().name != 'MainThread':\n                    name += '|' + threading.current_thread().name\n            elif", 'R17.1'),
    ('bounded-unbounded', _Y, "        SemLock.__init__(self, SEMAPHORE, value, value, ctx=ctx)", "        SemLock.__init__(self, SEMAPHORE, value, SEM_VALUE_MAX, ctx=ctx)", 'R17.1'),
    ('wait-ack-not-finally', _Y, "        try:\n            # wait for notification or timeout\n            return self._wait_semaphore.acquire(True, timeout)\n        finally:\n            # indicate that this thread has woken\n            self._woken_count.release()\n\n            # reacquire lock\n            for i in range(count):\n                self._lock.acquire()",
     "        res = self._wait_semaphore.acquire(True, timeout)\n        self._woken_count.release()\n        for i in range(count):\n            self._lock.acquire()\n        return res", 'R17.2'),
    ('wait-announce-after-release', _Y, "        # indicate that this thread is going to sleep\n        self._sleeping_count.release()\n\n        # release lock\n        count = self._lock._semlock._count()\n        for i in range(count):\n            self._lock.release()\n",
     "        # release lock\n        count = self._lock._semlock._count()\n        for i in range(count):\n            self._lock.release()\n\n        self._sleeping_count.release()\n", 'R17.2'),
    ('wait-reacquire-once', _Y, "            # reacquire lock\n            for i in range(count):\n                self._lock.acquire()", "            # reacquire lock\n            self._lock.acquire()", 'R17.2'),
    ('wait-reacquire-before-ack', _Y, "            # indicate that this thread has woken\n            self._woken_count.release()\n\n            # reacquire lock\n            for i in range(count):\n                self._lock.acquire()",
     "            for i in range(count):\n                self._lock.acquire()\n            self._woken_count.release()", 'R17.2'),
    ('wait-returns-true', _Y, "            return self._wait_semaphore.acquire(True, timeout)\n        finally:", "            self._wait_semaphore.acquire(True, timeout)\n            return True\n        finally:", 'R17.2'),
    ('wait-ignores-timeout', _Y, "            return self._wait_semaphore.acquire(True, timeout)\n        finally:", "            return self._wait_semaphore.acquire(True)\n        finally:", 'R17.2'),
    ('notify-no-reconcile', _Y, "        # to take account of timeouts since last notify() we subtract\n        # woken_count from sleeping_count and rezero woken_count\n        while self._woken_count.acquire(False):\n            res = self._sleeping_count.acquire(False)\n            assert res\n\n        if self._sleeping_count.acquire(False):  # try grabbing a sleeper",
     "        if self._sleeping_count.acquire(False):  # try grabbing a sleeper", 'R17.3'),
    ('notify-no-ack', _Y, "            self._wait_semaphore.release()       # wake up one sleeper\n            self._woken_count.acquire()          # wait for sleeper to wake\n", "            self._wait_semaphore.release()       # wake up one sleeper\n", 'R17.3'),
    ('notify-unconditional-token', _Y, "        if self._sleeping_count.acquire(False):  # try grabbing a sleeper\n            self._wait_semaphore.release()       # wake up one sleeper", "        if True:\n            self._wait_semaphore.release()       # wake up one sleeper", 'R17.3'),
    ('notify-all-single-drain', _Y, "            # rezero wait_semaphore in case some timeouts just happened\n            while self._wait_semaphore.acquire(False):\n                pass", "            # rezero wait_semaphore in case some timeouts just happened\n            self._wait_semaphore.acquire(False)", 'R17.3'),
    ('notify-all-acks-one', _Y, "            for i in range(sleepers):\n                self._woken_count.acquire()       # wait for a sleeper to wake", "            self._woken_count.acquire()       # wait for a sleeper to wake", 'R17.3'),
    ('notify-all-miscount', _Y, "            self._wait_semaphore.release()        # wake up one sleeper\n            sleepers += 1", "            self._wait_semaphore.release()        # wake up one sleeper\n            sleepers = 1", 'R17.3'),
    ('is-set-unlocked', _Y, "    def is_set(self):\n        with self._cond:\n            if self._flag.acquire(False):\n                self._flag.release()\n                return True\n            return False",
     "    def is_set(self):\n        if self._flag.acquire(False):\n            self._flag.release()\n            return True\n        return False", 'R17.4'),
    ('is-set-consumes-flag', _Y, "    def is_set(self):\n        with self._cond:\n            if self._flag.acquire(False):\n                self._flag.release()\n                return True", "    def is_set(self):\n        with self._cond:\n            if self._flag.acquire(False):\n                return True", 'R17.4'),
    ('set-no-notify', _Y, "            self._flag.acquire(False)\n            self._flag.release()\n            self._cond.notify_all()", "            self._flag.acquire(False)\n            self._flag.release()", 'R17.4'),
    ('set-double-counts', _Y, "            self._flag.acquire(False)\n            self._flag.release()\n            self._cond.notify_all()", "            self._flag.release()\n            self._cond.notify_all()", 'R17.4'),
    ('wait-result-before-sleep', _Y, "            if self._flag.acquire(False):\n                self._flag.release()\n            else:\n                self._cond.wait(timeout)\n\n            if self._flag.acquire(False):\n                self._flag.release()\n                return True\n            return False",
     "            if self._flag.acquire(False):\n                self._flag.release()\n                return True\n            self._cond.wait(timeout)\n            return False", 'R17.4'),
    ('condition-state-misordered', _Y, "        return (self._lock, self._sleeping_count,\n                self._woken_count, self._wait_semaphore)", "        return (self._lock, self._woken_count,\n                self._sleeping_count, self._wait_semaphore)", 'R17.5'),
]
TWINS = [
    ('wait-result-local', _Y, "            return self._wait_semaphore.acquire(True, timeout)\n        finally:", "            res = self._wait_semaphore.acquire(True, timeout)\n            return res\n        finally:"),
]
