"""Rules that are not about one function: they range over every class / constructor / memo table of the modules a
property is anchored in.  Each is a necessary condition of "objects of the same kind do not share or lose state":

per_instance_state      state a method mutates in place through ``self`` is created per instance, never a class-level
                        mutable object shared by all instances
ctor_forwards_params    a subclass constructor hands every parameter it shares with its base constructor on to it
memo_key_covers_inputs  a memo table is keyed by everything its value is computed from
"""
import ast

from ..model import walk_own, dotted
from .. import q

MUTABLE_CALLS = {'dict', 'list', 'set', 'deque', 'collections.deque', 'defaultdict', 'collections.defaultdict',
                 'OrderedDict', 'collections.OrderedDict', 'bytearray', 'Counter', 'collections.Counter',
                 'WeakValueDictionary', 'weakref.WeakValueDictionary', 'WeakKeyDictionary', 'weakref.WeakKeyDictionary'}
MUTATORS = {'append', 'appendleft', 'extend', 'extendleft', 'add', 'update', 'setdefault', 'pop', 'popleft', 'popitem',
            'remove', 'discard', 'clear', 'insert', 'sort', 'reverse'}


def _is_mutable_value(fi_or_none, v):
    if isinstance(v, (ast.Dict, ast.List, ast.Set, ast.ListComp, ast.DictComp, ast.SetComp)):
        return True
    if isinstance(v, ast.Call):
        d = dotted(v.func) or ''
        return d in MUTABLE_CALLS
    return False


def _self_mutations(fi):
    """[(attr, ast node)] for in-place mutations of self.<attr> in the method fi"""
    if not fi.positional_params() or fi.positional_params()[0] != 'self':
        return []
    me = fi.positional_params()[0]
    out = []

    def is_self_attr(e):
        return isinstance(e, ast.Attribute) and isinstance(e.value, ast.Name) and e.value.id == me

    for n in walk_own(fi.node):
        if isinstance(n, (ast.Assign, ast.AugAssign, ast.Delete)):
            ts = n.targets if isinstance(n, (ast.Assign, ast.Delete)) else [n.target]
            for t in ts:
                for y in ([t] if not isinstance(t, (ast.Tuple, ast.List)) else t.elts):
                    if isinstance(y, ast.Subscript) and is_self_attr(y.value):
                        out.append((y.value.attr, n))
        elif isinstance(n, ast.Call) and isinstance(n.func, ast.Attribute) and n.func.attr in MUTATORS and \
                is_self_attr(n.func.value):
            out.append((n.func.value.attr, n))
    return out


def _self_assigned(fi):
    me = fi.positional_params()[0] if fi.positional_params() else None
    out = set()
    for n in walk_own(fi.node):
        if isinstance(n, (ast.Assign, ast.AnnAssign)):
            ts = n.targets if isinstance(n, ast.Assign) else [n.target]
            for t in ts:
                for y in ([t] if not isinstance(t, (ast.Tuple, ast.List)) else t.elts):
                    if isinstance(y, ast.Attribute) and isinstance(y.value, ast.Name) and y.value.id == me:
                        out.add(y.attr)
    return out


def per_instance_state(ctx, rule, modules, floor=1, shared_on_purpose=(), witness=(), classes=None):
    """shared_on_purpose: {(class name, attr)} class-level tables that *are* meant to be shared, each listed by the
    caller with its reason."""
    ctx.rule(rule, 'state that methods mutate in place through self is created per instance (assigned in a '
                   'constructor / state restorer), not a class-level mutable object shared by every instance',
             floor=floor)
    m = ctx.model
    n_ob = 0
    n_wit = 0
    for qn, ci in sorted(m.classes.items()):
        if ci.module.name not in modules and ci.module.name not in witness:
            continue
        mro = m.mro(ci)
        mutated = {}
        for c in mro:
            for name, fi in c.methods.items():
                for (attr, node) in _self_mutations(fi):
                    mutated.setdefault(attr, (fi, node))
        if not mutated:
            continue
        if ci.module.name not in modules or (classes is not None and not any(c.name in classes for c in mro)):
            n_wit += len(mutated)
            continue
        per_instance = set()
        starters = {'__init__', '__setstate__', '__new__'}
        for c in mro:
            for name in list(starters):
                f0 = c.methods.get(name)
                if f0 is not None:
                    for x in walk_own(f0.node):
                        if isinstance(x, ast.Call) and isinstance(x.func, ast.Attribute) and \
                                isinstance(x.func.value, ast.Name) and x.func.value.id == 'self':
                            starters.add(x.func.attr)
        for c in mro:
            for name, fi in c.methods.items():
                if name in starters:
                    per_instance |= _self_assigned(fi)
        for attr, (fi, node) in sorted(mutated.items()):
            cls_val = None
            owner = None
            for c in mro:
                if attr in c.attrs:
                    cls_val, owner = c.attrs[attr], c
                    break
            n_ob += 1
            shared = cls_val is not None and _is_mutable_value(None, cls_val) and attr not in per_instance
            if shared and (ci.name, attr) in shared_on_purpose or shared and owner is not None and \
                    (owner.name, attr) in shared_on_purpose:
                ctx.ob(rule, '%s.%s:shared-on-purpose' % (ci.name, attr), True, fi, node,
                       'class-level table shared by design (listed with its reason in the rule)')
                continue
            ctx.ob(rule, '%s.%s:per-instance' % (ci.name, attr), not shared, fi, node,
                   'mutated in place; created per instance' if not shared else
                   '`%s = %s` is a class attribute of %s and no method assigns self.%s: every instance mutates the '
                   'same object, so the state of one %s leaks into all others'
                   % (attr, ast.unparse(cls_val)[:40], owner.name, attr, ci.name))
    q.need(n_ob >= floor, 'no in-place mutated instance state found in %s' % (modules,))
    if witness:
        q.need(n_wit >= 1, 'the recogniser of in-place mutated state finds nothing in %s any more' % (witness,))
        ctx.ob(rule, 'mutated-state-in-%s' % '+'.join(modules), True, None, None,
               '%d attribute(s) mutated in place in scope, none class-level (recogniser confirmed on %d in %s)'
               % (n_ob, n_wit, '+'.join(witness)))


def ctor_forwards_params(ctx, rule, modules, floor=1):
    ctx.rule(rule, 'a subclass constructor hands every parameter it shares (by name) with the base constructor on to '
                   'it, in the slot of that name', floor=floor)
    m = ctx.model
    n_ob = 0
    for qn, ci in sorted(m.classes.items()):
        if ci.module.name not in modules or '__init__' not in ci.methods:
            continue
        init = ci.methods['__init__']
        my = init.node.args
        my_named = [a.arg for a in my.posonlyargs + my.args][1:] + [a.arg for a in my.kwonlyargs]
        for c in [x for x in walk_own(init.node) if isinstance(x, ast.Call) and isinstance(x.func, ast.Attribute)
                  and x.func.attr == '__init__']:
            recv = ast.unparse(c.func.value)
            base = None
            explicit_self = False
            if recv.startswith('super('):
                for b in m.mro(ci)[1:]:
                    if '__init__' in b.methods:
                        base = b
                        break
            else:
                base = m.resolve_class(recv, ci.module)
                explicit_self = True
                if base is not None and '__init__' not in base.methods:
                    base = next((b for b in m.mro(base) if '__init__' in b.methods), None)
            if base is None:
                continue
            binit = base.methods['__init__']
            ba = binit.node.args
            bpos = [a.arg for a in ba.posonlyargs + ba.args][1:]
            bnamed = set(bpos) | {a.arg for a in ba.kwonlyargs}
            args = c.args[1:] if explicit_self else c.args
            for p in my_named:
                if p not in bnamed:
                    continue
                n_ob += 1
                passed = any(k.arg == p and isinstance(k.value, ast.Name) and k.value.id == p for k in c.keywords)
                if not passed and p in bpos:
                    i = bpos.index(p)
                    if i < len(args) and not any(isinstance(a, ast.Starred) for a in args[:i + 1]):
                        passed = isinstance(args[i], ast.Name) and args[i].id == p
                # a value derived from the parameter in the right slot also counts (e.g. maxsize or default)
                if not passed:
                    cand = [k.value for k in c.keywords if k.arg == p]
                    if p in bpos and bpos.index(p) < len(args):
                        cand.append(args[bpos.index(p)])
                    passed = any(any(isinstance(x, ast.Name) and x.id == p for x in ast.walk(e)) or
                                 _derived_from(init, e, p) for e in cand)
                ctx.ob(rule, '%s.__init__:%s-forwarded-to-%s' % (ci.name, p, base.name), passed, init, c,
                       '%s reaches %s.__init__ in the slot `%s`' % (p, base.name, p) if passed else
                       '%s.__init__ takes `%s` but does not pass it to %s.__init__, which then uses its default: '
                       'the two constructors disagree about `%s`' % (ci.name, p, base.name, p))
    q.need(n_ob >= floor, 'no constructor forwarding found in %s' % (modules,))


def _derived_from(fi, expr, param):
    """expr is a Name assigned (anywhere in fi) from an expression that mentions the parameter"""
    if not isinstance(expr, ast.Name):
        return False
    for (dn, t, v) in q.assigns(fi, expr.id):
        if v is not None and any(isinstance(x, ast.Name) and x.id == param for x in ast.walk(v)):
            return True
    return False


def _value_inputs(fi, expr, stop=()):
    """Names (parameters included) the value of ``expr`` is computed from inside fi, following assignments to
    locals, calls that receive a local as an argument (they may fill it in), and the loop iterables / tests that
    enclose such statements.  Names in ``stop`` are not followed (and not reported)."""
    parents = {}
    for n in ast.walk(fi.node):
        for ch in ast.iter_child_nodes(n):
            parents[id(ch)] = n
    seen = set()
    todo = [x.id for x in ast.walk(expr) if isinstance(x, ast.Name)]
    out = set()

    def context_names(st):
        names = set()
        p = parents.get(id(st))
        while p is not None and p is not fi.node:
            if isinstance(p, (ast.For, ast.AsyncFor)):
                names |= {x.id for x in ast.walk(p.iter) if isinstance(x, ast.Name)}
            p = parents.get(id(p))
        return names

    while todo:
        nm = todo.pop()
        if nm in seen or nm in stop:
            continue
        seen.add(nm)
        out.add(nm)
        for st in walk_own(fi.node):
            new = set()
            if isinstance(st, (ast.Assign, ast.AugAssign, ast.AnnAssign)):
                ts = st.targets if isinstance(st, ast.Assign) else [st.target]
                if any(isinstance(x, ast.Name) and x.id == nm for t in ts for x in ast.walk(t)) and st.value is not None:
                    new |= {x.id for x in ast.walk(st.value) if isinstance(x, ast.Name)}
                    new |= context_names(st)
            elif isinstance(st, (ast.For, ast.AsyncFor)):
                if any(isinstance(x, ast.Name) and x.id == nm for x in ast.walk(st.target)):
                    new |= {x.id for x in ast.walk(st.iter) if isinstance(x, ast.Name)}
            elif isinstance(st, ast.Expr) and isinstance(st.value, ast.Call):
                c = st.value
                argn = {x.id for a in list(c.args) + [k.value for k in c.keywords] for x in ast.walk(a)
                        if isinstance(x, ast.Name)}
                recv = {x.id for x in ast.walk(c.func) if isinstance(x, ast.Name)}
                if nm in argn or nm in recv:
                    new |= argn | context_names(st)
            todo.extend(new - seen)
    return out


def memo_key_covers_inputs(ctx, rule, modules, floor=1, witness=(), exempt=()):
    # exempt: '<function>:<table>' of tables that are keyed registries by design, each listed by the caller with a reason
    # witness: modules whose (known) memo tables only prove that the recogniser still recognises memo tables when
    # `modules` is expected to hold none; they produce no obligation
    """A memo table is recognised as  D[key] = value  in a function that also reads  D[key]  /  key in D  /
    D.get(key)  and returns the value; D is a default-argument dict, a class attribute or a module global.  The
    key must be built from whole parameters of the function (not from attributes of a parameter, which need not
    identify it) and must mention every parameter other than D itself and self/cls."""
    ctx.rule(rule, 'a memo table is keyed by everything its value is computed from: the key mentions every parameter '
                   'of the memoised function and is built from whole parameters', floor=floor)
    m = ctx.model
    n_ob = 0
    n_wit = 0
    for qn, fi in sorted(m.funcs.items()):
        if fi.module.name not in modules and fi.module.name not in witness:
            continue
        params = fi.params
        stores = []
        for n in walk_own(fi.node):
            if isinstance(n, ast.Assign):
                for t in n.targets:
                    if isinstance(t, ast.Subscript):
                        stores.append((t.value, t.slice, n))
        for (tab, key, node) in stores:
            tabtxt = ast.unparse(tab)
            reads = [x for x in walk_own(fi.node)
                     if (isinstance(x, ast.Subscript) and isinstance(x.ctx, ast.Load) and ast.unparse(x.value) == tabtxt
                         and ast.unparse(x.slice) == ast.unparse(key)) or
                     (isinstance(x, ast.Compare) and len(x.ops) == 1 and isinstance(x.ops[0], (ast.In, ast.NotIn))
                      and ast.unparse(x.comparators[0]) == tabtxt and ast.unparse(x.left) == ast.unparse(key)) or
                     (isinstance(x, ast.Call) and isinstance(x.func, ast.Attribute) and x.func.attr == 'get'
                      and ast.unparse(x.func.value) == tabtxt and x.args and ast.unparse(x.args[0]) == ast.unparse(key))]
            if not reads:
                continue
            # is the table long-lived?  default-argument dict, class attribute (self./cls./Class.), module global
            longlived = False
            if isinstance(tab, ast.Name):
                longlived = (tab.id in params and isinstance(fi.default_of(tab.id), (ast.Dict, ast.Call))) or \
                    (tab.id not in params and tab.id not in fi.assigned_names())
            elif isinstance(tab, ast.Attribute) and isinstance(tab.value, ast.Name):
                owner = tab.value.id
                if owner in ('cls',) or (fi.cls is not None and owner == fi.cls.name):
                    longlived = True
                elif owner == 'self' and fi.cls is not None and m.class_attr(fi.cls, tab.attr) is not None and \
                        tab.attr not in set().union(*[_self_assigned(f) for c in m.mro(fi.cls) for f in c.methods.values()]):
                    longlived = True
            if not longlived:
                continue
            # the stored value must be computed in this function (a memo), not handed in ...
            if isinstance(node.value, ast.Name) and node.value.id in params:
                continue
            # ... and the function must hand the cached value back: `return D[key]` or `return <stored name>`
            stored = node.value.id if isinstance(node.value, ast.Name) else None
            rets = [r for r in walk_own(fi.node) if isinstance(r, ast.Return) and r.value is not None]
            hands_back = any((isinstance(r.value, ast.Subscript) and ast.unparse(r.value.value) == tabtxt) or
                             (stored is not None and isinstance(r.value, ast.Name) and r.value.id == stored)
                             for r in rets) or \
                any(isinstance(a, ast.Assign) and isinstance(a.value, ast.Subscript) and
                    ast.unparse(a.value.value) == tabtxt and ast.unparse(a.value.slice) == ast.unparse(key)
                    for a in walk_own(fi.node))
            if not hands_back or '%s:%s' % (fi.qual.split(':')[1], tabtxt) in exempt:
                continue
            keyx = key
            if isinstance(keyx, ast.Name) and fi.assigned_names().get(keyx.id) == 1 and keyx.id not in params:
                defs = [v for (dn, t, v) in q.assigns(fi, keyx.id) if v is not None]
                if defs and isinstance(defs[0], ast.Tuple):
                    keyx = defs[0]      # key = (a, b): look at the parts; a scalar local key stands for itself
            elts = keyx.elts if isinstance(keyx, ast.Tuple) else [keyx]
            if all(isinstance(e, ast.Constant) for e in elts):
                continue
            whole = [e.id for e in elts if isinstance(e, ast.Name) and e.id in params]
            partial = [ast.unparse(e) for e in elts if not isinstance(e, ast.Name)
                       and not isinstance(e, ast.Constant)
                       and not any(isinstance(x, ast.Name) and x.id in whole for x in ast.walk(e))]
            tabname = tab.id if isinstance(tab, ast.Name) else None
            inputs = [p for p in params if p not in ('self', 'cls') and p != tabname]
            # what the cached value is computed from: local dataflow (assignments, objects filled in by calls that
            # take them as an argument, the loops / tests those statements sit in), cut at the names the key is made of
            key_names = {x.id for e in elts for x in ast.walk(e) if isinstance(x, ast.Name)} if not partial else set()
            dep = sorted(_value_inputs(fi, node.value, stop=key_names) & set(inputs) | set(whole))
            missing = [p for p in dep if p not in whole]
            if fi.module.name not in modules:
                n_wit += 1
                continue
            n_ob += 1
            ok = not missing and not partial
            ctx.ob(rule, '%s:%s-keyed-by-all-inputs' % (fi.qual.split(':')[1], tabtxt), ok, fi, node,
                   'key (%s) covers the inputs %s' % (ast.unparse(keyx), sorted(dep)) if ok else
                   'memo table %s is keyed by (%s) but the cached value is computed from %s%s: two different inputs '
                   'share one cached value' % (tabtxt, ast.unparse(keyx), sorted(dep),
                                                '; key part(s) %s are attributes of an input, which need not identify it'
                                                % partial if partial else ''))
    q.need(n_ob >= floor, 'no memo table found in %s' % (modules,))
    if witness:
        q.need(n_wit >= 1, 'the memo-table recogniser no longer recognises the known tables in %s' % (witness,))
        ctx.ob(rule, 'memo-tables-in-%s' % '+'.join(modules), True, None, None,
               '%d memo table(s) in scope, each keyed by all inputs (recogniser confirmed on %d known table(s) in %s)'
               % (n_ob, n_wit, '+'.join(witness)))


LOOKUP_ERRORS = ('KeyError', 'IndexError', 'AttributeError')


def _can_raise(m, fi, body, exc, depth=0):
    """does the statement list contain a construct that raises ``exc`` by itself: a subscript / del / pop for KeyError
    and IndexError, an attribute access / getattr for AttributeError -- directly, through a local alias of a bound
    method (bpopleft = buffer.popleft), or one level down in a package method of that name"""
    for st in body:
        for x in ast.walk(st):
            if exc in ('KeyError', 'IndexError'):
                if isinstance(x, ast.Subscript) and not isinstance(x.slice, ast.Slice):
                    return True
                if isinstance(x, ast.Call):
                    cal = fi.callee(x)
                    last = cal.split('.')[-1]
                    if last in ('pop', 'popleft', 'popitem', 'remove') or (exc == 'KeyError' and last in ('__getitem__',)):
                        return True
                    if exc == 'IndexError' and last == 'next':
                        return False
            if exc == 'AttributeError':
                if isinstance(x, ast.Attribute):
                    return True
                if isinstance(x, ast.Call) and fi.callee(x) == 'getattr' and len(x.args) == 2:
                    return True
            if isinstance(x, ast.Call) and depth < 1 and isinstance(x.func, ast.Attribute):
                name = x.func.attr
                for g in m.funcs.values():
                    if g.name == name and g.cls is not None and g.module.name == fi.module.name and \
                            _can_raise(m, g, g.node.body, exc, depth + 1):
                        return True
    return False


def handlers_match_lookups(ctx, rule, modules, floor=1, only=None):
    """``only``: optional predicate on FuncInfo restricting the functions looked at."""
    ctx.rule(rule, 'a handler for a lookup error (KeyError / IndexError / AttributeError) sits around a lookup that can '
                   'raise it: when the lookup is replaced by something that fails differently the handler is dead and '
                   'the new failure escapes', floor=floor)
    m = ctx.model
    n_ob = 0
    for qn, fi in sorted(m.funcs.items()):
        if fi.module.name not in modules or (only is not None and not only(fi)):
            continue
        for t in [x for x in walk_own(fi.node) if isinstance(x, ast.Try)]:
            for h in t.handlers:
                if h.type is None:
                    continue
                names = [ast.unparse(e) for e in (h.type.elts if isinstance(h.type, ast.Tuple) else [h.type])]
                if not names or any(n not in LOOKUP_ERRORS for n in names):
                    continue
                n_ob += 1
                ok = any(_can_raise(m, fi, t.body, n) for n in names)
                ctx.ob(rule, '%s:handler-%s@L%d' % (fi.qual.split(':')[1], '+'.join(names), t.lineno - fi.node.lineno),
                       ok, fi, h,
                       'the try body contains a lookup that raises %s' % '/'.join(names) if ok else
                       'nothing in the try body raises %s any more (the lookup was replaced?): what it raises now -- e.g. '
                       'ValueError from an enum / constructor lookup -- is not caught here' % '/'.join(names))
    q.need(n_ob >= floor, 'no lookup-error handler found in %s' % (modules,))
