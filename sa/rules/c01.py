"""C01 — every submitted job resolves exactly once, with its own outcome."""
import ast

from ..model import walk_own, dotted, AnalysisError
from .. import q
from ..roots import roots
from ..shapes import Shapes, role, alts, show, UNK, CACHE
from .poolfacts import facts, WorkloopAnchors, _msg_tuple, TAGS
from .shared import r08_1

JOB = role('job-id')


# ---------------------------------------------------------------------------
# message shapes
# ---------------------------------------------------------------------------
def task_message_shape(ctx, rule):
    """Check the TASK producers and return the abstract TASK message."""
    F = facts(ctx)
    m = ctx.model
    entry_names = {c.name for c in F.entry_classes}
    n = 0
    for p in F.producers:
        if p.tag != 'TASK':
            continue
        n += 1
        fi = p.fi
        # the function that binds `result` may be the enclosing one (generator expression)
        e0 = p.payload[0] if p.payload else None
        ok = False
        detail = 'payload[0] = %s' % (ast.unparse(e0) if e0 is not None else '?')
        if isinstance(e0, ast.Attribute) and e0.attr == '_job' and isinstance(e0.value, ast.Name):
            var = e0.value.id
            vals = [v for (dn, t, v) in q.assigns(fi, var)]
            ok = bool(vals) and all(
                isinstance(v, ast.Call) and (dotted(v.func) or '').split('.')[-1] in entry_names
                for v in vals)
            detail += '; %s = %s' % (var, ' / '.join(ast.unparse(v.func) + '(...)' if isinstance(v, ast.Call)
                                                     else ast.unparse(v) for v in vals))
        ctx.ob(rule, 'producer:%s:L%s-job-id' % (fi.qual.split(':')[1], _ordinal(F, p)), ok, fi, p.msg, detail)
        ok = len(p.payload) == 5
        ctx.ob(rule, 'producer:%s:L%s-arity' % (fi.qual.split(':')[1], _ordinal(F, p)), ok, fi, p.msg,
               'TASK payload has %d fields' % len(p.payload))
    q.need(n, 'no TASK producer found')
    return ('tup', (('tag', 'TASK'), ('tup', (JOB, role('part'), UNK, UNK, UNK))))


def _ordinal(F, p):
    same = [x for x in F.producers if x.fi is p.fi and x.tag == p.tag]
    same.sort(key=lambda x: (x.msg.lineno, x.msg.col_offset))
    return same.index(p) + 1


def worker_message_roles(ctx):
    """{tag: [role per payload position]} for what Worker sends back."""
    A = WorkloopAnchors(ctx)
    F = facts(ctx)
    out = {}
    for p in F.producers:
        if p.fi.cls is not ctx.model.cls('pool:Worker') or p.tag not in ('ACK', 'READY', 'DEATH'):
            continue
        roles = []
        for e in p.payload:
            if p.fi is A.fi and isinstance(e, ast.Name) and e.id == A.job:
                roles.append(JOB)
            elif p.fi is A.fi and isinstance(e, ast.Name) and e.id == A.part:
                roles.append(role('part'))
            else:
                roles.append(UNK)
        if p.tag in out:
            out[p.tag] = [a if a == b else UNK for a, b in zip(out[p.tag], roles)]
        else:
            out[p.tag] = roles
    return out


def _is_cache(ctx):
    R = roots(ctx.model)
    return lambda fi, e: R.root_of(fi, e) == 'cache'


def cache_sinks(fi, sh):
    """[(node, key expr, env)] for every use of a key on the cache root."""
    out = []

    def is_cache(e, env):
        return sh.eval(e, env) == CACHE

    def visit(n, env):
        if isinstance(n, (ast.FunctionDef, ast.AsyncFunctionDef, ast.Lambda, ast.ClassDef)) and n is not fi.node:
            return
        if isinstance(n, (ast.GeneratorExp, ast.ListComp, ast.SetComp, ast.DictComp)):
            lenv = dict(env or {})
            for g in n.generators:
                visit(g.iter, lenv)
                sh._bind_target(g.target, sh.elem(sh.eval(g.iter, lenv)), lenv)
                for c in g.ifs:
                    visit(c, lenv)
            if isinstance(n, ast.DictComp):
                visit(n.key, lenv)
                visit(n.value, lenv)
            else:
                visit(n.elt, lenv)
            return
        if isinstance(n, ast.Subscript) and is_cache(n.value, env):
            out.append((n, n.slice, env))
        elif isinstance(n, ast.Compare) and len(n.ops) == 1 and isinstance(n.ops[0], (ast.In, ast.NotIn)) \
                and is_cache(n.comparators[0], env):
            out.append((n, n.left, env))
        elif isinstance(n, ast.Call) and isinstance(n.func, ast.Attribute) and \
                n.func.attr in ('pop', 'get', 'setdefault', '__delitem__', '__getitem__') and n.args and \
                is_cache(n.func.value, env):
            out.append((n, n.args[0], env))
        for c in ast.iter_child_nodes(n):
            visit(c, env)
    visit(fi.node, None)
    return out


def r01_1(ctx):
    ctx.rule('R01.1', 'every key used on the job cache carries the role job-id (TASK payload[0] is the '
                      "handle's id at every producer; the worker echoes it; dispatch binds it positionally)",
             floor=20)
    m = ctx.model
    F = facts(ctx)
    taskmsg = task_message_shape(ctx, 'R01.1')
    wroles = worker_message_roles(ctx)
    is_cache = _is_cache(ctx)
    mk = m.func('pool:ResultHandler._make_methods')
    handler_of = {'ACK': 'on_ack', 'READY': 'on_ready', 'DEATH': 'on_death'}
    n_sinks = 0
    shapes_cache = {}

    def shapes_for(fi):
        if fi.qual in shapes_cache:
            return shapes_cache[fi.qual]
        seeds = {}
        if fi.parent is mk:
            for tag, hn in handler_of.items():
                if fi.name == hn and tag in wroles:
                    for pn, r in zip(fi.positional_params(), wroles[tag]):
                        seeds[pn] = r
        outer = shapes_for(fi.parent) if fi.parent is not None else None
        qi = ('tup', (('seq', taskmsg), UNK))
        sh = Shapes(fi, TAGS, is_cache, seeds=seeds, outer=outer, queue_item=qi)
        shapes_cache[fi.qual] = sh
        return sh

    for qn, fi in sorted(m.funcs.items()):
        if fi.module.name != 'pool':
            continue
        sh = shapes_for(fi)
        sinks = cache_sinks(fi, sh)
        seen = {}
        for (node, key, env) in sinks:
            v = sh.eval(key, env)
            bad = [a for a in alts(v) if a != JOB]
            n_sinks += 1
            ktxt = ast.unparse(key)
            base = '%s:cache-key `%s`' % (fi.qual.split(':')[1], ktxt)
            if not alts(v):
                ctx.ob('R01.1', base + ' has no value', False, fi, node, 'key %s is never bound' % ktxt)
            elif not bad:
                k = seen.get((base, 'ok'), 0) + 1
                seen[(base, 'ok')] = k
                ctx.ob('R01.1', base + ('#%d' % k if k > 1 else ''), True, fi, node,
                       'key %s : %s' % (ktxt, show(v)))
            else:
                for a in sorted(set(show(x) for x in bad)):
                    kk = base + ' may be ' + a
                    if kk in seen:
                        continue
                    seen[kk] = 1
                    ctx.ob('R01.1', kk, False, fi, node,
                           'key %s evaluates to %s: a failure/result would be attached to a different job or to none'
                           % (ktxt, show(v)))
    if n_sinks < 14:
        raise AnalysisError('R01.1 found only %d cache sinks' % n_sinks)
    feeder_state_is_per_sequence(ctx, 'R01.1')


def feeder_serves_while_running(ctx, rule, parts='ab'):
    """TaskHandler.body: (a) the thread stops feeding (leaves the loop over the task queue) only when
    the pool state is no longer RUN, the queue sentinel arrived or the pipe broke -- never because one
    task could not be sent; (b) the state is re-checked before *every* task is put, so that
    terminate() is noticed in the middle of a long sequence."""
    ctx.rule(rule, ' and '.join(t for k, t in (('a', 'the task feeder stops only on state change / sentinel / broken pipe'),
                                              ('b', 'the task feeder re-checks the state before every put'))
                                if k in parts), floor=1)
    m = ctx.model
    fi = m.func('pool:TaskHandler.body')
    cfg = fi.cfg
    fors = sorted(cfg.where(lambda n: n.kind == 'for'), key=lambda n: n.stmt.lineno)
    q.need(len(fors) >= 2, 'TaskHandler.body: outer/inner feeding loops not found')
    outer, inner = fors[0], fors[1]
    brk = [n for n in cfg.where(lambda n: isinstance(n.ast, ast.Break)) if q.inside(fi, n, inner.stmt.body)]
    bad = []
    for b in brk:
        in_io = any(part == 'handler' and h.type is not None and
                    set(x.strip() for x in ast.unparse(h.type).strip('()').split(',')) <= {'IOError', 'OSError', 'EOFError',
                                                                                        'BrokenPipeError'}
                    for (tr, part, h) in q.enclosing_trys(fi, b.ast))
        on_state = q.has_guard(fi, b, 'self._state', True) or q.has_guard(fi, b, q.eq_text('self._state', 'RUN'), False)
        if not (in_io or on_state):
            bad.append(b)
    if 'a' in parts:
        ctx.ob(rule, 'TaskHandler.body:feeding-stops-only-on-state-change-or-broken-pipe', not bad, fi,
               bad[0] if bad else inner,
               'every break out of the feeding loop is under `self._state` or in an I/O-error handler' if not bad else
               'a failure to send one task ends the feeder thread while the pool still reports RUN: every later job '
               'is accepted and never runs')
    if 'b' not in parts:
        return
    puts = [n for (n, c) in q.calls(fi, 'self.put') if q.inside(fi, n, inner.stmt.body)]
    tests = [t for t in cfg.where(lambda t: t.kind == 'test' and q.inside(fi, t, inner.stmt.body))
             if q.norm_guard(fi, t.ast, True)[0] in ('self._state', q.eq_text('self._state', 'RUN'))]
    ok = bool(puts) and bool(tests) and all(cfg.must_pass([inner], [p], tests, skip_labels=('x',))[0] for p in puts)
    ctx.ob(rule, 'TaskHandler.body:state-rechecked-before-every-put', ok, fi, puts[0] if puts else inner,
           'within each iteration of the feeding loop the state test precedes put(task)' if ok else
           'the state is not looked at between two puts of one sequence: terminate() during a long map/imap '
           'waits for a feeder that keeps blocking in put()')


def worker_never_leaves_with_a_task_in_hand(ctx, rule):
    """Worker receive(): once a message has been read off the task pipe the worker either returns it to the loop or
    it was the sentinel.  Every other reason to leave (restart requested, ...) is looked at *before* the read."""
    ctx.rule(rule, 'a worker that read a task off the pipe hands it to the work loop: reasons to leave (restart '
                   'event) are tested before the read, after it only the sentinel ends the worker', floor=2)
    m = ctx.model
    mk = m.func('pool:Worker._make_protected_receive')
    rc = mk.children.get('receive')
    q.need(rc is not None, 'Worker._make_protected_receive.receive not found')
    cfg = rc.cfg
    # the read: the one call whose result is unpacked into (ready, request)
    reads = [n for n in cfg.where(lambda n: n.kind == 'stmt' and isinstance(n.ast, ast.Assign)
                                  and isinstance(n.ast.targets[0], ast.Tuple) and len(n.ast.targets[0].elts) == 2
                                  and isinstance(n.ast.value, ast.Call) and isinstance(n.ast.value.func, ast.Name))]
    q.need(reads, 'receive() does not read the task pipe')
    # what the read is unpacked into: (ready, req)
    req = None
    if isinstance(reads[0].ast, ast.Assign) and isinstance(reads[0].ast.targets[0], ast.Tuple):
        req = ast.unparse(reads[0].ast.targets[0].elts[-1])
        rdy = ast.unparse(reads[0].ast.targets[0].elts[0])
    q.need(req is not None, 'receive(): result of the read is not unpacked into (ready, request)')
    after = set()
    for rd in reads:
        after |= cfg.reach([b for (b, l) in cfg.succ[rd.id] if l != 'x'], include_src=True, skip_labels=('x',))
    leaves = [n for n in cfg.where(lambda n: n.kind == 'stmt' and isinstance(n.ast, ast.Raise)) if n.id in after]
    bad = [n for n in leaves if not (q.has_guard(rc, n, req + ' is None', True) or q.has_guard(rc, n, rdy, False))]
    ctx.ob(rule, 'receive:after-the-read-only-the-sentinel-ends-the-worker', not bad, rc, bad[0] if bad else reads[0],
           'after a completed read the worker exits only for `%s is None`' % req if not bad else
           '`%s` can end the worker after a task was read off the pipe: that job is never announced, never run and '
           'never attributed to anybody -- it stays pending for ever' % bad[0].text())
    pre = [t for t in cfg.where(lambda t: t.kind == 'test') if 'should_shutdown' in ast.unparse(t.ast)]
    ok = bool(pre) and all(cfg.dominated_by(rd, pre)[0] for rd in reads) and not any(t.id in after for t in pre)
    ctx.ob(rule, 'receive:restart-looked-at-before-the-read', ok, rc, pre[0] if pre else None,
           'should_shutdown() is tested before the pipe is read, not after')


def feeder_state_is_per_sequence(ctx, rule):
    """TaskHandler.body: the variables the failure handlers read (current task, current
    index) are reset for every task sequence, so that a failure while feeding job B can
    never be attached to the last task of an earlier job A."""
    m = ctx.model
    fi = m.func('pool:TaskHandler.body')
    cfg = fi.cfg
    fors = sorted(cfg.where(lambda n: n.kind == 'for'), key=lambda n: n.stmt.lineno)
    q.need(len(fors) >= 2, 'TaskHandler.body: outer/inner feeding loops not found')
    outer, inner = fors[0], fors[1]
    q.need(q.inside(fi, inner, outer.stmt.body), 'TaskHandler.body: inner loop is not nested in the outer one')
    names = [x.id for x in ast.walk(inner.stmt.target) if isinstance(x, ast.Name)]
    used_in_handlers = set()
    for tr in [t for t in walk_own(outer.stmt) if isinstance(t, ast.Try)]:
        if any(x is inner.stmt for st in tr.body for x in ast.walk(st)):
            for h in tr.handlers:
                for x in ast.walk(h):
                    if isinstance(x, ast.Name) and x.id in names:
                        used_in_handlers.add(x.id)
    # also what follows the loop in the same iteration (set_length(i + 1))
    for nm in names:
        if nm in used_in_handlers or any(isinstance(x, ast.Name) and x.id == nm for st in inner.stmt.orelse
                                         for x in ast.walk(st)):
            resets = [dn for (dn, t, v) in q.assigns(fi, nm) if q.inside(fi, dn, outer.stmt.body)
                      and not q.inside(fi, dn, inner.stmt.body) and isinstance(v, (ast.Constant, ast.UnaryOp))]
            body_start = [b for (b, l) in cfg.succ[outer.id] if l == 't']
            r = cfg.reach(body_start, block_nodes={d.id for d in resets}, include_src=True, skip_labels=('x',))
            ok = bool(resets) and inner.id not in r
            ctx.ob(rule, 'TaskHandler.body:%s-reset-for-every-sequence' % nm, ok, fi, resets[0] if resets else outer,
                   '`%s` is re-initialised on every path from the start of a sequence to its feeding loop' % nm
                   if ok else
                   '`%s` keeps its value from the previous task sequence: a failure while feeding this job is '
                   'attributed to the last task of an earlier job' % nm)


# ---------------------------------------------------------------------------
def _resolution_sites(ctx):
    """calls X._set(...) / X._set_terminated(...) in pool.py outside the entry classes"""
    F = facts(ctx)
    m = ctx.model
    entry = set(F.entry_classes)
    out = []
    for qn, fi in sorted(m.funcs.items()):
        if fi.module.name != 'pool' or (fi.cls in entry):
            continue
        for c in [n for n in walk_own(fi.node) if isinstance(n, ast.Call)]:
            if isinstance(c.func, ast.Attribute) and c.func.attr in ('_set', '_set_terminated'):
                out.append((fi, c))
    return out


def _filter_guard(fi, call, var):
    """Is `call` inside a for-loop over a comprehension that filters on not var.ready()?"""
    for st in walk_own(fi.node):
        if isinstance(st, ast.For) and isinstance(st.target, ast.Name) and st.target.id == var and \
                any(x is call for b in st.body for x in ast.walk(b)):
            it = st.iter
            if isinstance(it, (ast.ListComp, ast.GeneratorExp)) and len(it.generators) == 1 and \
                    isinstance(it.elt, ast.Name) and isinstance(it.generators[0].target, ast.Name) and \
                    it.elt.id == it.generators[0].target.id:
                cv = it.elt.id
                for cond in it.generators[0].ifs:
                    conj = cond.values if isinstance(cond, ast.BoolOp) and isinstance(cond.op, ast.And) else [cond]
                    for c in conj:
                        if isinstance(c, ast.UnaryOp) and isinstance(c.op, ast.Not) and \
                                ast.unparse(c.operand) == cv + '.ready()':
                            return True
    return False


def _guarded_not_ready(fi, call, handle_txt):
    ns = fi.cfg.node_containing(call)
    if not ns:
        return False
    return all(q.has_guard(fi, n, handle_txt + '.ready()', False) for n in ns)


def r01_2(ctx):
    ctx.rule('R01.2', 'every resolution of a job handle from outside its class is made on a handle just looked '
                      'up in the cache or under a `not handle.ready()` guard', floor=6)
    m = ctx.model
    is_cache = _is_cache(ctx)
    sites = _resolution_sites(ctx)
    q.need(sites, 'no outside resolution sites found')
    for (fi, c) in sites:
        X = c.func.value
        xt = ast.unparse(X)
        key = '%s:%s.%s' % (fi.qual.split(':')[1], xt, c.func.attr)
        sh = Shapes(fi, TAGS, is_cache)
        # (A) direct lookup
        direct = isinstance(X, ast.Subscript) and sh.eval(X.value) == CACHE
        if isinstance(X, ast.Name):
            vals = [v for (dn, t, v) in q.assigns(fi, X.id)]
            if vals and all(isinstance(v, ast.Subscript) and sh.eval(v.value) == CACHE for v in vals):
                direct = True
        if direct:
            ctx.ob('R01.2', key, True, fi, c, 'handle looked up in the cache in this activation')
            continue
        if _guarded_not_ready(fi, c, xt) or (isinstance(X, ast.Name) and _filter_guard(fi, c, X.id)):
            ctx.ob('R01.2', key, True, fi, c, 'dominated by `not %s.ready()`' % xt)
            continue
        if isinstance(X, ast.Name) and X.id in fi.params and fi.cls is not None:
            # the function receives the job: every call site must be guarded
            idx = fi.positional_params().index(X.id) - 1
            callers = []
            for qn2, g in sorted(m.funcs.items()):
                if g.module.name != 'pool':
                    continue
                for cc in [n for n in walk_own(g.node) if isinstance(n, ast.Call)]:
                    cal = g.callee(cc)
                    if cal.split('.')[-1] == fi.name and len(cc.args) > idx:
                        callers.append((g, cc))
            ok = bool(callers)
            det = []
            for (g, cc) in callers:
                a = cc.args[idx]
                at = ast.unparse(a)
                good = _guarded_not_ready(g, cc, at) or (isinstance(a, ast.Name) and _filter_guard(g, cc, a.id))
                det.append('%s(%s)@%s:%s' % (fi.name, at, g.qual.split(':')[1], 'guarded' if good else 'UNGUARDED'))
                ok = ok and good
            ctx.ob('R01.2', key, ok, fi, c, 'job is a parameter; call sites: ' + ', '.join(det))
            continue
        ctx.ob('R01.2', key, False, fi, c,
               'a handle that may already be resolved is resolved again (no ready() guard, not a fresh lookup)')


def _removals(fi):
    """CFG nodes of fi that remove self._job from self._cache (pop / del)."""
    out = []
    cfg = fi.cfg
    for n in cfg.where(lambda n: n.kind == 'stmt'):
        st = n.ast
        if isinstance(st, ast.Delete):
            for t in st.targets:
                if isinstance(t, ast.Subscript) and fi.canon(t.value) in ('self._cache', 'cache') and \
                        ast.unparse(t.slice) == 'self._job':
                    out.append(n)
        for c in cfg.calls_at(n):
            if fi.callee(c) in ('self._cache.pop', 'cache.pop') and c.args and ast.unparse(c.args[0]) == 'self._job':
                out.append(n)
    return out


def _ready_makers(fi):
    out = [n for (n, c) in q.calls(fi, 'self._event.set')]
    out += [dn for (dn, t, v) in q.assigns(fi, 'self._ready') if v is not None and ast.unparse(v) == 'True']
    return out


def r01_3(ctx):
    ctx.rule('R01.3', 'an entry leaves the cache exactly when it is accepted and resolved: every path that makes '
                      'the handle ready removes it or is the not-yet-accepted arm, and _ack removes only a ready entry',
             floor=8)
    m = ctx.model
    F = facts(ctx)
    for ci in F.entry_classes:
        for meth in ('_set', '_set_length'):
            fi = m.method(ci, meth)
            if fi is None or (fi.cls is not ci and meth in ci.methods):
                continue
            if fi.cls is not ci:
                continue   # inherited: decided once on the defining class
            cfg = fi.cfg
            makers = _ready_makers(fi)
            if not makers:
                if meth == '_set':
                    ctx.ob('R01.3', '%s.%s:makes-ready' % (ci.name, meth), False, fi, None,
                           'no statement makes the handle ready')
                continue
            rem = {n.id for n in _removals(fi)}
            not_acc = q.outcome_edges(fi, 'self._accepted', False)
            fwd = cfg.reach([cfg.entry.id], block_nodes=rem, block_edges=not_acc, include_src=True,
                            skip_labels=('x',))
            bwd = cfg.reach([cfg.exit.id], block_nodes=rem, block_edges=not_acc, include_src=True,
                            skip_labels=('x',), backwards=True)
            for mk in makers:
                bad = mk.id in fwd and mk.id in bwd
                ctx.ob('R01.3', '%s.%s:ready-implies-removed-or-unaccepted' % (ci.name, meth), not bad, fi, mk,
                       'every normal path through `%s` removes self._job from the cache unless not accepted'
                       % mk.text())
            # removal only when ready is made on that path (or already)
            for rn in _removals(fi):
                okp, w = cfg.must_pass([cfg.entry], [rn], makers)
                okf, w2 = cfg.must_pass([rn], [cfg.exit], makers, skip_labels=('x',))
                ctx.ob('R01.3', '%s.%s:removal-only-with-ready' % (ci.name, meth), okp or okf, fi, rn,
                       'the entry is removed only on paths that make the handle ready', path=None if (okp or okf) else w)
        fi = m.method(ci, '_ack')
        if fi is not None and fi.cls is ci:
            for rn in _removals(fi):
                ok = q.has_guard(fi, rn, 'self.ready()', True)
                ctx.ob('R01.3', '%s._ack:removes-only-ready-entry' % ci.name, ok, fi, rn,
                       'cache removal in _ack is under self.ready()')
            setf = m.method(ci, '_set')
            if setf is not None and q.outcome_edges(setf, 'self._accepted', False):
                ok = bool(_removals(fi))
                ctx.ob('R01.3', '%s._ack:completes-deferred-removal' % ci.name, ok, fi, None,
                       '_set leaves an unaccepted entry in the cache, so _ack must remove it when ready')


def r01_4(ctx):
    ctx.rule('R01.4', 'messages for unknown / finished jobs and unknown states are ignored: cache lookups keyed by '
                      'a message field are protected against KeyError by a handler that neither resolves nor raises',
             floor=3)
    m = ctx.model
    is_cache = _is_cache(ctx)
    mk = m.func('pool:ResultHandler._make_methods')
    for name in ('on_ack', 'on_ready'):
        fi = mk.children.get(name)
        q.need(fi is not None, 'ResultHandler._make_methods.%s not found' % name)
        sh = Shapes(fi, TAGS, is_cache)
        subs = [n for n in walk_own(fi.node) if isinstance(n, ast.Subscript) and isinstance(n.ctx, ast.Load)
                and sh.eval(n.value) == CACHE]
        q.need(subs, '%s performs no cache lookup' % name)
        for s in subs:
            h = q.protected_by(fi, s, ['KeyError'])
            ok = h is not None
            detail = 'cache[%s] is inside try/except KeyError' % ast.unparse(s.slice)
            if h is not None:
                body_bad = [x for st in h.body for x in ast.walk(st)
                            if isinstance(x, ast.Raise) or (isinstance(x, ast.Call) and isinstance(x.func, ast.Attribute)
                                                            and x.func.attr in ('_set', '_set_terminated'))]
                ok = not body_bad
                if body_bad:
                    detail = 'the KeyError handler raises or resolves a job'
            else:
                stn = fi.cfg.node_containing(s)
                ok = bool(stn) and all(q.has_guard(fi, n, lambda t: t.endswith(' in ' + fi.canon(s.value)), True)
                                       for n in stn)
                detail = 'cache lookup guarded by membership test' if ok else \
                    'cache[%s] can raise KeyError for a finished/unknown job (kills the result thread)' % ast.unparse(s.slice)
            ctx.ob('R01.4', '%s:lookup-tolerates-missing-job' % name, ok, fi, s, detail)
    osc = mk.children.get('on_state_change')
    q.need(osc is not None, 'on_state_change not found')
    # The dispatcher treats *any* KeyError as "unknown state" and drops the message.  So a handler must not let a
    # KeyError of its own escape: every lookup in a table that is shared with other threads (the pool's per-worker
    # tables: entries vanish when a worker is reaped) is behind a membership test or its own except KeyError.
    swallow = any(q.protected_by(osc, c, ['KeyError']) is not None
                  for c in walk_own(osc.node) if isinstance(c, ast.Call) and isinstance(c.func, ast.Subscript))
    n_tab = 0
    for name, fi in sorted(mk.children.items()):
        if name == 'on_state_change' or not swallow:
            continue
        for s in [n for n in walk_own(fi.node) if isinstance(n, ast.Subscript) and isinstance(n.ctx, ast.Load)]:
            base = fi.canon(s.value)
            if not (base.startswith('self.') and base.count('.') == 1) or isinstance(s.slice, (ast.Slice, ast.Constant)):
                continue
            n_tab += 1
            h = q.protected_by(fi, s, ['KeyError'])
            stn = fi.cfg.node_containing(s)
            key = fi.canon(s.slice)
            ok = h is not None or (bool(stn) and all(q.has_guard(fi, n, '%s in %s' % (key, base), True) for n in stn))
            ctx.ob('R01.4', '%s:%s-lookup-cannot-raise-into-the-dispatcher' % (name, base.split('.')[1]), ok, fi, s,
                   '%s[%s] is behind `%s in %s` or its own except KeyError' % (base, key, key, base) if ok else
                   '%s[%s] raises KeyError when the entry is gone (worker reaped); the dispatcher takes that for an '
                   'unknown state and drops the message: the job\'s result is lost' % (base, key))
    q.need(n_tab >= 1, 'no lookup in a shared table found in the dispatched handlers')
    for c in [x for x in walk_own(osc.node) if isinstance(x, ast.Call) and isinstance(x.func, ast.Subscript)]:
        h = q.protected_by(osc, c, ['KeyError'])
        ok = h is not None and not any(isinstance(x, ast.Raise) for st in h.body for x in ast.walk(st))
        ctx.ob('R01.4', 'on_state_change:unknown-state-ignored', ok, osc, c,
               'state_handlers[state] lookup tolerates an unknown state')


def _success_flag(fi):
    """canonical text of the success flag unpacked from the outcome parameter"""
    P = fi.positional_params()
    if len(P) < 3:
        return None
    obj = P[2]
    for n in walk_own(fi.node):
        if isinstance(n, ast.Assign) and isinstance(n.value, ast.Name) and n.value.id == obj and \
                isinstance(n.targets[0], ast.Tuple) and len(n.targets[0].elts) == 2:
            return fi.canon(n.targets[0].elts[0]), fi.canon(n.targets[0].elts[1])
    return None


def r01_5(ctx):
    ctx.rule('R01.5', 'success and error callbacks are mutually exclusive per resolution: each is called only '
                      'under the matching value of the success flag', floor=4)
    m = ctx.model
    for cn in ('ApplyResult', 'MapResult'):
        ci = m.cls('pool:' + cn)
        fi = ci.methods.get('_set')
        q.need(fi is not None, '%s._set not found' % cn)
        sf = _success_flag(fi)
        q.need(sf is not None, '%s._set does not unpack (success, value) from its outcome parameter' % cn)
        flag = sf[0]
        for cbname, pol in (('self._callback', True), ('self._error_callback', False)):
            sites = []
            for (n, c) in q.calls(fi, None):
                callee = fi.callee(c)
                if callee == cbname or (callee == 'self.safe_apply_callback' and c.args and
                                        fi.canon(c.args[0]) == cbname):
                    sites.append((n, c))
            q.need(sites, '%s._set never calls %s' % (cn, cbname))
            for (n, c) in sites:
                ok = q.has_guard(fi, n, flag, pol)
                ctx.ob('R01.5', '%s._set:%s-only-when-%s' % (cn, cbname.split('.')[1], 'success' if pol else 'failure'),
                       ok, fi, c, 'guard (%s is %s) in force' % (flag, pol))


def r01_6(ctx):
    ctx.rule('R01.6', 'resolution is single-assignment: inside the critical section of the handle\'s own lock the '
                      'outcome writes and callbacks are dominated by a not-already-resolved test', floor=2)
    m = ctx.model
    for cn in ('ApplyResult', 'MapResult'):
        ci = m.cls('pool:' + cn)
        fi = ci.methods.get('_set')
        cfg = fi.cfg
        sf = _success_flag(fi)
        writes = [dn for (dn, t, v) in q.assigns(fi, ('self._success', 'self._value'))]
        writes += [n for (n, c) in q.calls(fi, 'self._event.set')]
        q.need(writes, '%s._set writes no outcome' % cn)
        enters = [n for n in cfg.where(lambda n: n.kind == 'with_enter')
                  if any(fi.canon(it.context_expr) == 'self._mutex' for it in n.stmt.items)]
        is_ready = ('self._event.is_set()', 'self.ready()')
        bad = []
        for wn in writes:
            in_lock = bool(enters) and cfg.dominated_by(wn, enters)[0] and \
                any(q.inside(fi, wn, e.stmt.body) for e in enters)
            guarded = q.has_guard(fi, wn, is_ready, False)
            # the test itself must be inside the same critical section
            tests = [t for t in cfg.where(lambda t: t.kind == 'test') if fi.canon(t.ast) in is_ready]
            test_locked = any(q.inside(fi, t, e.stmt.body) for t in tests for e in enters)
            if not (in_lock and guarded and test_locked):
                bad.append((wn, in_lock, guarded and test_locked))
        ok = not bad
        detail = 'all outcome writes are inside `with self._mutex` after an already-resolved test'
        if bad:
            wn, il, g = bad[0]
            detail = '`%s`: %s%s' % (wn.text(), '' if il else 'not inside the handle\'s critical section; ',
                                     '' if g else 'no already-resolved test in the critical section')
        ctx.ob('R01.6', '%s._set:single-assignment-under-lock' % cn, ok, fi, bad[0][0] if bad else None, detail)
        # once the outcome is observable (the event is set: ready() / get() / successful() answer) it never changes,
        # not even further down in the same call (e.g. "a failing success callback turns the job into a failure")
        shown = [n for (n, c) in q.calls(fi, 'self._event.set')]
        after = cfg.reach([n.id for n in shown], skip_labels=()) if shown else set()
        late = [dn for (dn, t, v) in q.assigns(fi, lambda t: t in ('self._success', 'self._value') or
                                               t.startswith('self._value['))
                if dn.id in after and not any(dn.id == s_.id for s_ in shown)]
        # a loop (MapResult: one call per part) reaches its own earlier statements again; only writes that can
        # follow the event.set of the *same* call on a loop-free path count
        late = [dn for dn in late if not any(cfg.dominated_by(s_, [dn])[0] for s_ in shown)]
        ctx.ob('R01.6', '%s._set:outcome-fixed-once-observable' % cn, bool(shown) and not late, fi, late[0] if late else None,
               'no write of the outcome is reachable after self._event.set()' if not late else
               '`%s` rewrites the outcome after it became observable: a caller that already saw ready()/get() sees it '
               'change, and both callbacks can fire for one job' % late[0].text())



def r01_13(ctx):
    ctx.rule('R01.13', 'an outcome is filed under the position its message names: no handle re-binds the position '
                       'parameter of _set (a pool-made failure without position must not be pinned on whichever part '
                       'happens to be next)', floor=3)
    m = ctx.model
    for cq in ('pool:ApplyResult', 'pool:MapResult', 'pool:IMapIterator', 'pool:IMapUnorderedIterator'):
        ci = m.cls(cq)
        fi = ci.methods.get('_set')
        if fi is None:
            continue
        P = fi.positional_params()[1]
        defs = [(dn, v) for (dn, t, v) in q.assigns(fi, P)]
        ctx.ob('R01.13', '%s._set:position-as-given' % ci.name, not defs, fi, defs[0][0] if defs else None,
               '`%s` is never assigned' % P if not defs else
               '`%s = %s`: the outcome is filed under a position the sender did not name -- the real result of that '
               'part is dropped later as a duplicate' % (P, ast.unparse(defs[0][1])[:40] if defs[0][1] is not None else '...'))


def r01_14(ctx):
    ctx.rule('R01.14', 'a failure of the task sequence itself (the iterable raised) is filed past the last part that '
                       'was sent, never on a part a worker is still running', floor=1)
    m = ctx.model
    fi = m.func('pool:TaskHandler.body')
    sets = []
    for t in [n for n in walk_own(fi.node) if isinstance(n, ast.Try)]:
        for h in t.handlers:
            # the outer handler: the one whose try contains the loop over the task sequence
            if not any(isinstance(x, ast.For) for st in t.body for x in ast.walk(st)):
                continue
            for c in [x for st in h.body for x in ast.walk(st) if isinstance(x, ast.Call)]:
                if isinstance(c.func, ast.Attribute) and c.func.attr == '_set' and c.args:
                    sets.append(c)
    q.need(sets, 'TaskHandler.body: failure of the task sequence is not reported')
    # the part index of the last task read: second name of the `job, ind = task[1][:2] ...` unpack of that handler
    last = None
    for t in [n for n in walk_own(fi.node) if isinstance(n, ast.Try)]:
        for h in t.handlers:
            if any(c_ in [x for st in h.body for x in ast.walk(st)] for c_ in sets):
                for st in h.body:
                    if isinstance(st, ast.Assign) and isinstance(st.targets[0], ast.Tuple) and len(st.targets[0].elts) == 2 \
                            and all(isinstance(e, ast.Name) for e in st.targets[0].elts):
                        last = st.targets[0].elts[1].id
    q.need(last, 'TaskHandler.body: the handler does not read the last task\'s part index')
    for c in sets:
        pos = ast.unparse(c.args[0]).replace(' ', '')
        ok = pos in ('%s+1' % last, '1+%s' % last)
        ctx.ob('R01.14', 'TaskHandler.body:sequence-failure-past-the-last-sent-part', ok, fi, c,
               'cache[job]._set(<last part> + 1, failure)' if ok else
               '_set(%s, failure): `%s` is the part that was sent last and is running; its real result will be dropped' % (pos, last))



def r01_15(ctx):
    ctx.rule('R01.15', 'a job leaves the cache only through its own handle (which knows whether all of its parts are '
                       'in): nothing else pops or deletes cache entries by job id -- a helper that sees one part of a '
                       'map / imap job would evict the parts still on their way, whose results are then dropped as '
                       'unknown', floor=5)
    m = ctx.model
    handles = ('ApplyResult', 'MapResult', 'IMapIterator', 'IMapUnorderedIterator')
    n_ = 0
    for qn, fi in sorted(m.funcs.items()):
        if fi.module.name != 'pool':
            continue
        sites = []
        for x in walk_own(fi.node):
            if isinstance(x, ast.Call) and isinstance(x.func, ast.Attribute) and x.func.attr in ('pop', 'popitem', 'clear') \
                    and (fi.canon(x.func.value) or '').split('.')[-1] in ('cache', '_cache'):
                sites.append(x)
            elif isinstance(x, ast.Delete):
                for t in x.targets:
                    if isinstance(t, ast.Subscript) and (fi.canon(t.value) or '').split('.')[-1] in ('cache', '_cache'):
                        sites.append(x)
        for x in sites:
            n_ += 1
            owner = fi.qual.split(':')[1]
            ok = owner.split('.')[0] in handles
            ctx.ob('R01.15', 'cache-entry-removed-by:%s' % owner, ok, fi, x,
                   'the handle removes itself' if ok else
                   '%s removes a job from the cache by id (`%s`): the other parts of that job are still outstanding'
                   % (owner, ast.unparse(x)[:50]))
    q.need(n_ >= 5, 'no cache removals found')


def r01_16(ctx):
    ctx.rule('R01.16', 'a result message for a job that is in the cache always reaches the handle: after the lookup '
                       'succeeded, on_ready passes <entry>._set(i, obj) on every normal path (the handle itself decides '
                       'about duplicates; a marker like "worker lost" is a suspicion the result is there to clear)', floor=1)
    m = ctx.model
    on_ready = [f for qn, f in m.funcs.items() if qn.endswith('ResultHandler._make_methods.on_ready')]
    q.need(on_ready, 'ResultHandler on_ready not found')
    fi = on_ready[0]
    cfg = fi.cfg
    look = [dn for (dn, t, v) in q.assigns(fi, None) if isinstance(v, ast.Subscript) and
            (fi.canon(v.value) or '').split('.')[-1] in ('cache', '_cache')]
    q.need(look, 'on_ready: lookup of the cache entry not found')
    item = ast.unparse(look[0].ast.targets[0])
    sets = [n for (n, c) in q.calls(fi, item + '._set')]
    ok, w = cfg.must_pass(look, [cfg.exit], sets, skip_labels=('x',), completed=True) if sets else (False, None)
    ctx.ob('R01.16', 'on_ready:every-result-reaches-the-handle', ok, fi, sets[0] if sets else look[0],
           '%s._set(i, obj) on every normal path after %s = cache[job]' % (item, item), path=w)


def run(ctx):
    from .sweep import r01_17 as _r01_17
    _r01_17(ctx)
    from .sweep import r05_13 as _r05_13a
    _r05_13a(ctx, 'R01.18')
    # exactly one result per executed job (borrowed from C03): a worker that survives a failed fallback leaves the job unresolved
    from .c03 import r03_2 as _r03_2b
    from .poolfacts import WorkloopAnchors as _WAb
    from ..report import Only as _OnlyS1
    _r03_2b(_OnlyS1(ctx, ('one-ready-per-executed-job',), floor=1, doc='every executed job sends exactly one READY or the worker dies (never: lives on without having answered)'), _WAb(ctx))
    r01_15(ctx)
    r01_16(ctx)
    from .c06 import r06_3 as _r06_3
    from ..report import Only as _OnlyA
    _r06_3(_OnlyA(ctx, ('ready-before-callbacks',), floor=1, doc='a handle is ready (and out of the cache) before its completion callbacks run: a slow callback must not leave a resolved job looking pending to the time-limit scan'))
    r01_13(ctx)
    r01_14(ctx)
    # the owner lists of a map job are per item (borrowed from C04), and close() stops only the supervisor (from C07):
    # an owner that is forgotten, or queued jobs the feeder drops, are jobs without an outcome
    from ..report import Only as _Only
    from .c04 import r04_9 as _r04_9
    _r04_9(_Only(ctx, ('indexed-by-item',), floor=2, doc='MapResult keeps its per-item owner / time lists indexed by item'))
    from .c07 import r07_10 as _r07_10
    _r07_10(_Only(ctx, ('Pool.close:',), floor=1, doc='close() flags the supervisor only: the feeder and the result handler run on until their sentinels'))
    # a job past its hard limit is failed by the scanner: every job of a pass is tested (borrowed from C05 / timelimits)
    from .timelimits import r05_6 as _r05_6
    from ..report import Only as _Only
    _r05_6(_Only(ctx, ('hard-limit-tested-for-every-job',), floor=1, doc='the time-limit scan tests the hard limit of every job of a pass (a job running past it never gets an outcome otherwise)'), 'R05.6')
    # an accepted job needs a worker: the supervision tick refills the pool whether or not it reaped somebody itself
    from .c09 import r09_3 as _r09_3
    _r09_3(_Only(ctx, ('refill-on-every-tick',), floor=1, doc='every supervision tick brings the pool back to its size'))
    r01_1(ctx)
    r01_2(ctx)
    r01_3(ctx)
    r01_4(ctx)
    r01_5(ctx)
    r01_6(ctx)
    r08_1(ctx)
    # lost-worker outcome: an unfinished job whose owner exited is always failed, for every exit status
    from .c04 import r04_4, r04_5
    from ..report import Except
    # (when the report comes and which status it names is C04's business, not C01's)
    r04_4(Except(ctx, ('marker-written-once',)))
    r04_5(ctx)
    from .c03 import r03_5
    from ..report import Only
    r03_5(Only(ctx, ('recorded-before-callback', 'owner-is-always-recorded'), floor=4,
               doc='ApplyResult._ack records acceptance and the owner before any user callback can fail, on every '
                   'accepting path (an unrecorded owner = a job nobody fails when its worker dies)'))
    feeder_serves_while_running(ctx, 'R01.7', parts='a')
    worker_never_leaves_with_a_task_in_hand(ctx, 'R01.12')
    # an outcome, a part list, a reorder buffer belong to one handle
    from .generic import per_instance_state, ctor_forwards_params
    per_instance_state(ctx, 'R01.9', ['pool'], floor=8, classes={'ApplyResult', 'IMapIterator'})
    ctor_forwards_params(ctx, 'R01.10', ['pool'], floor=4)
    # result handling and the handles: a lookup-error handler that no longer matches its lookup lets the new failure
    # out into the result thread (host exit) or into the dispatcher's except KeyError (message dropped)
    from .generic import handlers_match_lookups
    handlers_match_lookups(ctx, 'R01.11', ['pool'], floor=4,
                           only=lambda f: f.qual.split(':')[1].split('.')[0] in
                           ('ResultHandler', 'TaskHandler', 'ApplyResult', 'MapResult', 'IMapIterator',
                            'IMapUnorderedIterator'))
    ctx.assume('messages on one pipe are delivered in order and not lost by the kernel')


_P = 'billiard/pool.py'
MUTANTS = [
    ('lost-worker-record-without-a-live-exception', 'billiard/pool.py', '        except WorkerLostError:\n            job._set(None, (False, ExceptionInfo()))\n', '        except KeyError:\n            job._set(None, (False, ExceptionInfo()))\n', 'R01.17'),
    ('hard-limit-not-enforced-when-the-worker-is-gone', 'billiard/pool.py', "        if job.ready():\n            return\n        debug('hard time limit exceeded for %r', job)\n", "        if job.ready():\n            return\n        if not self._process_by_pid(job._worker_pid)[0]:\n            return\n        debug('hard time limit exceeded for %r', job)\n", 'R01.18'),
    ('feeder-evicts-a-job-whose-part-could-not-be-sent', _P, "                        try:\n                            cache[job]._set(ind, (False, ExceptionInfo()))\n                        except KeyError:\n                            pass\n", "                        try:\n                            cache[job]._set(ind, (False, ExceptionInfo()))\n                        except KeyError:\n                            pass\n                        cache.pop(job, None)\n", 'R01.15'),
    ('result-for-a-suspected-job-discarded', _P, "            if not item.ready():\n                if putlock is not None:\n                    putlock.release()\n            try:\n                item._set(i, obj)", "            if item.ready() or item._worker_lost:\n                return\n            if putlock is not None:\n                putlock.release()\n            try:\n                item._set(i, obj)", 'R01.16'),
    ('imap-pins-positionless-failure-on-the-next-part', _P, "    def _set(self, i, obj):\n        with self._cond:\n            if self._index == i:", "    def _set(self, i, obj):\n        with self._cond:\n            if i is None:\n                i = self._index\n            if self._index == i:", 'R01.13'),
    ('sequence-failure-filed-on-the-last-sent-part', _P, "                    cache[job]._set(ind + 1, (False, ExceptionInfo()))\n", "                    cache[job]._set(ind, (False, ExceptionInfo()))\n", 'R01.14'),
    ('map-handle-drops-the-error-callback', _P, "            self, cache, callback, error_callback=error_callback,\n", "            self, cache, callback,\n", 'R01.10'),
    ('outcome-list-shared-by-all-map-handles', _P, "class MapResult(ApplyResult):\n\n    def __init__(self, cache, chunksize, length, callback, error_callback):\n        ApplyResult.__init__(\n            self, cache, callback, error_callback=error_callback,\n        )\n        self._success = True\n        self._length = length\n        self._value = [None] * length\n",
     "class MapResult(ApplyResult):\n    _value = []\n\n    def __init__(self, cache, chunksize, length, callback, error_callback):\n        ApplyResult.__init__(\n            self, cache, callback, error_callback=error_callback,\n        )\n        self._success = True\n        self._length = length\n        self._value.extend([None] * length)\n", 'R01.9'),
    ('feeder-ends-after-one-bad-task', _P, "                            cache[job]._set(ind, (False, ExceptionInfo()))\n                        except KeyError:\n                            pass\n",
     "                            cache[job]._set(ind, (False, ExceptionInfo()))\n                        except KeyError:\n                            pass\n                        break\n", 'R01.7'),
    ('accept-callback-before-bookkeeping', _P, "            self._accepted = True\n            self._time_accepted = time_accepted\n            self._worker_pid = pid\n",
     "            if self._accept_callback:\n                self._accept_callback(pid, time_accepted)\n            self._accepted = True\n            self._time_accepted = time_accepted\n            self._worker_pid = pid\n", 'R03.5'),
    ('send-failure-reads-tag', _P, "                        job, ind = task[1][:2]\n", "                        job, ind = task[:2]\n", 'R01.1'),
    ('iter-failure-reads-tag', _P, "job, ind = task[1][:2] if task else (0, 0)", "job, ind = task[:2] if task else (0, 0)", 'R01.1'),
    ('send-failure-swapped', _P, "                        job, ind = task[1][:2]\n", "                        ind, job = task[1][:2]\n", 'R01.1'),
    ('producer-part-as-job', _P, "self._quick_put((TASK, (result._job, None, func, args, kwds)))",
     "self._quick_put((TASK, (None, result._job, func, args, kwds)))", 'R01.1'),
    ('map-producer-index-as-job', _P, "self._taskqueue.put((((TASK, (result._job, i, mapper, (x,), {}))",
     "self._taskqueue.put((((TASK, (i, result._job, mapper, (x,), {}))", 'R01.1'),
    ('on-ready-keyed-by-part', _P, "            try:\n                item = cache[job]\n            except KeyError:\n                return\n",
     "            try:\n                item = cache[i]\n            except KeyError:\n                return\n", 'R01.1'),
    ('ready-echoes-part-first', _P, "put((READY, (job, i, result, inqW_fd)))", "put((READY, (i, job, result, inqW_fd)))", 'R01.1'),
    ('discard-wrong-key', _P, "        self._cache.pop(self._job, None)\n\n    def terminate(self, signum):",
     "        self._cache.pop(self._worker_pid, None)\n\n    def terminate(self, signum):", 'R01.1'),
    ('hard-timeout-no-ready-guard', _P, "    def on_hard_timeout(self, job):\n        if job.ready():\n            return\n",
     "    def on_hard_timeout(self, job):\n", 'R01.2'),
    ('lost-loop-unfiltered', _P, "                    if not job.ready() and job._worker_lost]:", "                    if job._worker_lost]:", 'R01.2'),
    ('terminated-unguarded', _P, "                    if not job.ready():\n                        exitcode = exitcodes.get(acked_by_gone) or 0",
     "                    if True:\n                        exitcode = exitcodes.get(acked_by_gone) or 0", 'R01.2'),
    ('set-never-pops', _P, "            if self._accepted:\n                # if not accepted yet, then the set message\n                # was received before the ack, which means\n                # the ack will remove the entry.\n                self._cache.pop(self._job, None)\n",
     "", 'R01.3'),
    ('ack-pops-unready', _P, "            if self.ready():\n                # ack received after set()\n                self._cache.pop(self._job, None)\n",
     "            self._cache.pop(self._job, None)\n", 'R01.3'),
    ('ack-never-pops', _P, "            if self.ready():\n                # ack received after set()\n                self._cache.pop(self._job, None)\n", "", 'R01.3'),
    ('imap-ready-not-removed', _P, "            if self._index == self._length:\n                self._ready = True\n                del self._cache[self._job]\n\n    def _set_length",
     "            if self._index == self._length:\n                self._ready = True\n\n    def _set_length", 'R01.3'),
    ('map-failure-keeps-entry', _P, "                if self._error_callback:\n                    self._error_callback(self._value)\n                if self._accepted:\n                    self._cache.pop(self._job, None)\n",
     "                if self._error_callback:\n                    self._error_callback(self._value)\n", 'R01.3'),
    ('on-ready-lookup-unprotected', _P, "            try:\n                item = cache[job]\n            except KeyError:\n                return\n",
     "            item = cache[job]\n", 'R01.4'),
    ('on-ack-narrow-handler', _P, "            except (KeyError, AttributeError):\n                # Object gone", "            except AttributeError:\n                # Object gone", 'R01.4'),
    ('unknown-state-raises', _P, "            except KeyError:\n                debug(\"Unknown job state: %s (args=%s)\", state, args)",
     "            except KeyError:\n                raise", 'R01.4'),
    ('error-callback-always', _P, "            if (self._value is not None and\n                    self._error_callback and not self._success):",
     "            if (self._value is not None and\n                    self._error_callback):", 'R01.5'),
    ('map-callback-on-failure', _P, "                self._success = False\n                self._value = result\n                if self._error_callback:\n                    self._error_callback(self._value)",
     "                self._success = False\n                self._value = result\n                if self._callback:\n                    self._callback(self._value)\n                if self._error_callback:\n                    self._error_callback(self._value)", 'R01.5'),
    ('apply-guard-dropped', _P, "            if self._event.is_set():\n                # already resolved: the outcome is final, a late or\n                # duplicate result must not change it or re-run callbacks.\n                return\n", "", 'R01.6'),
    ('apply-guard-outside-lock', _P, "    def _set(self, i, obj):\n        with self._mutex:\n            if self._event.is_set():\n                # already resolved: the outcome is final, a late or\n                # duplicate result must not change it or re-run callbacks.\n                return\n",
     "    def _set(self, i, obj):\n        if self._event.is_set():\n            return\n        with self._mutex:\n", 'R01.6'),
    ('map-guard-dropped', _P, "            if self._event.is_set():\n                # already resolved: the outcome is final.\n                return\n", "", 'R01.6'),
    ('swallow-systemexit', _P, "                        if (isinstance(exc, SystemExit) and\n                                _should_have_exited[0]):\n", "                        if False:\n", 'R08.1'),
]
TWINS = [
    ('feeder-state-test-spelled-with-RUN', _P, "                    if self._state:\n                        debug('task handler found thread._state != RUN')\n",
     "                    if self._state != RUN:\n                        debug('task handler found thread._state != RUN')\n"),
    ('feeder-broken-pipe-handler-OSError', _P, "                    except IOError:\n                        debug('could not put task on queue')\n",
     "                    except OSError:\n                        debug('could not put task on queue')\n"),
    ('ready-spelling', _P, "            if self._event.is_set():\n                # already resolved: the outcome is final, a late or",
     "            if self.ready():\n                # already resolved: the outcome is final, a late or"),
    ('payload-local', _P, "                        job, ind = task[1][:2]\n", "                        payload = task[1]\n                        job, ind = payload[:2]\n"),
    ('payload-index', _P, "                        job, ind = task[1][:2]\n", "                        job, ind = task[1][0], task[1][1]\n"),
    ('hard-timeout-guard-inverted', _P, "    def on_hard_timeout(self, job):\n        if job.ready():\n            return\n        debug('hard time limit exceeded for %r', job)",
     "    def on_hard_timeout(self, job):\n        if not job.ready():\n            self._on_hard_timeout(job)\n\n    def _on_hard_timeout(self, job):\n        debug('hard time limit exceeded for %r', job)"),
    ('on-ready-membership', _P, "            try:\n                item = cache[job]\n            except KeyError:\n                return\n",
     "            if job not in cache:\n                return\n            item = cache[job]\n"),
    ('discard-del', _P, "        self._cache.pop(self._job, None)\n\n    def terminate(self, signum):",
     "        if self._job in self._cache:\n            del self._cache[self._job]\n\n    def terminate(self, signum):"),
]
