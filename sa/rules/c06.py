"""C06 — soft time limit is raised once, inside the task that exceeded it."""
import ast

from ..model import walk_own, dotted
from .. import q
from .entryiface import r04_1, r05_1
from .timelimits import Scan, r05_2, r05_3, r05_5


def _scanner_side(fi):
    return fi.qual.startswith('pool:TimeoutHandler.')


def r06_1(ctx):
    ctx.rule('R06.1', 'a job is soft-signalled at most once: the action runs only for a key not yet in the signalled '
                      'set, the key is added afterwards, and the set survives across scans (it is only pruned of '
                      'keys that left the cache)', floor=4)
    S = Scan(ctx)
    fi, cfg = S.fi, S.cfg
    for (sn, sc) in S.soft:
        g = q.guards_norm(fi, sn, srcs=[S.loop])
        members = [t for (t, p) in g if not p and t.startswith(S.key + ' in ')]
        ok = bool(members)
        setname = members[0][len(S.key) + 4:] if ok else None
        ctx.ob('R06.1', 'scan:soft-only-if-not-yet-signalled', ok, fi, sn,
               'guard `%s not in %s` in force within the iteration' % (S.key, setname))
        if not ok:
            continue
        adds = [n for (n, c) in q.calls(fi, setname + '.add')
                if c.args and ast.unparse(c.args[0]) == S.key and q.inside(fi, n, S.loop.stmt.body)]
        okp, w = cfg.must_pass([sn], [S.loop, cfg.exit], adds, skip_labels=('x',)) if adds else (False, None)
        ctx.ob('R06.1', 'scan:signalled-key-remembered', okp, fi, sn,
               'after the soft action the key is added to %s before the next job is looked at' % setname, path=w)
        # nothing else is added: only keys that were just signalled
        all_adds = [n for (n, c) in q.calls(fi, setname + '.add')]
        ok = all(cfg.must_pass([S.loop], [a], [sn], skip_labels=('x',))[0] for a in all_adds)
        ctx.ob('R06.1', 'scan:only-signalled-keys-remembered', ok, fi, None,
               'every %s.add() follows the soft action of the same iteration' % setname)
        # definitions of the set
        outer = [n for n in cfg.where(lambda n: n.kind == 'loop')]
        q.need(outer, 'handle_timeouts has no scan loop')
        scan_loop = min(outer, key=lambda n: n.stmt.lineno)
        defs = q.assigns(fi, setname)
        init = [(dn, v) for (dn, t, v) in defs if not q.inside(fi, dn, scan_loop.stmt.body)]
        inloop = [(dn, v) for (dn, t, v) in defs if q.inside(fi, dn, scan_loop.stmt.body)]
        ok = len(init) >= 1 and all(isinstance(v, ast.Call) and fi.callee(v) == 'set' and not v.args for dn, v in init)
        ctx.ob('R06.1', 'scan:memory-created-outside-the-scan-loop', ok, fi, init[0][0] if init else None,
               '%s = set() before the loop, so it survives from scan to scan' % setname)
        ok = True
        for (dn, v) in inloop:
            good = False
            if isinstance(v, ast.Call) and fi.callee(v) == 'set' and len(v.args) == 1 and \
                    isinstance(v.args[0], (ast.GeneratorExp, ast.ListComp, ast.SetComp)):
                g0 = v.args[0]
                gen = g0.generators[0]
                kv = ast.unparse(gen.target)
                good = ast.unparse(g0.elt) == kv and ast.unparse(gen.iter) == setname and len(gen.ifs) == 1 and \
                    isinstance(gen.ifs[0], ast.Compare) and isinstance(gen.ifs[0].ops[0], ast.In) and \
                    ast.unparse(gen.ifs[0].left) == kv
            elif isinstance(v, ast.SetComp):
                gen = v.generators[0]
                kv = ast.unparse(gen.target)
                good = ast.unparse(v.elt) == kv and ast.unparse(gen.iter) == setname and len(gen.ifs) == 1 and \
                    isinstance(gen.ifs[0], ast.Compare) and isinstance(gen.ifs[0].ops[0], ast.In)
            ok = ok and good
        ctx.ob('R06.1', 'scan:memory-only-pruned-of-finished-jobs', ok, fi, inloop[0][0] if inloop else None,
               'inside the scan loop %s is only re-assigned to {k in %s if k in cache}' % (setname, setname))
        # the memory must not be consulted before the hard test (a signalled job still gets its hard limit)
        hard_nodes = [hn for (hn, hc) in S.hard]
        for hn in hard_nodes:
            gh = q.guards_norm(fi, hn, srcs=[S.loop])
            ok = not any(t.startswith(S.key + ' in ') for (t, p) in gh)
            ctx.ob('R06.1', 'scan:hard-limit-independent-of-soft-memory', ok, fi, hn,
                   'the hard action is not conditioned on the signalled set')


def r06_2(ctx):
    ctx.rule('R06.2', 'the soft timeout is delivered as the soft signal to the process that owns the job, the callback '
                      'is told soft=True and the soft limit, and the worker installs the raising handler last',
             floor=6)
    m = ctx.model
    fi = m.func('pool:TimeoutHandler.on_soft_timeout')
    job = fi.positional_params()[1]
    kills = q.calls(fi, ('_kill', 'os.kill'))
    q.need(kills, 'on_soft_timeout sends no signal')
    for (n, c) in kills:
        ok = len(c.args) == 2 and ast.unparse(c.args[0]) == job + '._worker_pid' and \
            fi.canon(c.args[1]) == 'SIG_SOFT_TIMEOUT'
        ctx.ob('R06.2', 'on_soft_timeout:signal-and-target', ok, fi, c, ast.unparse(c))
    cbs = q.calls(fi, job + '.handle_timeout')
    ok = bool(cbs) and all(any(k.arg == 'soft' and isinstance(k.value, ast.Constant) and k.value.value is True
                               for k in c.keywords) or
                           (c.args and isinstance(c.args[0], ast.Constant) and c.args[0].value is True)
                           for (n, c) in cbs)
    ctx.ob('R06.2', 'on_soft_timeout:callback-told-soft', ok, fi, cbs[0][1] if cbs else None, 'job.handle_timeout(soft=True)')
    hf = m.func('pool:TimeoutHandler.on_hard_timeout')
    cbh = q.calls(hf, hf.positional_params()[1] + '.handle_timeout')
    ok = bool(cbh) and all(any(k.arg == 'soft' and isinstance(k.value, ast.Constant) and k.value.value is False
                               for k in c.keywords) or
                           (c.args and isinstance(c.args[0], ast.Constant) and c.args[0].value is False)
                           for (n, c) in cbh)
    ctx.ob('R06.2', 'on_hard_timeout:callback-told-hard', ok, hf, cbh[0][1] if cbh else None, 'job.handle_timeout(soft=False)')
    ht = m.func('pool:ApplyResult.handle_timeout')
    soft = ht.positional_params()[1]
    calls_ = [c for (n, c) in q.calls(ht, 'self.safe_apply_callback')]
    ok = False
    for c in calls_:
        kw = {k.arg: k.value for k in c.keywords}
        ok = 'soft' in kw and ast.unparse(kw['soft']) == soft and 'timeout' in kw and \
            ast.unparse(kw['timeout']).replace(' ', '') == ('self._soft_timeoutif%selseself._timeout' % soft)
        ok = ok and c.args and ast.unparse(c.args[0]) == 'self._timeout_callback'
    ctx.ob('R06.2', 'handle_timeout:passes-soft-flag-and-matching-limit', ok, ht, calls_[0] if calls_ else None,
           'timeout_callback(soft=soft, timeout=self._soft_timeout if soft else self._timeout)')
    sig = m.modules['pool'].assigns.get('SIG_SOFT_TIMEOUT')
    ok = sig is not None and "'SIGUSR1'" in ast.unparse(sig)
    ctx.ob('R06.2', 'pool:soft-signal-is-SIGUSR1', ok, None, sig, 'SIG_SOFT_TIMEOUT = getattr(signal, "SIGUSR1", None)',
           line=getattr(sig, 'lineno', 0))
    af = m.func('pool:Worker.after_fork')
    cfg = af.cfg
    inst = [n for (n, c) in q.calls(af, 'signal.signal')
            if len(c.args) == 2 and ast.unparse(c.args[0]) == 'SIG_SOFT_TIMEOUT' and
            ast.unparse(c.args[1]) == 'soft_timeout_sighandler']
    rs = q.nodes_calling(af, 'reset_signals')
    unset = q.outcome_edges(af, 'SIG_SOFT_TIMEOUT is None', True)
    ok = bool(inst) and bool(rs)
    if ok:
        r = cfg.reach([n.id for n in rs], block_nodes={n.id for n in inst}, block_edges=unset, skip_labels=('x',))
        ok = cfg.exit.id not in r
        # nothing re-installs another handler for the soft signal afterwards
        later = cfg.reach([n.id for n in inst], skip_labels=('x',))
        other = [n for (n, c) in q.calls(af, ('signal.signal', 'reset_signals', 'maybe_setsignal'))
                 if n.id in later and n not in inst and
                 (af.callee(c) == 'reset_signals' or (c.args and ast.unparse(c.args[0]) == 'SIG_SOFT_TIMEOUT'))]
        ok = ok and not other
    ctx.ob('R06.2', 'after_fork:soft-handler-installed-last', ok, af, inst[0] if inst else None,
           'signal.signal(SIG_SOFT_TIMEOUT, soft_timeout_sighandler) after reset_signals() (which also covers SIGUSR1)')
    sh = m.func('pool:soft_timeout_sighandler')
    rz = [n for n in walk_own(sh.node) if isinstance(n, ast.Raise) and n.exc is not None]
    ok = bool(rz) and all('SoftTimeLimitExceeded' in ast.unparse(r.exc) for r in rz) and \
        sh.cfg.exit.id not in sh.cfg.reach([sh.cfg.entry.id])
    ctx.ob('R06.2', 'soft_timeout_sighandler:raises-SoftTimeLimitExceeded', ok, sh, rz[0] if rz else None,
           'the handler always raises SoftTimeLimitExceeded')


def r06_3(ctx):
    ctx.rule('R06.3', 'no soft-timeout signal or callback on behalf of a job that is already resolved', floor=2)
    m = ctx.model
    fi = m.func('pool:TimeoutHandler.on_soft_timeout')
    job = fi.positional_params()[1]
    acts = [n for (n, c) in q.calls(fi, ('_kill', 'os.kill', job + '.handle_timeout'))]
    q.need(acts, 'on_soft_timeout does nothing')
    S = Scan(ctx)
    scan_guard = all(q.has_guard(S.fi, sn, S.job + '.ready()', False) for (sn, sc) in S.soft)
    ok = scan_guard or all(q.has_guard(fi, n, job + '.ready()', False) for n in acts)
    ctx.ob('R06.3', 'TimeoutHandler.on_soft_timeout:not-for-a-finished-job', ok, fi, acts[0],
           'signal and callback are under `not job.ready()` (the scan works on a copy of the cache; its sibling '
           'on_hard_timeout has the same guard)')
    # "already resolved" must become visible before user code runs: a processed result whose
    # completion callback is still running must not look pending to the scanner
    st = m.func('pool:ApplyResult._set')
    ev = [n for (n, c) in q.calls(st, 'self._event.set')]
    cbs = [n for (n, c) in q.calls(st, None)
           if st.callee(c) in ('self._callback', 'self._error_callback') or
           (st.callee(c) == 'self.safe_apply_callback' and c.args and
            st.canon(c.args[0]) in ('self._callback', 'self._error_callback'))]
    q.need(ev and cbs, 'ApplyResult._set: event / callbacks not found')
    ok = all(st.cfg.dominated_by(cb, ev, completed=True)[0] for cb in cbs)
    ctx.ob('R06.3', 'ApplyResult._set:ready-before-callbacks', ok, st, cbs[0],
           'self._event.set() precedes the completion callbacks ("apply callbacks last"): while a slow callback '
           'runs the job already reads as ready, so no time-limit action is taken on its behalf')
    # and only for a job that is owned by a live worker of this pool
    kills = [n for (n, c) in q.calls(fi, ('_kill', 'os.kill'))]
    # the process object is the FIRST element of what _process_by_pid returns (the second is its
    # position in the list, which is 0 -- falsy -- for the first worker)
    pvars = []
    for st in walk_own(fi.node):
        if isinstance(st, ast.Assign) and isinstance(st.value, ast.Call) and \
                fi.callee(st.value) == 'self._process_by_pid' and \
                ast.unparse(st.value.args[0]) == job + '._worker_pid':
            t0 = st.targets[0]
            pvars.append(ast.unparse(t0.elts[0]) if isinstance(t0, ast.Tuple) and t0.elts else ast.unparse(t0))
    ok = bool(pvars) and all(any((p and t in pvars) or (not p and t in [v_ + ' is None' for v_ in pvars])
                                 for (t, p) in q.guards_norm(fi, n)) for n in kills)
    pb = m.func('pool:TimeoutHandler._process_by_pid')
    gens = [g for g in ast.walk(pb.node) if isinstance(g, ast.GeneratorExp)]
    shape_ok = False
    for g in gens:
        comp = g.generators[0]
        if isinstance(comp.iter, ast.Call) and pb.callee(comp.iter) == 'enumerate' and \
                isinstance(comp.target, ast.Tuple) and isinstance(g.elt, ast.Tuple) and len(g.elt.elts) == 2:
            a, b = [ast.unparse(e) for e in comp.target.elts]
            shape_ok = [ast.unparse(e) for e in g.elt.elts] == [b, a]
    ok = ok and shape_ok
    ctx.ob('R06.3', 'on_soft_timeout:only-for-a-worker-of-this-pool', ok, fi, kills[0] if kills else None,
           'the signal is sent only when the owner pid belongs to a process of the pool')


def r06_5(ctx):
    ctx.rule('R06.5', 'one scan, one memory of who was signalled: the scan generator (which owns the set of already '
                      'signalled jobs) is created in one place and driven either by the scanner thread or, in a pool '
                      'without threads, by the result loop -- never by both', floor=3)
    m = ctx.model
    th = m.cls('pool:TimeoutHandler')
    # the generator is created only by handle_event, lazily, once
    makers = []
    for name, fi in sorted(th.methods.items()):
        for (n, c) in q.calls(fi, 'self.handle_timeouts'):
            makers.append((fi, n, c))
    q.need(makers, 'TimeoutHandler: nobody creates the scan generator')
    for (fi, n, c) in makers:
        in_body = fi.name == 'body'
        lazy = fi.name == 'handle_event' and q.has_guard(fi, n, 'self._it is None', True)
        ctx.ob('R06.5', '%s:scan-generator-created-once' % fi.name, in_body or lazy, fi, c,
               'created under `self._it is None`' if lazy else 'the thread body iterates its own generator' if in_body
               else 'a second scan generator starts with an empty signalled set: jobs are signalled again')
    # who drives handle_event: only Pool.__init__, only for a pool without threads
    n_bind = 0
    for qn, fi in sorted(m.funcs.items()):
        if fi.module.name != 'pool':
            continue
        for node in [x for x in walk_own(fi.node) if isinstance(x, ast.Attribute) and x.attr == 'handle_event'
                     and fi.canon(x.value) in ('self._timeout_handler',)]:
            n_bind += 1
            stn = fi.cfg.node_containing(node)
            ok = bool(stn) and all(q.has_guard(fi, s, 'threads', False) or q.has_guard(fi, s, 'self.threads', False)
                                   for s in stn)
            ctx.ob('R06.5', '%s:result-loop-drives-the-scan-only-without-threads' % fi.qual.split(':')[1], ok, fi, node,
                   'bound to check_timeouts only under `not threads`' if ok else
                   'with threads the scanner thread already runs the scan; a second driver creates a second generator '
                   'with its own signalled set and every job past its soft limit is signalled twice')
    q.need(n_bind >= 1, 'Pool never hands the scan to the result loop')


def r06_6(ctx):
    ctx.rule('R06.6', 'the worker can always receive the soft-timeout signal while a task runs: the handler is installed '
                      'in after_fork, and whatever blocks a signal in worker code unblocks it again on every way out '
                      '(normal and exceptional)', floor=1)
    m = ctx.model
    af = m.func('pool:Worker.after_fork')
    inst = [c for (n, c) in q.calls(af, 'signal.signal') if c.args and ast.unparse(c.args[0]) == 'SIG_SOFT_TIMEOUT']
    ok = bool(inst) and all(len(c.args) == 2 and ast.unparse(c.args[1]) == 'soft_timeout_sighandler' for c in inst)
    ctx.ob('R06.6', 'after_fork:soft-timeout-handler-installed', ok, af, inst[0] if inst else None,
           'signal.signal(SIG_SOFT_TIMEOUT, soft_timeout_sighandler)')
    # ... and nothing user-supplied runs after it: an initializer that binds the same signal (faulthandler.register,
    # a debugging hook) would replace the handler and the task would never see SoftTimeLimitExceeded
    inst_nodes = [n for (n, c) in q.calls(af, 'signal.signal') if c.args and ast.unparse(c.args[0]) == 'SIG_SOFT_TIMEOUT']
    user = [n for (n, c) in q.calls(af, 'self.initializer')]
    q.need(user, 'Worker.after_fork does not call the initializer')
    after_inst = af.cfg.reach([n.id for n in inst_nodes], skip_labels=('x',)) if inst_nodes else set()
    late = [u for u in user if u.id in after_inst]
    ctx.ob('R06.6', 'after_fork:initializer-before-the-soft-timeout-handler', bool(inst_nodes) and not late, af,
           late[0] if late else None,
           'the initializer runs before the soft-timeout handler is installed' if not late else
           'the initializer runs after the soft-timeout handler was installed and can replace it')
    MASK = ('signal.pthread_sigmask', 'signal.sigprocmask', 'signal.sigblock')
    maskers = {}
    for qn, fi in sorted(m.funcs.items()):
        if fi.module.name == 'pool' and any(isinstance(x, ast.Call) and fi.callee(x) in MASK for x in walk_own(fi.node)):
            maskers[fi.name if fi.cls is None else fi.qual] = fi

    def blocks(f, c):
        txt = ' '.join(ast.unparse(a) for a in list(c.args) + [k.value for k in c.keywords])
        if f.callee(c) in MASK:
            return 'SIG_BLOCK' in txt and 'SIG_UNBLOCK' not in txt or 'SIG_SETMASK' in txt and '[]' not in txt
        return any(isinstance(a, ast.Constant) and a.value is True for a in list(c.args) + [k.value for k in c.keywords])

    for qn, fi in sorted(m.funcs.items()):
        if fi.module.name != 'pool':
            continue
        sites = [(n, c) for (n, c) in q.calls(fi, lambda t: t in MASK or t in maskers)]
        if fi.name in maskers and all(fi.callee(c) in MASK for (n, c) in sites):
            # the helper itself: judged at its call sites (its argument says which way)
            if any(isinstance(a_, ast.IfExp) or isinstance(a_, ast.Name) for (n, c) in sites for a_ in c.args[:1]):
                continue
        blk = [(n, c) for (n, c) in sites if blocks(fi, c)]
        unb = [n for (n, c) in sites if not blocks(fi, c)]
        for (n, c) in blk:
            ok = bool(unb) and fi.cfg.must_pass([n], [fi.cfg.exit, fi.cfg.raise_exit], unb, completed=True)[0]
            ctx.ob('R06.6', '%s:signal-unblocked-on-every-way-out' % fi.qual.split(':')[1], ok, fi, c,
                   'paired with an unblock on normal and exceptional paths' if ok else
                   '`%s` blocks a signal and some path (an exception of the statement in between) leaves without '
                   'unblocking it: the worker never sees the soft time limit again' % ast.unparse(c))


def run(ctx):
    from .sweep import r05_14 as _r05_14b, r03_7 as _r03_7b
    _r05_14b(ctx, 'R06.9')
    _r03_7b(ctx, 'R06.10')
    from .sweep import r05_15 as _r05_15b
    _r05_15b(ctx, 'R06.11')
    # the scanner runs on until terminate(): close() / join() neither flag nor wait for it (borrowed from C05)
    from .c05 import r05_7 as _r05_7
    _r05_7(ctx, 'R06.8')
    # the soft-limit signal goes to the recorded owner: recorded before anything user-supplied runs (borrowed from C03)
    from .c03 import r03_5 as _r03_5
    from ..report import Only as _Only6
    _r03_5(_Only6(ctx, ('_worker_pid-recorded-before-callback',), floor=1, doc='the accepting worker is recorded as the owner before the accept callback runs'))
    from .timelimits import scan_period
    scan_period(ctx, 'R06.7')
    r06_6(ctx)
    r06_5(ctx)
    r04_1(ctx, site=_scanner_side, floor=5)
    r05_1(ctx)
    r06_1(ctx)
    r06_2(ctx)
    r06_3(ctx)
    r05_2(ctx, 'soft', 'R06.4')
    r05_3(ctx, 'R05.3')
    r05_5(ctx, 'R05.5')


_P = 'billiard/pool.py'
MUTANTS = [
    ('result-loop-scans-too', _P, "            if not threads:\n                self.check_timeouts = self._timeout_handler.handle_event\n",
     "            self.check_timeouts = self._timeout_handler.handle_event\n", 'R06.5'),
    ('signalled-every-scan', _P, "                elif i not in dirty and _timed_out(ack_time, soft_timeout):", "                elif _timed_out(ack_time, soft_timeout):", 'R06.1'),
    ('never-remembered', _P, "                    on_soft_timeout(job)\n                    dirty.add(i)\n", "                    on_soft_timeout(job)\n", 'R06.1'),
    ('memory-reset-each-scan', _P, "            if dirty:\n                dirty = set(k for k in dirty if k in cache)\n", "            dirty = set()\n", 'R06.1'),
    ('memory-inside-loop', _P, "        dirty = set()\n        on_soft_timeout = self.on_soft_timeout", "        on_soft_timeout = self.on_soft_timeout", 'R06.1'),
    ('remembered-wrong-key', _P, "                    on_soft_timeout(job)\n                    dirty.add(i)\n", "                    on_soft_timeout(job)\n                    dirty.add(job)\n", 'R06.1'),
    ('signalled-skips-hard', _P, "            for i, job in cache.items():\n                ack_time = job._time_accepted\n",
     "            for i, job in cache.items():\n                if i in dirty:\n                    continue\n                ack_time = job._time_accepted\n", 'R06.1'),
    ('remember-one-level-deep', _P, "                elif i not in dirty and _timed_out(ack_time, soft_timeout):\n                    on_soft_timeout(job)\n                    dirty.add(i)\n",
     "                elif _timed_out(ack_time, soft_timeout):\n                    if i not in dirty:\n                        on_soft_timeout(job)\n                    else:\n                        dirty.add(i)\n", 'R06.1'),
    ('soft-sends-term', _P, "            _kill(job._worker_pid, SIG_SOFT_TIMEOUT)", "            _kill(job._worker_pid, TERM_SIGNAL)", 'R06.2'),
    ('soft-callback-says-hard', _P, "        job.handle_timeout(soft=True)", "        job.handle_timeout(soft=False)", 'R06.2'),
    ('callback-limit-swapped', _P, "timeout=self._soft_timeout if soft else self._timeout,", "timeout=self._timeout if soft else self._soft_timeout,", 'R06.2'),
    ('handler-before-reset', _P, "        # Make sure all exiting signals call finally: blocks.\n        # This is important for the semaphore to be released.\n        reset_signals(full=self.sigprotection)\n\n        # install signal handler for soft timeouts.\n        if SIG_SOFT_TIMEOUT is not None:\n            signal.signal(SIG_SOFT_TIMEOUT, soft_timeout_sighandler)\n",
     "        # install signal handler for soft timeouts.\n        if SIG_SOFT_TIMEOUT is not None:\n            signal.signal(SIG_SOFT_TIMEOUT, soft_timeout_sighandler)\n\n        reset_signals(full=self.sigprotection)\n", 'R06.2'),
    ('handler-returns', _P, "def soft_timeout_sighandler(signum, frame):\n    raise SoftTimeLimitExceeded()", "def soft_timeout_sighandler(signum, frame):\n    return SoftTimeLimitExceeded()", 'R06.2'),
    ('soft-for-finished-job', _P, "    def on_soft_timeout(self, job):\n        if job.ready():\n            return\n", "    def on_soft_timeout(self, job):\n", 'R06.3'),
    ('soft-any-pid', _P, "        process, _index = self._process_by_pid(job._worker_pid)\n        if not process:\n            return\n\n        # Run timeout callback\n        job.handle_timeout(soft=True)",
     "        # Run timeout callback\n        job.handle_timeout(soft=True)", 'R06.3'),
    ('soft-limit-ignored', _P, "                soft_timeout = job._soft_timeout\n                if soft_timeout is None:\n                    soft_timeout = t_soft\n", "                soft_timeout = t_soft\n", 'R06.4'),
    ('soft-default-first', _P, "        soft_timeout = soft_timeout or self.soft_timeout\n        timeout = timeout or self.timeout", "        soft_timeout = self.soft_timeout or soft_timeout\n        timeout = timeout or self.timeout", 'R06.4'),
    ('soft-also-when-hard', _P, "                elif i not in dirty and _timed_out(ack_time, soft_timeout):", "                if i not in dirty and _timed_out(ack_time, soft_timeout):", 'R05.5'),
]
TWINS = [
    ('ready-guard-in-scan', _P, "                elif i not in dirty and _timed_out(ack_time, soft_timeout):", "                elif i not in dirty and not job.ready() and _timed_out(ack_time, soft_timeout):"),
    ('prune-unconditional', _P, "            if dirty:\n                dirty = set(k for k in dirty if k in cache)\n", "            dirty = set(k for k in dirty if k in cache)\n"),
    ('prune-setcomp', _P, "                dirty = set(k for k in dirty if k in cache)\n", "                dirty = {k for k in dirty if k in cache}\n"),
]
