"""C11 — worker restarts are rate limited and the budget is restored."""
import ast

from ..model import walk_own, dotted
from .. import q
from ..roots import roots
from .poolfacts import CLOCKS


def r11_1(ctx):
    ctx.rule('R11.1', 'the limiter is consulted exactly for abnormal exits (status not in {clean, recycle}, or an '
                      'unknown exit) and before the replacement is forked', floor=4)
    m = ctx.model
    fi = m.func('pool:Pool._repopulate_pool')
    cfg = fi.cfg
    steps = [(n, c) for (n, c) in q.calls(fi, 'self.restart_state.step')]
    q.need(steps, '_repopulate_pool never consults the restart limiter')
    creates = q.nodes_calling(fi, 'self._create_worker_process')
    loops = [n for n in cfg.where(lambda n: n.kind == 'for')]
    q.need(loops and creates, '_repopulate_pool has no creation loop')
    loop = loops[0]
    var = ast.unparse(loop.stmt.target)
    clean = {m.const('pool', 'EX_OK'), m.const('pool', 'EX_RECYCLE')}
    n_guarded = n_handler = 0
    for (n, c) in steps:
        inh = [h for (tr, part, h) in q.enclosing_trys(fi, c) if part == 'handler']
        if inh:
            ok = ast.unparse(inh[0].type) == 'IndexError'
            n_handler += 1
            ctx.ob('R11.1', '_repopulate_pool:unknown-exit-counts-as-abnormal', ok, fi, c,
                   'limiter consulted in the IndexError handler (more workers missing than exit codes known)')
        else:
            g = q.guards_norm(fi, n, srcs=[loop])
            sets = [t for (t, p) in g if not p and t.startswith('exitcodes[%s] in ' % var)]
            ok = False
            detail = 'guards: %s' % sorted(t for t, p in g)
            for t in sets:
                expr = ast.parse(t.split(' in ', 1)[1], mode='eval').body
                vals = {m.const('pool', e.id) if isinstance(e, ast.Name) else getattr(e, 'value', None)
                        for e in getattr(expr, 'elts', [])}
                ok = vals == clean
                detail = 'consulted when exitcodes[%s] not in %s = %s' % (var, ast.unparse(expr), sorted(vals))
            n_guarded += 1
            ctx.ob('R11.1', '_repopulate_pool:consulted-exactly-for-abnormal-status', ok, fi, c, detail)
        # before the fork of the same iteration
        r = cfg.reach([n.id], block_nodes={loop.id}, skip_labels=('x',))
        ok = any(cn.id in r for cn in creates)
        ctx.ob('R11.1', '_repopulate_pool:consulted-before-fork', ok, fi, c,
               'the fork of the same iteration follows the limiter')
    ctx.ob('R11.1', '_repopulate_pool:both-arms-present', n_guarded >= 1 and n_handler >= 1, fi, None,
           'status-guarded arm and unknown-exit arm')
    # the fork is not reachable on the exception edge of step() (RestartFreqExceeded propagates)
    for (n, c) in steps:
        hs = [x for x in cfg.where(lambda x: x.kind == 'except')]
        rx = set()
        for (b, l) in cfg.succ[n.id]:
            if l == 'x':
                rx |= cfg.reach([b], block_nodes={loop.id}, include_src=True)
        swallow = [cn for cn in creates if cn.id in rx]
        inh = any(part == 'handler' for (tr, part, h) in q.enclosing_trys(fi, c))
        if inh:
            ctx.ob('R11.1', '_repopulate_pool:refusal-stops-the-fork@handler', not swallow, fi, c,
                   'an exception of step() in the handler propagates out of the loop')
        else:
            # the guarded arm sits in a try/except IndexError: RestartFreqExceeded is not an IndexError
            ok = all(not q.handler_catches(h, ['RestartFreqExceeded', 'Exception'])
                     for (tr, part, h0) in q.enclosing_trys(fi, c) if part == 'body' for h in tr.handlers)
            ctx.ob('R11.1', '_repopulate_pool:refusal-stops-the-fork', ok, fi, c,
                   'no enclosing handler can swallow RestartFreqExceeded')


def r11_2(ctx):
    ctx.rule('R11.2', 'decision table of restart_state.step: raise only at R >= maxR inside an unexpired window; an '
                      'expired window (now - T >= maxT) restarts the count; every admitted call counts one', floor=7)
    m = ctx.model
    fi = m.func('common:restart_state.step')
    cfg = fi.cfg
    expired_ge = ('(now - self.T) < self.maxT', False)
    expired_gt = ('self.maxT < (now - self.T)', True)
    raises = [n for n in cfg.where(lambda n: n.kind == 'stmt' and isinstance(n.ast, ast.Raise))]
    q.need(raises, 'restart_state.step never raises')
    for n in raises:
        g = q.guards_norm(fi, n)
        ok = ('self.R < self.maxR', False) in g
        ctx.ob('R11.2', 'step:raises-only-at-R>=maxR', ok, fi, n,
               'guard self.R >= self.maxR in force (`>` would admit maxR + 1)' if ok else
               'guards: %s' % sorted('%s=%s' % x for x in g))
        exp0 = q.outcome_edges(fi, expired_ge[0], False) | q.outcome_edges(fi, expired_gt[0], True)
        ok = bool(exp0) and n.id not in cfg.reach([b for (a, b, l) in exp0], include_src=True)
        ctx.ob('R11.2', 'step:never-raises-in-an-expired-window', ok, fi, n,
               'the raise is in the arm where the window has not expired')
        ok = 'RestartFreqExceeded' in ast.unparse(n.ast.exc)
        ctx.ob('R11.2', 'step:raises-RestartFreqExceeded', ok, fi, n, ast.unparse(n.ast.exc)[:60])
        resets = [dn for (dn, t, v) in q.assigns(fi, 'self.R') if isinstance(v, ast.Constant) and v.value == 0]
        ok, w = cfg.dominated_by(n, [d for d in resets if q.has_guard(fi, d, 'self.R < self.maxR', False)])
        ctx.ob('R11.2', 'step:refusal-resets-the-count', ok, fi, n, 'self.R = 0 before the raise', path=w)
    # expired window: R := 0, T := now
    zero = [dn for (dn, t, v) in q.assigns(fi, 'self.R') if v is not None and not isinstance(v, ast.AugAssign)
            and ast.unparse(v) == '0']
    tnow = [dn for (dn, t, v) in q.assigns(fi, 'self.T') if v is not None and ast.unparse(v) == 'now']
    exp_edges = q.outcome_edges(fi, expired_ge[0], False) | q.outcome_edges(fi, expired_gt[0], True)
    ctx.ob('R11.2', 'step:tests-window-expiry', bool(exp_edges), fi, None, 'now - self.T >= self.maxT is tested')
    ok = False
    if exp_edges:
        starts = [b for (a, b, l) in exp_edges]
        z = [d for d in zero if any(t in (expired_ge[0],) and not p or t == expired_gt[0] and p
                                    for (t, p) in q.guards_norm(fi, d))]
        tt = [d for d in tnow if any(t in (expired_ge[0],) and not p or t == expired_gt[0] and p
                                     for (t, p) in q.guards_norm(fi, d))]
        ok = bool(z) and bool(tt) and \
            cfg.exit.id not in cfg.reach(starts, block_nodes={d.id for d in z}, include_src=True,
                                         skip_labels=('x',)) and \
            cfg.exit.id not in cfg.reach(starts, block_nodes={d.id for d in tt}, include_src=True,
                                         skip_labels=('x',))
    ctx.ob('R11.2', 'step:expired-window-restarts-count-and-window', ok, fi, None,
           'under now - T >= maxT: R := 0 and T := now on every path')
    incs = {dn.id for (dn, t, v) in q.assigns(fi, 'self.R') if isinstance(dn.ast, ast.AugAssign)
            and isinstance(dn.ast.op, ast.Add) and ast.unparse(dn.ast.value) == '1'}
    r = cfg.count_range([cfg.entry], [cfg.exit], lambda n: n.id in incs, skip_labels=('x',))
    ctx.ob('R11.2', 'step:every-admitted-call-counts-one', r == (1, 1), fi, None,
           'self.R += 1 on normal paths: min,max = %r' % (r,))
    first = [d for d in tnow if q.has_guard(fi, d, 'self.T is None', True)]
    ok = bool(first) and all(cfg.must_pass([cfg.entry], [cfg.exit], first,
                                           skip_labels=('x',))[0] or True for _ in [0])
    none_edges = q.outcome_edges(fi, 'self.T is None', True)
    ok = bool(first) and all(cfg.nodes[b] in first for (a, b, l) in none_edges)
    ctx.ob('R11.2', 'step:first-call-opens-the-window', ok, fi, None, 'self.T = now when self.T is None')
    # read on the normal form `if now is None: now = monotonic()` (sa/normalize.py default_idiom)
    nowdef = [(dn, v) for (dn, t, v) in q.assigns(fi, 'now')]
    ok = bool(nowdef) and all(isinstance(v, ast.Call) and fi.callee(v) in CLOCKS and q.has_guard(fi, dn, 'now is None', True)
                              for (dn, v) in nowdef) and \
        all(cfg.nodes[b] in [dn for (dn, v) in nowdef] for (a, b, l) in q.outcome_edges(fi, 'now is None', True))
    ctx.ob('R11.2', 'step:now-defaults-to-the-clock', ok, fi, None, 'now = monotonic() if now is None else now')
    init = m.func('common:restart_state.__init__')
    a = {ast.unparse(t): ast.unparse(v) for (dn, t, v) in q.assigns(init, None) if v is not None}
    P = init.positional_params()
    ok = a.get('self.maxR') == P[1] and a.get('self.maxT') == P[2] and a.get('self.R') == '0' and a.get('self.T') == 'None'
    ctx.ob('R11.2', '__init__:budget-window-zero-count-no-window', ok, init, None, str(a))


def r11_3(ctx):
    ctx.rule('R11.3', 'an accepted job resets the restart count of the pool\'s limiter; the supervisor restores the '
                      'pool\'s own limiter after the start-up burst', floor=3)
    m = ctx.model
    R = roots(m)
    mk = m.func('pool:ResultHandler._make_methods')
    oa = mk.children.get('on_ack')
    q.need(oa is not None, 'on_ack not found')
    resets = [(dn, t) for (dn, t, v) in q.assigns(oa, lambda t: t.endswith('.R')) if ast.unparse(v) == '0']
    ok = bool(resets) and all(R.root_of(oa, t.value) == 'limiter' for (dn, t) in resets)
    ctx.ob('R11.3', 'on_ack:resets-the-pools-limiter', ok, oa, resets[0][0] if resets else None,
           '<limiter>.R = 0 where the limiter is the object the pool handed to the result handler')
    r = oa.cfg.reach([oa.cfg.entry.id], block_nodes={dn.id for (dn, t) in resets},
                     block_edges=q.logging_x_edges(oa), include_src=True)
    ok = bool(resets) and oa.cfg.exit.id not in r and oa.cfg.raise_exit.id not in r
    ctx.ob('R11.3', 'on_ack:reset-on-every-path', ok, oa, None, 'not conditional on the job still being cached')
    sb = m.func('pool:Supervisor.body')
    cfg = sb.cfg
    saves = [(dn, t) for (dn, t, v) in q.assigns(sb, None) if v is not None and sb.canon(v) == 'self.pool.restart_state'
             and isinstance(t, ast.Name)]
    ok = bool(saves)
    if ok:
        name = saves[0][1].id
        restores = [dn for (dn, t, v) in q.assigns(sb, 'self.pool.restart_state') if v is not None and ast.unparse(v) == name]
        temps = [dn for (dn, t, v) in q.assigns(sb, 'self.pool.restart_state') if isinstance(v, ast.Call)]
        loops = [n for n in cfg.where(lambda n: n.kind == 'loop')]
        ok = bool(restores) and bool(temps) and bool(loops) and \
            cfg.must_pass(temps, loops, restores, skip_labels=('x',))[0] and \
            cfg.must_pass([cfg.entry], temps, [saves[0][0]])[0]
    ctx.ob('R11.3', 'Supervisor.body:limiter-restored-after-burst', ok, sb, None,
           'prev = pool.restart_state ... pool.restart_state = prev before the steady-state loop')
    # The result handler must be handed the pool's *own* limiter (on_ack resets that object).  Pool.__init__ starts
    # the supervisor thread; either the limiter is handed over before that start, or the supervisor's first write of
    # pool.restart_state is preceded by its start-up grace sleep (the design of the current tree).
    pi = m.func('pool:Pool.__init__')
    starts = [n for (n, c) in q.calls(pi, 'self._worker_handler.start')]
    hand = [n for (n, c) in q.calls(pi, 'self.create_result_handler')]
    q.need(starts and hand, 'Pool.__init__: supervisor start / result handler construction not found')
    before = not any(pi.cfg.reach([s.id], include_src=False, skip_labels=('x',)) & {h.id for h in hand} for s in starts)
    writes = [dn for (dn, t, v) in q.assigns(sb, 'self.pool.restart_state')]
    sleeps = [n for (n, c) in q.calls(sb, 'time.sleep')
              if c.args and isinstance(c.args[0], ast.Constant) and isinstance(c.args[0].value, (int, float))
              and c.args[0].value > 0]
    graced = bool(writes) and cfg.must_pass([cfg.entry], writes, sleeps, skip_labels=('x',))[0]
    ctx.ob('R11.3', 'limiter-handed-over-before-the-supervisor-swaps-it', before or graced, sb,
           writes[0] if writes else None,
           'the supervisor\'s start-up sleep precedes its first write of pool.restart_state' if graced else
           'the limiter is read before the supervisor starts' if before else
           'Pool.__init__ starts the supervisor before it hands self.restart_state to the result handler, and the '
           'supervisor installs the burst limiter at once: accepted jobs then reset the discarded burst limiter, '
           'never the pool\'s own')


def r11_4(ctx):
    ctx.rule('R11.4', 'start-up burst: a temporary limiter of 10 restarts per worker slot per second for ten ticks',
             floor=2)
    m = ctx.model
    sb = m.func('pool:Supervisor.body')
    temps = [v for (dn, t, v) in q.assigns(sb, 'self.pool.restart_state') if isinstance(v, ast.Call)]
    ok = bool(temps) and all(sb.callee(v) == 'restart_state' and len(v.args) == 2 and
                             ast.unparse(v.args[0]).replace(' ', '') in ('10*pool._processes', 'pool._processes*10') and
                             ast.unparse(v.args[1]) == '1' for v in temps)
    ctx.ob('R11.4', 'Supervisor.body:burst-budget', ok, sb, temps[0] if temps else None,
           'restart_state(10 * pool._processes, 1)')
    # one burst limiter for the whole start-up phase: a limiter rebuilt per tick forgets what it counted
    tn = [dn for (dn, t, v) in q.assigns(sb, 'self.pool.restart_state') if isinstance(v, ast.Call)]
    loops_ = [n for n in sb.cfg.where(lambda n: n.kind in ('for', 'loop'))]
    in_loop = [dn for dn in tn if any(q.inside(sb, dn, lp.stmt.body) for lp in loops_)]
    ctx.ob('R11.4', 'Supervisor.body:one-burst-limiter-for-all-ticks', bool(tn) and not in_loop, sb,
           in_loop[0] if in_loop else (tn[0] if tn else None),
           'the burst limiter is installed once, before the ticks' if not in_loop else
           'the burst limiter is re-created inside the tick loop: its count and window start afresh every 0.1 s and '
           'the start-up limit of ten restarts per slot per second is never reached')
    fors = [n for n in sb.cfg.where(lambda n: n.kind == 'for')]
    ok = bool(fors) and ast.unparse(fors[0].stmt.iter) == 'range(10)' and \
        bool([n for (n, c) in q.calls(sb, 'self.pool._maintain_pool') if q.inside(sb, n, fors[0].stmt.body)])
    ctx.ob('R11.4', 'Supervisor.body:ten-burst-ticks', ok, sb, fors[0] if fors else None,
           'for _ in range(10): pool._maintain_pool()')
    pi = m.func('pool:Pool.__init__')
    cons = [c for (n, c) in q.calls(pi, 'restart_state')]
    ok = bool(cons) and all(len(c.args) == 2 and 'max_restarts' in ast.unparse(c.args[0]) and
                            'max_restart_freq' in ast.unparse(c.args[1]) for c in cons)
    ctx.ob('R11.4', 'Pool.__init__:limiter-from-configuration', ok, pi, cons[0] if cons else None,
           'restart_state(max_restarts, max_restart_freq or 1)')



def r11_5(ctx):
    ctx.rule('R11.5', 'every restart is judged with the clock at the moment it is decided: the pool calls the limiter\'s '
                      'step() without a time of its own (a time taken at the start of a supervision pass is stale by the '
                      'time the third replacement of that pass is started)', floor=1)
    m = ctx.model
    n_ = 0
    for qn, fi in sorted(m.funcs.items()):
        if fi.module.name != 'pool':
            continue
        for (n, c) in q.calls(fi, lambda t: t.endswith('restart_state.step')):
            n_ += 1
            ok = not c.args and not c.keywords
            ctx.ob('R11.5', '%s:step-reads-the-clock-itself' % fi.qual.split(':')[1], ok, fi, c,
                   'restart_state.step()' if ok else
                   '`%s`: the limiter is given a time that was read earlier' % ast.unparse(c)[:50])
    q.need(n_ >= 1, 'nobody consults the limiter')


def run(ctx):
    from .sweep import r11_6 as _r11_6
    _r11_6(ctx)
    from .sweep import r11_7 as _r11_7
    _r11_7(ctx)
    r11_5(ctx)
    # the refill gets the statuses of the workers the same pass reaped (borrowed from C09)
    from .c09 import r09_3 as _r09_3
    from ..report import Only as _Only11b
    _r09_3(_Only11b(ctx, ('refill-gets-reaper-result',), floor=1, doc='_maintain_pool hands the reaper\'s result to the refill'))
    # the limiter is fed the statuses the reaper recorded, all of them and as they are (borrowed from C10)
    from .c10 import r10_4 as _r10_4
    from ..report import Only as _Only11
    _r10_4(_Only11(ctx, ('reaper:returns-every-recorded-status',), floor=1, doc='the reaper returns the exit status of every worker it reaped, unaltered'))
    r11_1(ctx)
    r11_2(ctx)
    r11_3(ctx)
    r11_4(ctx)


_P = 'billiard/pool.py'
_C = 'billiard/common.py'
MUTANTS = [
    ('refused-restart-swallowed', 'billiard/pool.py', "            pool.close()\n            pool.join()\n            raise\n        debug('worker handler exiting')\n", "            pool.close()\n            pool.join()\n        debug('worker handler exiting')\n", 'R11.6'),
    ('limiter-given-the-pass-start-time', 'billiard/pool.py', "                    self.restart_state.step()\n", "                    self.restart_state.step(getattr(self, '_pass_started', None))\n", 'R11.5'),
    ('burst-limiter-rebuilt-every-tick', _P, "            pool.restart_state = restart_state(10 * pool._processes, 1)\n            for _ in range(10):\n                if self._state == RUN and pool._state == RUN:\n",
     "            for _ in range(10):\n                if self._state == RUN and pool._state == RUN:\n                    pool.restart_state = restart_state(10 * pool._processes, 1)\n", 'R11.4'),
    ('burst-limiter-installed-at-once', _P, "        debug('worker handler starting')\n\n        time.sleep(0.8)\n\n        pool = self.pool\n",
     "        debug('worker handler starting')\n\n        pool = self.pool\n", 'R11.3'),
    ('grace-sleep-after-the-swap', _P, "        time.sleep(0.8)\n\n        pool = self.pool\n\n        try:\n            # do a burst at startup to verify that we can start\n            # our pool processes, and in that time we lower\n            # the max restart frequency.\n            prev_state = pool.restart_state\n            pool.restart_state = restart_state(10 * pool._processes, 1)\n",
     "        pool = self.pool\n\n        try:\n            prev_state = pool.restart_state\n            pool.restart_state = restart_state(10 * pool._processes, 1)\n            time.sleep(0.8)\n", 'R11.3'),
    ('recycle-consumes-budget', _P, "                if exitcodes and exitcodes[i] not in (EX_OK, EX_RECYCLE):\n                    self.restart_state.step()",
     "                if exitcodes and exitcodes[i] not in (EX_OK,):\n                    self.restart_state.step()", 'R11.1'),
    ('limiter-after-fork', _P, "            try:\n                if exitcodes and exitcodes[i] not in (EX_OK, EX_RECYCLE):\n                    self.restart_state.step()\n            except IndexError:\n                self.restart_state.step()\n            self._create_worker_process(self._avail_index())\n",
     "            self._create_worker_process(self._avail_index())\n            try:\n                if exitcodes and exitcodes[i] not in (EX_OK, EX_RECYCLE):\n                    self.restart_state.step()\n            except IndexError:\n                self.restart_state.step()\n", 'R11.1'),
    ('refusal-swallowed', _P, "            except IndexError:\n                self.restart_state.step()\n            self._create_worker_process",
     "            except Exception:\n                pass\n            self._create_worker_process", 'R11.1'),
    ('unknown-exit-free', _P, "            except IndexError:\n                self.restart_state.step()\n            self._create_worker_process",
     "            except IndexError:\n                pass\n            self._create_worker_process", 'R11.1'),
    ('raise-at-gt', _C, "        elif self.maxR and self.R >= self.maxR:", "        elif self.maxR and self.R > self.maxR:", 'R11.2'),
    ('raise-also-when-expired', _C, "        if self.T and now - self.T >= self.maxT:\n            # maxT passed, reset counter and time passed.\n            self.T, self.R = now, 0\n        elif self.maxR and self.R >= self.maxR:",
     "        if self.T and now - self.T >= self.maxT:\n            # maxT passed, reset counter and time passed.\n            self.T, self.R = now, 0\n        if self.maxR and self.R >= self.maxR:", 'R11.2'),
    ('window-not-restarted', _C, "            self.T, self.R = now, 0\n", "            self.R = 0\n", 'R11.2'),
    ('count-not-restarted', _C, "            self.T, self.R = now, 0\n", "            self.T = now\n", 'R11.2'),
    ('expiry-inverted', _C, "        if self.T and now - self.T >= self.maxT:", "        if self.T and now - self.T <= self.maxT:", 'R11.2'),
    ('no-count', _C, "        if self.T is None:\n            self.T = now\n        self.R += 1", "        if self.T is None:\n            self.T = now\n            self.R += 1", 'R11.2'),
    ('refusal-keeps-count', _C, "                self.R = 0  # reset in case someone catches the error\n", "", 'R11.2'),
    ('ack-reset-dropped', _P, "        def on_ack(job, i, time_accepted, pid, synqW_fd):\n            restart_state.R = 0\n", "        def on_ack(job, i, time_accepted, pid, synqW_fd):\n", 'R11.3'),
    ('ack-reset-only-if-cached', _P, "            restart_state.R = 0\n            try:\n                cache[job]._ack(i, time_accepted, pid, synqW_fd)",
     "            try:\n                cache[job]._ack(i, time_accepted, pid, synqW_fd)\n                restart_state.R = 0", 'R11.3'),
    ('burst-limiter-kept', _P, "            pool.restart_state = prev_state\n            while self._state == RUN", "            while self._state == RUN", 'R11.3'),
    ('burst-budget-per-pool', _P, "pool.restart_state = restart_state(10 * pool._processes, 1)", "pool.restart_state = restart_state(10, 1)", 'R11.4'),
    ('burst-one-tick', _P, "            for _ in range(10):\n                if self._state == RUN and pool._state == RUN:", "            for _ in range(1):\n                if self._state == RUN and pool._state == RUN:", 'R11.4'),
]
TWINS = [
    ('longer-grace-sleep', _P, "        debug('worker handler starting')\n\n        time.sleep(0.8)\n", "        debug('worker handler starting')\n\n        time.sleep(1.0)\n"),
    ('extra-sleep-after-the-swap', _P, "            pool.restart_state = restart_state(10 * pool._processes, 1)\n",
     "            pool.restart_state = restart_state(10 * pool._processes, 1)\n            time.sleep(0.1)\n"),
    ('expiry-gt', _C, "        if self.T and now - self.T >= self.maxT:", "        if self.T and now - self.T > self.maxT:"),
    ('raise-flipped', _C, "        elif self.maxR and self.R >= self.maxR:", "        elif self.maxR and self.maxR <= self.R:"),
    ('window-restart-two-stmts', _C, "            self.T, self.R = now, 0\n", "            self.T = now\n            self.R = 0\n"),
]
