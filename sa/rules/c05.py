"""C05 — hard time limit: job fails, its worker is really gone, pool stays usable."""
import ast

from ..model import walk_own, dotted
from .. import q
from .entryiface import r04_1, r05_1
from .timelimits import Scan, r05_2, r05_3, r05_5, r05_6
from .shared import r08_1


def _scanner_side(fi):
    return fi.qual.startswith('pool:TimeoutHandler.')


def r05_4(ctx):
    ctx.rule('R05.4', 'on_hard_timeout fails the job with TimeLimitExceeded before signalling, signals the process '
                      'that owns the job; _trywaitkill escalates to SIGKILL unless the worker exited after TERM',
             floor=6)
    m = ctx.model
    fi = m.func('pool:TimeoutHandler.on_hard_timeout')
    cfg = fi.cfg
    job = fi.positional_params()[1]
    sets = [(n, c) for (n, c) in q.calls(fi, job + '._set')]
    kills = [(n, c) for (n, c) in q.calls(fi, 'self._trywaitkill')]
    q.need(sets, 'on_hard_timeout does not fail the job')
    q.need(kills, 'on_hard_timeout does not call _trywaitkill')
    for (n, c) in sets:
        ok = len(c.args) == 2 and isinstance(c.args[1], ast.Tuple) and \
            isinstance(c.args[1].elts[0], ast.Constant) and c.args[1].elts[0].value is False
        ctx.ob('R05.4', 'on_hard_timeout:fails-the-job', ok, fi, c, ast.unparse(c))
        h = [hh for (tr, part, hh) in q.enclosing_trys(fi, c) if part == 'handler']
        ok = bool(h) and ast.unparse(h[0].type) == 'TimeLimitExceeded'
        raised = [r for r in walk_own(fi.node) if isinstance(r, ast.Raise) and r.exc is not None]
        ok = ok and any(isinstance(r.exc, ast.Call) and fi.callee(r.exc) == 'TimeLimitExceeded' and
                        r.exc.args and ast.unparse(r.exc.args[0]) == job + '._timeout' for r in raised)
        ctx.ob('R05.4', 'on_hard_timeout:failure-is-TimeLimitExceeded(limit)', ok, fi, c,
               'the failure recorded is a TimeLimitExceeded carrying the job\'s limit')
    # "a job that finishes inside its limit is never timed out": whether the job is finished is asked when the action
    # is taken, not when the pass began -- the pass can be held up for seconds by an earlier job (slow timeout
    # callback, the 0.1 s wait after TERM), and the worker recorded on the finished job may run another job by then
    acts = [n for (n, c) in kills] + [n for (n, c) in q.calls(fi, job + '.handle_timeout')]
    ok = all(q.has_guard(fi, n, job + '.ready()', False) for n in acts)
    ctx.ob('R05.4', 'on_hard_timeout:not-for-a-job-that-finished-meanwhile', ok, fi, acts[0] if acts else None,
           'kill and callback are under `not job.ready()`, tested in the handler itself' if ok else
           'the handler acts on a job without asking whether it has finished since the pass took its snapshot: the '
           'worker recorded on it -- by now running somebody else\'s job -- is terminated')
    for (kn, kc) in kills:
        ok, w = cfg.dominated_by(kn, [n for (n, c) in sets], completed=True)
        ctx.ob('R05.4', 'on_hard_timeout:fail-before-kill', ok, fi, kn,
               'the job is failed before its worker is signalled', path=w)
        arg = kc.args[0] if kc.args else None
        ok = False
        detail = ''
        if isinstance(arg, ast.Name):
            for st in walk_own(fi.node):
                if isinstance(st, ast.Assign) and isinstance(st.value, ast.Call) and \
                        fi.callee(st.value) == 'self._process_by_pid' and \
                        arg.id in [x.id for x in ast.walk(st.targets[0]) if isinstance(x, ast.Name)]:
                    ok = ast.unparse(st.value.args[0]) == job + '._worker_pid'
                    detail = '%s from _process_by_pid(%s)' % (arg.id, ast.unparse(st.value.args[0]))
        ctx.ob('R05.4', 'on_hard_timeout:kills-the-jobs-own-worker', ok, fi, kc, detail)
    pb = m.func('pool:TimeoutHandler._process_by_pid')
    ok = any(isinstance(x, ast.Compare) and isinstance(x.ops[0], ast.Eq) and
             {ast.unparse(x.left).split('.')[-1], ast.unparse(x.comparators[0]).split('.')[-1]} == {'pid', pb.positional_params()[1]}
             for x in ast.walk(pb.node))
    ctx.ob('R05.4', '_process_by_pid:matches-on-pid', ok, pb, None, 'selects the process whose pid equals the argument')
    tk = m.func('pool:TimeoutHandler._trywaitkill')
    c2 = tk.cfg
    worker = tk.positional_params()[1]
    term = [n for (n, c) in q.calls(tk, (worker + '.terminate', 'os.killpg', '_kill', 'os.kill'))
            if 'SIGKILL' not in ast.unparse(c) and ('SIGTERM' in ast.unparse(c) or 'TERM_SIGNAL' in ast.unparse(c)
                                                    or tk.callee(c) == worker + '.terminate')]
    kill9 = [n for (n, c) in q.calls(tk, ('os.killpg', '_kill', 'os.kill')) if 'SIGKILL' in ast.unparse(c)]
    q.need(term, '_trywaitkill sends no TERM')
    q.need(kill9, '_trywaitkill sends no KILL')
    def resolved(e):
        return q.expand(tk, e)
    # every OS call that fails for a process that is already gone must be inside try/except OSError:
    # an exception escaping here kills the scanner thread and, through PoolThread.run, the host
    for (n, c) in q.calls(tk, ('os.getpgid', 'os.killpg', '_kill', 'os.kill', worker + '.terminate')):
        ok = q.protected_by(tk, c, ['OSError', 'ProcessLookupError']) is not None
        ctx.ob('R05.4', '_trywaitkill:%s-tolerates-vanished-process' % tk.callee(c).split('.')[-1], ok, tk, c,
               '`%s` is inside try/except OSError' % ast.unparse(c)[:50] if ok else
               '`%s` can raise ProcessLookupError for a worker that already exited; nothing catches it, the '
               'scanner thread dies and takes the host with it' % ast.unparse(c)[:50])
    for (n, c) in q.calls(tk, ('os.killpg', '_kill', 'os.kill')):
        tgt = resolved(c.args[0])
        ok = tgt in (worker + '.pid', 'os.getpgid(%s.pid)' % worker)
        ctx.ob('R05.4', '_trywaitkill:signals-the-given-worker', ok, tk, c, 'signal target = %s' % tgt)
        if 'getpgid' in tgt:
            want = {'os.getpgid(%s.pid)' % worker, worker + '.pid'}
            ok = False
            for (te, pol, tn) in c2.guards(n):
                if pol and isinstance(te, ast.Compare) and len(te.ops) == 1 and isinstance(te.ops[0], ast.Eq):
                    if {q.expand(tk, te.left), q.expand(tk, te.comparators[0])} == want:
                        ok = True
            ctx.ob('R05.4', '_trywaitkill:group-kill-only-for-group-leader', ok, tk, c,
                   'killpg only when the worker leads its own process group')
    exited = q.outcome_edges(tk, lambda t: t.startswith(worker + '._popen.wait('), True)
    ctx.ob('R05.4', '_trywaitkill:waits-after-TERM', bool(exited), tk, None, 'worker._popen.wait(timeout=...) is tested')
    r = c2.reach([c2.entry.id], block_nodes={n.id for n in kill9}, block_edges=exited, skip_labels=('x',))
    ok = c2.exit.id not in r
    w = None if ok else c2.path([c2.entry.id], [c2.exit.id], block_nodes={n.id for n in kill9},
                                block_edges=exited, skip_labels=('x',))
    ctx.ob('R05.4', '_trywaitkill:KILL-unless-exited-after-TERM', ok, tk, None,
           'every normal path that does not see the worker exit reaches a SIGKILL send', path=w)
    # TERM failing (OSError) must still escalate
    term_trys = [tr for tr in walk_own(tk.node) if isinstance(tr, ast.Try)
                 and any(q.inside(tk, t, tr.body) for t in term)]
    hn = [n for tr in term_trys for h in tr.handlers for n in c2.of(h) if n.kind == 'except']
    ok, w = c2.must_pass(hn, [c2.exit], kill9, skip_labels=('x',)) if hn else (True, None)
    ctx.ob('R05.4', '_trywaitkill:TERM-failure-still-escalates', ok, tk, None,
           'when sending TERM raises (handled) the KILL phase is still entered', path=w)
    ok, w = c2.must_pass([c2.entry], kill9, term, skip_labels=('x',))
    ctx.ob('R05.4', '_trywaitkill:TERM-before-KILL', ok, tk, None, 'the termination signal is tried first', path=w)


def helpers_hold_live_objects(ctx, rule, only=('TimeoutHandler', 'ResultHandler', 'TaskHandler'), floor=4):
    """The helper threads are handed the pool's mutable objects (worker list, job cache, counters) and must keep
    *those objects* -- not copies: the supervisor mutates them in place, a snapshot goes stale after the first
    replacement."""
    ctx.rule(rule, '%s keep the pool\'s live worker list / cache / counters (no defensive copies)' % ', '.join(only),
             floor=floor)
    m = ctx.model
    pool = m.cls('pool:Pool')
    live = {'self._pool': 'worker list', 'self._cache': 'job cache', 'self._on_ready_counters': 'per-worker counters'}
    n = 0
    for name, fi in sorted(pool.methods.items()):
        for c in [x for x in walk_own(fi.node) if isinstance(x, ast.Call)]:
            cal = fi.callee(c)
            if not (cal.startswith('self.') and cal.count('.') == 1):
                continue
            v = m.class_attr(pool, cal.split('.')[1])
            target = m.resolve_class(dotted(v), fi.module) if v is not None and dotted(v) else None
            if target is None or not any(o.split('.')[0] == target.name for o in only):
                continue
            wanted = {o.split('.')[1] for o in only if '.' in o and o.split('.')[0] == target.name}
            init = m.method(target, '__init__')
            if init is None:
                continue
            P = init.positional_params()[1:]
            bound = {}
            for i, a in enumerate(c.args):
                if i < len(P) and ast.unparse(a) in live:
                    bound[P[i]] = ast.unparse(a)
            for k in c.keywords:
                if k.arg and ast.unparse(k.value) in live:
                    bound[k.arg] = ast.unparse(k.value)
            for p, what in sorted(bound.items()):
                if wanted and {'self._pool': 'workers', 'self._cache': 'cache',
                               'self._on_ready_counters': 'counters'}[what] not in wanted:
                    continue
                n += 1
                stores = [(dn, t, v2) for (dn, t, v2) in q.assigns(init, lambda t: t.startswith('self.'))
                          if v2 is not None and any(isinstance(x, ast.Name) and x.id == p for x in ast.walk(v2))]
                ok = bool(stores) and all(isinstance(v2, ast.Name) and v2.id == p for (dn, t, v2) in stores)
                ctx.ob(rule, '%s.__init__:keeps-%s-by-reference' % (target.name, p), ok, init,
                       stores[0][0] if stores else None,
                       'self.<attr> = %s (the pool\'s %s itself)' % (p, live[what]) if ok else
                       '%s stores a copy of the pool\'s %s: after the first worker replacement it looks at a '
                       'stale snapshot' % (target.name, live[what]))
    q.need(n >= floor, 'constructor sites of the helper threads not found')


def r05_7(ctx, rule='R05.7'):
    ctx.rule(rule, 'the time-limit scanner keeps running after close(): only the finalizer stops (or waits for) it',
             floor=1)
    m = ctx.model
    bad = []
    n = 0
    for qn, fi in sorted(m.funcs.items()):
        if fi.module.name != 'pool' or fi.qual == 'pool:Pool._terminate_pool':
            continue
        for c in [x for x in walk_own(fi.node) if isinstance(x, ast.Call)]:
            cal = fi.callee(c)
            if cal in ('self._timeout_handler.close', 'self._timeout_handler.terminate', 'self._timeout_handler.stop',
                       'self._timeout_handler.join'):
                bad.append((fi, c))
            # ... or handed to a helper that stops / joins a thread (stop_if_not_current(thread, timeout))
            elif cal.split('.')[-1] in ('stop_if_not_current', '_stop_task_handler') and \
                    any(fi.canon(a) == 'self._timeout_handler' for a in c.args):
                bad.append((fi, c))
    tp = m.func('pool:Pool._terminate_pool')
    stops = q.calls(tp, ('timeout_handler.terminate', 'timeout_handler.stop'))
    ctx.ob(rule, 'scanner-stopped-only-by-the-finalizer', not bad and len(stops) >= 2, bad[0][0] if bad else tp,
           bad[0][1] if bad else None,
           'no method but _terminate_pool changes the scanner\'s state' if not bad else
           '%s stops / waits for the scanner, which runs until terminate(): a job accepted before close() whose limit '
           'expires afterwards is never timed out, and a join() that waits for the scanner never returns'
           % bad[0][0].qual)



def r05_10(ctx):
    ctx.rule('R05.10', 'one scan pass looks at every job of its snapshot: the scanner gives control back (yield) only '
                       'between passes, never inside the per-job loop, and nothing leaves that loop early', floor=1)
    m = ctx.model
    fi = m.func('pool:TimeoutHandler.handle_timeouts')
    loops = [n for n in walk_own(fi.node) if isinstance(n, ast.For) and any(
        isinstance(c, ast.Call) and fi.callee(c) in ('self.on_hard_timeout', 'self.on_soft_timeout') for c in ast.walk(n))]
    q.need(loops, 'handle_timeouts: per-job loop not found')
    for lp in loops:
        inner = [x for x in ast.walk(lp) if isinstance(x, (ast.Yield, ast.YieldFrom, ast.Return))]
        brk = [x for st in lp.body for x in ast.walk(st) if isinstance(x, ast.Break)
               and not any(isinstance(y, (ast.For, ast.While)) and any(z is x for z in ast.walk(y)) for y in ast.walk(st))]
        bad = inner + brk
        ctx.ob('R05.10', 'scan:pass-is-not-interrupted', not bad, fi, bad[0] if bad else lp,
               'the per-job loop has no yield, return or break' if not bad else
               '`%s` inside the per-job loop: the caller sleeps a scan period after every yield, so the k-th expired job '
               'of one pass is handled k-1 periods late (or not in this pass at all)' % ast.unparse(bad[0])[:40])


def r05_11(ctx):
    ctx.rule('R05.11', 'the limits recorded for a job are the caller\'s, else the pool\'s defaults -- never derived from '
                       'one another', floor=2)
    m = ctx.model
    fi = m.func('pool:Pool.apply_async')
    for name in ('timeout', 'soft_timeout'):
        defs = [(dn, v) for (dn, t, v) in q.assigns(fi, name) if v is not None]
        odd = [(dn, v) for (dn, v) in defs
               if ast.unparse(v).replace(' ', '') != '%sorself.%s' % (name, name) and
               not (name == 'soft_timeout' and ast.unparse(v) == 'None')]
        ctx.ob('R05.11', 'apply_async:%s-is-own-or-default' % name, bool(defs) and not odd, fi,
               odd[0][0] if odd else (defs[0][0] if defs else None),
               '%s = %s or self.%s is its only definition' % (name, name, name) if not odd else
               '`%s = %s`: the job is recorded with a limit that is neither the caller\'s nor the pool default' % (
                   name, ast.unparse(odd[0][1])[:60]))


def run(ctx):
    from .sweep import r05_13 as _r05_13, r05_14 as _r05_14
    _r05_13(ctx)
    _r05_14(ctx)
    from .sweep import r05_15 as _r05_15
    _r05_15(ctx)
    from .sweep import r01_17 as _r01_17c
    from ..report import Only as _OnlyS5
    _r01_17c(_OnlyS5(ctx, ('on_hard_timeout:',), floor=1, doc='the hard-limit failure is a record of a live TimeLimitExceeded'), 'R05.12')
    # a worker told to exit by the hard limit takes no further job (borrowed from C08)
    from .c08 import r08_11 as _r08_11
    from ..report import Only as _Only5
    _r08_11(_Only5(ctx, ('exit-flag-looked-at-before-the-next-job',), floor=1, doc='the worker looks at the exit-requested flag before it takes another job'))
    r05_10(ctx)
    r05_11(ctx)
    helpers_hold_live_objects(ctx, 'R05.8', only=('TimeoutHandler', 'ResultHandler.cache'), floor=3)
    from .timelimits import scan_period
    scan_period(ctx, 'R05.9')
    r05_7(ctx)
    r04_1(ctx, site=_scanner_side, floor=5)
    r05_1(ctx)
    r05_2(ctx, 'hard', 'R05.2')
    r05_3(ctx, 'R05.3')
    r05_4(ctx)
    r05_5(ctx, 'R05.5')
    r05_6(ctx, 'R05.6')
    r08_1(ctx)
    # replacement of the killed worker: the supervision tick restarts the missing number
    from .c09 import r09_1, r09_3
    r09_3(ctx)
    r09_1(ctx, state_recheck=False)
    # ... and, with put-locks, the slot of the job whose worker was killed comes back with the reaped worker (the job
    # itself was resolved by the scanner and has left the cache by then): otherwise apply_async blocks for good
    from .c10 import r10_4
    from ..report import Except
    r10_4(Except(ctx, ('reaper-called-outside-the-tick',)))


_P = 'billiard/pool.py'
MUTANTS = [
    ('own-limit-does-not-start-the-scanner', 'billiard/pool.py', '            if timeout or soft_timeout:\n                # start the timeout handler thread when required.\n                self._start_timeout_handler()\n', '', 'R05.15'),
    ('scan-yields-after-each-kill', _P, "                    on_hard_timeout(job)\n                elif i not in dirty", "                    on_hard_timeout(job)\n                    yield\n                elif i not in dirty", 'R05.10'),
    ('hard-limit-pushed-behind-soft', _P, "        timeout = timeout or self.timeout\n", "        timeout = timeout or self.timeout\n        if soft_timeout and timeout and soft_timeout >= timeout:\n            timeout = soft_timeout + 1.0\n", 'R05.11'),
    ('scanner-snapshots-the-worker-list', _P, "        self.processes = processes\n", "        self.processes = list(processes)\n", 'R05.8'),
    ('scanner-copies-the-cache', _P, "        self.processes = processes\n        self.cache = cache\n", "        self.processes = processes\n        self.cache = dict(cache)\n", 'R05.8'),
    ('close-stops-the-scanner', _P, "            self._worker_handler.close()\n            self._taskqueue.put(None)\n",
     "            self._worker_handler.close()\n            if self._timeout_handler is not None:\n                self._timeout_handler.close()\n            self._taskqueue.put(None)\n", 'R05.7'),
    ('job-limit-ignored', _P, "                hard_timeout = job._timeout\n                if hard_timeout is None:\n                    hard_timeout = t_hard\n",
     "                hard_timeout = t_hard\n", 'R05.2'),
    ('pool-default-wins', _P, "                hard_timeout = job._timeout\n                if hard_timeout is None:\n                    hard_timeout = t_hard\n",
     "                hard_timeout = t_hard\n                if hard_timeout is None:\n                    hard_timeout = job._timeout\n", 'R05.2'),
    ('hard-uses-soft-limit', _P, "                if _timed_out(ack_time, hard_timeout):", "                if _timed_out(ack_time, soft_timeout):", 'R05.2'),
    ('apply-default-first', _P, "        timeout = timeout or self.timeout\n", "        timeout = self.timeout or timeout\n", 'R05.2'),
    ('apply-args-swapped', _P, "                error_callback, soft_timeout, timeout, lost_worker_timeout,", "                error_callback, timeout, soft_timeout, lost_worker_timeout,", 'R05.2'),
    ('scanner-defaults-swapped', _P, "                self.soft_timeout, self.timeout,\n            )", "                self.timeout, self.soft_timeout,\n            )", 'R05.2'),
    ('clock-from-now', _P, "                ack_time = job._time_accepted\n", "                ack_time = monotonic()\n", 'R05.2'),
    ('timed-out-without-limit', _P, "            if not start or not timeout:\n                return False\n", "            if not start:\n                return False\n", 'R05.3'),
    ('timed-out-early', _P, "            if monotonic() >= start + timeout:", "            if monotonic() + timeout >= start:", 'R05.3'),
    ('timed-out-inverted', _P, "            if monotonic() >= start + timeout:", "            if monotonic() <= start + timeout:", 'R05.3'),
    ('kill-before-fail', _P, "        # Remove from _pool\n        process, _index = self._process_by_pid(job._worker_pid)\n\n        # Run timeout callback\n        job.handle_timeout(soft=False)\n\n        if process:\n            self._trywaitkill(process)\n",
     "", 'R05.4'),
    ('fail-with-wrong-exc', _P, "            raise TimeLimitExceeded(job._timeout)\n        except TimeLimitExceeded:", "            raise TimeoutError(job._timeout)\n        except TimeoutError:", 'R05.4'),
    ('no-kill-escalation', _P, "        else:\n            if worker._popen.wait(timeout=0.1):\n                return\n", "        else:\n            worker._popen.wait(timeout=0.1)\n            return\n", 'R05.4'),
    ('kill-only-group', _P, "            else:\n                _kill(worker.pid, SIGKILL)\n", "            else:\n                pass\n", 'R05.4'),
    ('kills-first-process', _P, "        process, _index = self._process_by_pid(job._worker_pid)\n\n        # Run timeout callback\n        job.handle_timeout(soft=False)",
     "        process, _index = self._process_by_pid(self.processes[0].pid)\n\n        # Run timeout callback\n        job.handle_timeout(soft=False)", 'R05.4'),
    ('soft-also-when-hard', _P, "                elif i not in dirty and _timed_out(ack_time, soft_timeout):", "                if i not in dirty and _timed_out(ack_time, soft_timeout):", 'R05.5'),
    ('soft-before-hard', _P, "                if _timed_out(ack_time, hard_timeout):\n                    on_hard_timeout(job)\n                elif i not in dirty and _timed_out(ack_time, soft_timeout):\n                    on_soft_timeout(job)\n                    dirty.add(i)",
     "                if i not in dirty and _timed_out(ack_time, soft_timeout):\n                    on_soft_timeout(job)\n                    dirty.add(i)\n                elif _timed_out(ack_time, hard_timeout):\n                    on_hard_timeout(job)", 'R05.5'),
    ('swallow-systemexit', _P, "                        if (isinstance(exc, SystemExit) and\n                                _should_have_exited[0]):\n", "                        if False:\n", 'R08.1'),
]
TWINS = [
    ('limit-chain-ifexp-free', _P, "                hard_timeout = job._timeout\n                if hard_timeout is None:\n                    hard_timeout = t_hard\n",
     "                hard_timeout = job._timeout\n                if hard_timeout is None:\n                    hard_timeout = self.t_hard\n"),
    ('timed-out-gt', _P, "            if monotonic() >= start + timeout:", "            if monotonic() > start + timeout:"),
    ('timed-out-flipped', _P, "            if monotonic() >= start + timeout:", "            if start + timeout <= monotonic():"),
]
