"""C15 — shared ctypes values are isolated, initialised, visible and atomic."""
import ast

from ..model import walk_own, dotted
from .. import q
from .reduce import r12_1


def _is_memset_whole(fi, c, obj):
    """ctypes.memset(ctypes.addressof(obj), 0, ctypes.sizeof(obj))"""
    a = [ast.unparse(x).replace(' ', '') for x in c.args]
    return a == ['ctypes.addressof(%s)' % obj, '0', 'ctypes.sizeof(%s)' % obj]


def r15_1(ctx):
    ctx.rule('R15.1', 'allocate, zero the whole object, then initialise: RawValue and the size form of RawArray memset '
                      'sizeof(obj) bytes before use; the initialiser form sizes the array by len(initialiser) and '
                      'passes every element', floor=6)
    m = ctx.model
    rv = m.func('sharedctypes:RawValue')
    cfg = rv.cfg
    news = [(n, c) for (n, c) in q.calls(rv, '_new_value')]
    q.need(news, 'RawValue does not call _new_value')
    obj = ast.unparse(news[0][0].ast.targets[0]) if isinstance(news[0][0].ast, ast.Assign) else '<unnamed>'
    ms = [(n, c) for (n, c) in q.calls(rv, 'ctypes.memset')]
    ok = bool(ms) and all(_is_memset_whole(rv, c, obj) for (n, c) in ms)
    ctx.ob('R15.1', 'RawValue:zero-fills-sizeof(obj)', ok, rv, ms[0][1] if ms else None,
           'ctypes.memset(addressof(obj), 0, sizeof(obj))')
    inits = [(n, c) for (n, c) in q.calls(rv, obj + '.__init__')]
    va = rv.node.args.vararg.arg if rv.node.args.vararg else None
    ok = bool(inits) and all(len(c.args) == 1 and isinstance(c.args[0], ast.Starred) and
                             ast.unparse(c.args[0].value) == va for (n, c) in inits)
    ctx.ob('R15.1', 'RawValue:initialised-with-all-args', ok, rv, inits[0][1] if inits else None, 'obj.__init__(*args)')
    if ms and inits:
        o1, w = cfg.must_pass([cfg.entry], [n for (n, c) in ms], [n for (n, c) in news], completed=True)
        o2, w2 = cfg.must_pass([cfg.entry], [n for (n, c) in inits], [n for (n, c) in ms], completed=True)
        ctx.ob('R15.1', 'RawValue:allocate-zero-init-in-order', o1 and o2, rv, None, '_new_value < memset < __init__', path=w or w2)
    rets = [n for n in cfg.where(lambda n: isinstance(n.ast, ast.Return))]
    ok = bool(rets) and bool(ms) and all(ast.unparse(r.ast.value) == obj and cfg.dominated_by(r, [n for (n, c) in ms])[0]
                                         for r in rets)
    ctx.ob('R15.1', 'RawValue:returned-only-zeroed', ok, rv, None, 'every return is behind the memset')
    ra = m.func('sharedctypes:RawArray')
    cfg = ra.cfg
    P = ra.positional_params()[1]
    is_int = q.outcome_edges(ra, 'isinstance(%s, int)' % P, True)
    is_seq = q.outcome_edges(ra, 'isinstance(%s, int)' % P, False)
    q.need(is_int and is_seq, 'RawArray does not distinguish size from initialiser')
    news = [(n, c) for (n, c) in q.calls(ra, '_new_value')]
    for (n, c) in news:
        # the fresh object normally gets a name; when it is returned as it comes there is no name and no memset
        var = ast.unparse(n.ast.targets[0]) if isinstance(n.ast, ast.Assign) else '<unnamed>'
        if q.has_guard(ra, n, 'isinstance(%s, int)' % P, True):
            ms = [(mn, mc) for (mn, mc) in q.calls(ra, 'ctypes.memset') if q.has_guard(ra, mn, 'isinstance(%s, int)' % P, True)]
            ok = bool(ms) and all(_is_memset_whole(ra, mc, var) for (mn, mc) in ms)
            ctx.ob('R15.1', 'RawArray(size):zero-fills-sizeof(obj)', ok, ra, ms[0][1] if ms else n,
                   'memset(addressof(obj), 0, sizeof(obj)) -- bytes, not elements')
            rets = [r for r in cfg.where(lambda r: isinstance(r.ast, ast.Return)) if q.has_guard(ra, r, 'isinstance(%s, int)' % P, True)]
            ok = bool(rets) and bool(ms) and all(
                ast.unparse(r.ast.value) == var and cfg.must_pass([n], [r], [mn for (mn, mc) in ms], skip_labels=('x',))[0]
                for r in rets)
            ctx.ob('R15.1', 'RawArray(size):returned-only-zeroed', ok, ra, None, 'return behind the memset')
            tdefs = [v for (dn, t, v) in q.assigns(ra, 'type_') if q.has_guard(ra, dn, 'isinstance(%s, int)' % P, True)]
            ok = ([ast.unparse(v).replace(' ', '') for v in tdefs] == ['type_*%s' % P] and ast.unparse(c.args[0]) == 'type_') or \
                (not tdefs and ast.unparse(c.args[0]).replace(' ', '') == 'type_*%s' % P)
            ctx.ob('R15.1', 'RawArray(size):element-count-is-size', ok, ra, None, 'type_ = type_ * size')
        else:
            tdefs = [v for (dn, t, v) in q.assigns(ra, 'type_') if q.has_guard(ra, dn, 'isinstance(%s, int)' % P, False)]
            ok = ([ast.unparse(v).replace(' ', '') for v in tdefs] == ['type_*len(%s)' % P] and ast.unparse(c.args[0]) == 'type_') or \
                (not tdefs and ast.unparse(c.args[0]).replace(' ', '') == 'type_*len(%s)' % P)
            ctx.ob('R15.1', 'RawArray(init):element-count-is-len(initialiser)', ok, ra, None, 'type_ = type_ * len(initialiser)')
            inits = [(x, cc) for (x, cc) in q.calls(ra, var + '.__init__')]
            ok = bool(inits) and all(len(cc.args) == 1 and isinstance(cc.args[0], ast.Starred) and
                                     ast.unparse(cc.args[0].value) == P for (x, cc) in inits)
            ctx.ob('R15.1', 'RawArray(init):every-element-initialised', ok, ra, inits[0][1] if inits else None,
                   'result.__init__(*initialiser)')
    tc = m.modules['sharedctypes'].assigns.get('typecode_to_type')
    want = {'c': 'c_char', 'u': 'c_wchar', 'b': 'c_byte', 'B': 'c_ubyte', 'h': 'c_short', 'H': 'c_ushort',
            'i': 'c_int', 'I': 'c_uint', 'l': 'c_long', 'L': 'c_ulong', 'f': 'c_float', 'd': 'c_double'}
    got = {k.value: ast.unparse(v).split('.')[-1] for k, v in zip(tc.keys, tc.values)} if isinstance(tc, ast.Dict) else {}
    bad = {k: v for k, v in got.items() if k in want and want[k] != v}
    ctx.ob('R15.1', 'typecode-table', not bad and set(want) <= set(got), None, tc,
           'type codes map to the ctypes type of the same name' if not bad else 'wrong entries: %s' % bad,
           line=getattr(tc, 'lineno', 0))


def r15_2(ctx):
    ctx.rule('R15.2', 'every shared object gets its own fresh block of sizeof(type) bytes; the block is returned to the '
                      'heap exactly when the wrapper dies', floor=5)
    m = ctx.model
    nv = m.func('sharedctypes:_new_value')
    T = nv.positional_params()[0]
    sz = [(dn, v) for (dn, t, v) in q.assigns(nv, None) if isinstance(v, ast.Call) and nv.callee(v) == 'ctypes.sizeof']
    bw = [(n, c) for (n, c) in q.calls(nv, 'heap.BufferWrapper')]
    ok = bool(sz) and ast.unparse(sz[0][1].args[0]) == T and bool(bw) and \
        ast.unparse(bw[0][1].args[0]) == ast.unparse(sz[0][0].ast.targets[0])
    if not sz and bw and bw[0][1].args:
        # the size written where it is used: heap.BufferWrapper(ctypes.sizeof(type_))
        a0 = bw[0][1].args[0]
        ok = isinstance(a0, ast.Call) and nv.callee(a0) == 'ctypes.sizeof' and ast.unparse(a0.args[0]) == T
    ctx.ob('R15.2', '_new_value:fresh-wrapper-of-sizeof(type)', ok, nv, bw[0][1] if bw else None,
           'wrapper = heap.BufferWrapper(ctypes.sizeof(type_))')
    rb = [(n, c) for (n, c) in q.calls(nv, 'rebuild_ctype')]
    wv = ast.unparse(bw[0][0].ast.targets[0]) if bw and isinstance(bw[0][0].ast, ast.Assign) else '?'
    ok = bool(rb) and [ast.unparse(a) for a in rb[0][1].args] == [T, wv, 'None']
    if bool(rb) and bw and not isinstance(bw[0][0].ast, ast.Assign) and len(rb[0][1].args) == 3:
        # the wrapper written where it is used
        ok = rb[0][1].args[1] is bw[0][1] and ast.unparse(rb[0][1].args[0]) == T and ast.unparse(rb[0][1].args[2]) == 'None'
    ctx.ob('R15.2', '_new_value:object-built-over-that-wrapper', ok, nv, rb[0][1] if rb else None, 'rebuild_ctype(type_, wrapper, None)')
    rc = m.func('sharedctypes:rebuild_ctype')
    P = rc.positional_params()
    frm = [(dn, v) for (dn, t, v) in q.assigns(rc, 'obj') if v is not None]
    ok = any('from_buffer' in ast.unparse(v) or 'from_address' in ast.unparse(v) for dn, v in frm) and \
        any(ast.unparse(t) == 'obj._wrapper' and ast.unparse(v) == P[1] for (dn, t, v) in q.assigns(rc, 'obj._wrapper'))
    ctx.ob('R15.2', 'rebuild_ctype:view-over-wrapper-and-keeps-it-alive', ok, rc, None,
           'obj = type_.from_buffer(wrapper.create_memoryview()); obj._wrapper = wrapper')
    lens = [v for (dn, t, v) in q.assigns(rc, P[0]) if v is not None]
    ok = [ast.unparse(v).replace(' ', '') for v in lens] == ['%s*%s' % (P[0], P[2])] and \
        all(q.has_guard(rc, dn, P[2] + ' is None', False) for (dn, t, v) in q.assigns(rc, P[0]))
    ctx.ob('R15.2', 'rebuild_ctype:array-length-applied', ok, rc, None, 'type_ = type_ * length when a length travels')
    cp = m.func('sharedctypes:copy')
    ok = bool(q.calls(cp, '_new_value')) and 'type(%s)' % cp.positional_params()[0] in ast.unparse(cp.node)
    ctx.ob('R15.2', 'copy:allocates-its-own-storage', ok, cp, None, 'new_obj = _new_value(type(obj))')
    bi = m.func('heap:BufferWrapper.__init__')
    S = bi.positional_params()[1]
    mal = [(n, c) for (n, c) in q.calls(bi, lambda s: s.endswith('_heap.malloc'))]
    fin = [(n, c) for (n, c) in q.calls(bi, 'util.Finalize')]
    ok = bool(mal) and ast.unparse(mal[0][1].args[0]) == S and bool(fin)
    if ok:
        b = ast.unparse(mal[0][0].ast.targets[0])
        fc = fin[0][1]
        args = {k.arg: ast.unparse(k.value).replace(' ', '') for k in fc.keywords}
        ok = ast.unparse(fc.args[0]) == 'self' and ast.unparse(fc.args[1]).endswith('_heap.free') and \
            args.get('args') == '(%s,)' % b
        st = [ast.unparse(v).replace(' ', '') for (dn, t, v) in q.assigns(bi, 'self._state')]
        ok = ok and st == ['(%s,%s)' % (b, S)]
    ctx.ob('R15.2', 'BufferWrapper:frees-exactly-its-block', ok, bi, None,
           'block = heap.malloc(size); Finalize(self, heap.free, args=(block,)); state = (block, size)')
    mv = m.func('heap:BufferWrapper.create_memoryview')
    rets = [ast.unparse(r.value).replace(' ', '') for r in walk_own(mv.node) if isinstance(r, ast.Return)]
    ok = rets == ['memoryview(arena.buffer)[start:start+size]']
    ctx.ob('R15.2', 'BufferWrapper:view-is-exactly-the-block', ok, mv, None, 'memoryview(arena.buffer)[start:start + size]')


def r15_3(ctx):
    ctx.rule('R15.3', 'every accessor of a synchronized wrapper touches the shared object only while holding the '
                      'wrapper\'s lock, released on every exit (generated property accessors included)', floor=6)
    m = ctx.model
    base = m.cls('sharedctypes:SynchronizedBase')
    exempt = {'__len__': 'length of a ctypes array is immutable', 'get_obj': 'hands out the raw object by design',
              '__repr__': 'diagnostic', '__init__': 'construction', '__reduce__': 'pickling travels with the lock'}
    for ci in m.subclasses(base):
        for name, fi in sorted(ci.methods.items()):
            uses = [n for n in walk_own(fi.node) if isinstance(n, ast.Attribute) and n.attr == '_obj'
                    and isinstance(n.value, ast.Name) and n.value.id == 'self']
            if not uses or name in exempt:
                continue
            locked = True
            for u in uses:
                inw = False
                for st in walk_own(fi.node):
                    if isinstance(st, ast.With) and any(ast.unparse(it.context_expr) in ('self', 'self._lock') for it in st.items) \
                            and any(x is u for b in st.body for x in ast.walk(b)):
                        inw = True
                locked = locked and inw
            ctx.ob('R15.3', '%s.%s:under-lock' % (ci.name, name), locked, fi, uses[0],
                   'self._obj is used only inside `with self:`')
    en = base.methods.get('__enter__')
    ex = base.methods.get('__exit__')
    ok = en is not None and ex is not None and 'self._lock.__enter__()' in ast.unparse(en.node) and \
        'self._lock.__exit__(' in ast.unparse(ex.node)
    ctx.ob('R15.3', 'SynchronizedBase:with-self-is-the-lock', ok, base, None, '__enter__/__exit__ delegate to self._lock')
    init = base.methods['__init__']
    vals = {ast.unparse(t): ast.unparse(v) for (dn, t, v) in q.assigns(init, None) if v is not None}
    ok = vals.get('self.acquire') == 'self._lock.acquire' and vals.get('self.release') == 'self._lock.release'
    ctx.ob('R15.3', 'SynchronizedBase:acquire-release-are-the-locks', ok, init, None, 'self.acquire/self.release bound to self._lock')
    # the generated accessors: parse the template after substitution
    tpl = m.modules['sharedctypes'].assigns.get('template')
    ok = isinstance(tpl, ast.Constant) and isinstance(tpl.value, str)
    n_acc = 0
    if ok:
        src = tpl.value % (('field',) * tpl.value.count('%s'))
        tree = ast.parse(src)
        for fn in [x for x in tree.body if isinstance(x, ast.FunctionDef)]:
            n_acc += 1
            body = fn.body
            good = len(body) == 2 and isinstance(body[0], ast.Expr) and ast.unparse(body[0]) == 'self.acquire()' and \
                isinstance(body[1], ast.Try) and len(body[1].finalbody) == 1 and \
                ast.unparse(body[1].finalbody[0]) == 'self.release()' and not body[1].handlers and \
                all('self._obj.field' in ast.unparse(s) for s in body[1].body)
            ctx.ob('R15.3', 'template:%s' % fn.name, good, None, tpl,
                   'self.acquire(); try: <access self._obj.field> finally: self.release()',
                   line=getattr(tpl, 'lineno', 0))
    ctx.ob('R15.3', 'template:parsed', ok and n_acc == 2, None, tpl, 'getter and setter generated from the template',
           line=getattr(tpl, 'lineno', 0))
    mp = m.func('sharedctypes:make_property')
    ok = 'template % ((name,) * 7' in ast.unparse(mp.node).replace(' ,', ',') or 'template % ((name,) * 7,' in ast.unparse(mp.node) \
        or 'template%((name,)*7)' in ast.unparse(mp.node).replace(' ', '')
    ctx.ob('R15.3', 'make_property:uses-the-template', ok, mp, None, 'exec(template % ((name,) * 7), d)')


def r15_4(ctx):
    ctx.rule('R15.4', 'the object travels to a child as (type, wrapper, length) and only while spawning; the wrapper '
                      'travels as its heap block over the same arena; the lock travels with the synchronized object',
             floor=3)
    m = ctx.model
    rc = m.func('sharedctypes:reduce_ctype')
    asp = q.nodes_calling(rc, 'assert_spawning')
    rets = [n for n in rc.cfg.where(lambda n: isinstance(n.ast, ast.Return))]
    ok = bool(asp) and all(rc.cfg.dominated_by(r, asp, completed=True)[0] for r in rets)
    ctx.ob('R15.4', 'reduce_ctype:only-while-spawning', ok, rc, None, 'assert_spawning(obj) first')
    o = rc.positional_params()[0]
    cases = []
    for r in rets:
        v = r.ast.value
        # return rebuild_ctype, (A if isinstance(obj, ctypes.Array) else B)  is the two returns in one
        if isinstance(v, ast.Tuple) and len(v.elts) == 2 and isinstance(v.elts[1], ast.IfExp) and \
                ast.unparse(v.elts[1].test).replace(' ', '') == 'isinstance(%s,ctypes.Array)' % o:
            cases.append((r, '%s,%s' % (ast.unparse(v.elts[0]), ast.unparse(v.elts[1].body).replace(' ', '')), True))
            cases.append((r, '%s,%s' % (ast.unparse(v.elts[0]), ast.unparse(v.elts[1].orelse).replace(' ', '')), False))
        else:
            cases.append((r, ast.unparse(v).replace(' ', ''), q.has_guard(rc, r, 'isinstance(%s, ctypes.Array)' % o, True)))
    for (r, txt, is_array) in cases:
        if is_array:
            ok = txt == 'rebuild_ctype,(%s._type_,%s._wrapper,%s._length_)' % (o, o, o) or \
                txt == '(rebuild_ctype,(%s._type_,%s._wrapper,%s._length_))' % (o, o, o)
            ctx.ob('R15.4', 'reduce_ctype:array-travels-as-element-type-wrapper-length', ok, rc, r, txt)
        else:
            ok = txt.strip('()').startswith('rebuild_ctype,(type(%s),%s._wrapper,None' % (o, o))
            ctx.ob('R15.4', 'reduce_ctype:scalar-travels-as-type-wrapper', ok, rc, r, txt)
    sb = m.func('sharedctypes:SynchronizedBase.__reduce__')
    asp = q.nodes_calling(sb, 'assert_spawning')
    rets = [n for n in sb.cfg.where(lambda n: isinstance(n.ast, ast.Return))]
    ok = bool(asp) and all(sb.cfg.dominated_by(r, asp, completed=True)[0] for r in rets) and \
        all(ast.unparse(r.ast.value).replace(' ', '').strip('()') == 'synchronized,(self._obj,self._lock' for r in rets)
    ctx.ob('R15.4', 'SynchronizedBase.__reduce__:object-and-lock-travel-together', ok, sb, None,
           'synchronized, (self._obj, self._lock) under assert_spawning')
    r12_1(ctx, rule='R15.4', modules=('sharedctypes', 'heap'), floor=3)
    # sibling agreement: every wrapper built by synchronized() gets the caller's object, lock and context
    sy = m.func('sharedctypes:synchronized')
    P = sy.positional_params()
    wrappers = [c for (n, c) in q.calls(sy, None)
                if sy.callee(c) in ('Synchronized', 'SynchronizedArray', 'SynchronizedString', 'scls')]
    q.need(len(wrappers) >= 4, 'synchronized() builds %d wrappers' % len(wrappers))
    for c in wrappers:
        args = [ast.unparse(a) for a in c.args] + ['%s=%s' % (k.arg, ast.unparse(k.value)) for k in c.keywords]
        # object first; lock and context by position or under their names (`scls` is a class chosen at run time: its
        # signature is the wrappers' common one, (obj, lock=None, ctx=None))
        kw = {k.arg: ast.unparse(k.value) for k in c.keywords}
        pos = [ast.unparse(a) for a in c.args]
        got = (pos + [None, None, None])[:3]
        got[1] = got[1] if got[1] is not None else kw.get('lock')
        got[2] = got[2] if got[2] is not None else kw.get('ctx')
        ok = got == [P[0], P[1], P[2]]
        ctx.ob('R15.4', 'synchronized:%s-gets-object-lock-context' % sy.callee(c), ok, sy, c,
               '%s(%s): the lock handed in (or travelling with a pickled wrapper) must be the one the wrapper uses, '
               'for every element type alike' % (sy.callee(c), ', '.join(args)))
    # a rebuilt object must be picklable by reference again (second hop): the reducer is registered on rebuild
    rb = m.func('sharedctypes:rebuild_ctype')
    reg = [(n, c) for (n, c) in q.calls(rb, 'ForkingPickler.register')]
    ok = bool(reg) and all([ast.unparse(a) for a in c.args] == [rb.positional_params()[0], 'reduce_ctype'] for (n, c) in reg)
    if ok:
        rets = [n for n in rb.cfg.where(lambda n: isinstance(n.ast, ast.Return))]
        ok = all(rb.cfg.dominated_by(r, [n for (n, c) in reg], completed=True)[0] for r in rets)
        tdefs = [dn for (dn, t, v) in q.assigns(rb, rb.positional_params()[0])]
        ok = ok and all(d.id not in rb.cfg.reach([n.id for (n, c) in reg], skip_labels=('x',)) for d in tdefs)
    ctx.ob('R15.4', 'rebuild_ctype:registers-by-reference-pickling-for-the-final-type', ok, rb, reg[0][1] if reg else None,
           'ForkingPickler.register(type_, reduce_ctype) in rebuild_ctype (after the length was applied): an object '
           'received from another process pickles by reference again instead of as a private copy')


def r15_5(ctx):
    ctx.rule('R15.5', 'a forked child starts with an empty heap: the first malloc in another process re-runs the whole '
                      'constructor (new arenas, empty free lists) -- inherited arenas are shared memory, inherited free '
                      'lists are private copies, so allocating from them hands the same bytes to two processes',
             floor=3)
    m = ctx.model
    ci = m.cls('heap:Heap')
    ml = ci.methods['malloc']
    cfg = ml.cfg
    other = q.outcome_edges(ml, q.eq_text('os.getpid()', 'self._lastpid'), False)
    q.need(other, 'Heap.malloc does not compare os.getpid() with self._lastpid')
    reinit = q.nodes_calling(ml, 'self.__init__')
    allocs = q.nodes_calling(ml, 'self._malloc')
    q.need(allocs, 'Heap.malloc does not call self._malloc')
    r = cfg.reach([b for (a, b, l) in other], block_nodes={n.id for n in reinit}, include_src=True, skip_labels=('x',))
    ok = bool(reinit) and not any(a.id in r for a in allocs)
    ctx.ob('R15.5', 'malloc:other-process-reinitialises-before-allocating', ok, ml, allocs[0],
           'under os.getpid() != self._lastpid: self.__init__() before self._malloc()' if ok else
           'in a forked child malloc allocates from the inherited free lists: parent and child are handed the same '
           'block of a shared arena for unrelated objects')
    init = ci.methods['__init__']
    from .generic import _self_assigned
    fresh = _self_assigned(init)
    need = {'_lastpid', '_lock', '_lengths', '_len_to_seq', '_start_to_block', '_stop_to_block', '_allocated_blocks',
            '_arenas', '_pending_free_blocks'}
    state = set()
    for name, fi in ci.methods.items():
        state |= _self_assigned(fi)
        for n in walk_own(fi.node):
            if isinstance(n, ast.Attribute) and isinstance(n.value, ast.Name) and n.value.id == 'self' and \
                    n.attr.startswith('_') and not isinstance(getattr(ci.methods.get(n.attr), 'node', None), ast.FunctionDef):
                state.add(n.attr)
    state = {s for s in state if s not in ci.methods and s not in ci.attrs}
    missing = sorted(state - fresh)
    ctx.ob('R15.5', 'Heap.__init__:creates-all-of-the-heap-state', not missing and need <= fresh, init, None,
           'every instance attribute the heap uses (%d) is created by __init__' % len(state) if not missing else
           'not re-created by the constructor: %s' % missing)
    ok = any(ast.unparse(v) == 'os.getpid()' for (dn, t, v) in q.assigns(init, 'self._lastpid') if v is not None)
    ctx.ob('R15.5', 'Heap.__init__:records-the-owning-process', ok, init, None, 'self._lastpid = os.getpid()')



def r15_8(ctx):
    ctx.rule('R15.8', 'an array made from an initialiser gets its values through the type\'s own constructor '
                      '(result.__init__(*items): every item converted to the element type) on every path -- no byte-wise '
                      'shortcut that reinterprets items of another type', floor=1)
    m = ctx.model
    ra = m.func('sharedctypes:RawArray')
    cfg = ra.cfg
    P = ra.positional_params()[1]
    news = [(n, c) for (n, c) in q.calls(ra, '_new_value') if q.has_guard(ra, n, 'isinstance(%s, int)' % P, False)]
    q.need(news and isinstance(news[0][0].ast, ast.Assign), 'RawArray: initialiser branch not found')
    var = ast.unparse(news[0][0].ast.targets[0])
    inits = [n for (n, c) in q.calls(ra, var + '.__init__')
             if len(c.args) == 1 and isinstance(c.args[0], ast.Starred) and ast.unparse(c.args[0].value) == P]
    rets = [r for r in cfg.where(lambda r: isinstance(r.ast, ast.Return)) if q.has_guard(ra, r, 'isinstance(%s, int)' % P, False)]
    ok, w = cfg.must_pass([news[0][0]], rets, inits, skip_labels=('x',)) if inits and rets else (False, None)
    ctx.ob('R15.8', 'RawArray(initialiser):filled-by-the-constructor-on-every-path', ok, ra, inits[0] if inits else news[0][0],
           '%s.__init__(*%s) between allocation and return' % (var, P), path=w)



def r15_9(ctx):
    ctx.rule('R15.9', 'element access of a synchronized array hands out what the raw array hands out (for compound '
                      'elements: a live view into the shared block), nothing is copied on the way: writes through the '
                      'element reach the shared memory', floor=1)
    m = ctx.model
    ci = m.cls('sharedctypes:SynchronizedArray')
    for name in ('__getitem__', '__getslice__'):
        fi = ci.methods.get(name)
        if fi is None:
            continue
        rets = [r for r in walk_own(fi.node) if isinstance(r, ast.Return)]
        ok = bool(rets) and all(isinstance(r.value, ast.Subscript) and fi.canon(r.value.value) == 'self._obj' for r in rets)
        ctx.ob('R15.9', 'SynchronizedArray.%s:returns-the-element-itself' % name, ok, fi, rets[0] if rets else None,
               'return self._obj[...]' if ok else
               '`%s`: the caller gets something made from the element, not the element' % (ast.unparse(rets[0])[:60] if rets else '?'))


def run(ctx):
    r15_9(ctx)
    r15_8(ctx)
    r15_5(ctx)
    # "atomic" read-modify-write under get_lock() across processes needs a lock that a forked child does not
    # believe it already owns
    from .c17 import semlock_forgets_ownership_in_a_forked_child
    semlock_forgets_ownership_in_a_forked_child(ctx, 'R15.6')
    # the generated wrapper class / property is cached under what it was generated from
    from .generic import memo_key_covers_inputs
    memo_key_covers_inputs(ctx, 'R15.7', ['sharedctypes'], floor=2)
    r15_1(ctx)
    r15_2(ctx)
    r15_3(ctx)
    r15_4(ctx)
    # isolation rests on the heap handing out disjoint blocks: the heap's own rules
    from .c14 import r14_4, r14_5
    r14_4(ctx)
    r14_5(ctx)


_S = 'billiard/sharedctypes.py'
_H = 'billiard/heap.py'
MUTANTS = [
    ('array-elements-handed-out-as-copies', 'billiard/sharedctypes.py', "    def __getitem__(self, i):\n        with self:\n            return self._obj[i]\n", "    def __getitem__(self, i):\n        with self:\n            item = self._obj[i]\n            return type(item).from_buffer_copy(item) if isinstance(item, ctypes.Structure) else item\n", 'R15.9'),
    ('initialiser-copied-bytewise', 'billiard/sharedctypes.py', "        result.__init__(*size_or_initializer)\n        return result\n",
     "        if isinstance(size_or_initializer, (bytes, bytearray)):\n            ctypes.memmove(ctypes.addressof(result), bytes(size_or_initializer), len(size_or_initializer))\n        else:\n            result.__init__(*size_or_initializer)\n        return result\n", 'R15.8'),
    ('child-keeps-the-inherited-free-lists', _H, "            self.__init__()                     # reinitialize after fork\n",
     "            self._lastpid = os.getpid()\n            self._lock = threading.Lock()\n            self._allocated_blocks = set()\n", 'R15.5'),
    ('after-fork-hook-only-for-named-semaphores', 'billiard/synchronize.py',
     "            if sys.platform != 'win32':\n                def _after_fork(obj):\n                    obj._semlock._after_fork()\n                util.register_after_fork(self, _after_fork)\n\n            if _semname(self._semlock) is not None:\n",
     "            if _semname(self._semlock) is not None:\n                def _after_fork(obj):\n                    obj._semlock._after_fork()\n                util.register_after_fork(self, _after_fork)\n", 'R15.6'),
    ('rawvalue-no-zero', _S, "    obj = _new_value(type_)\n    ctypes.memset(ctypes.addressof(obj), 0, ctypes.sizeof(obj))\n    obj.__init__(*args)", "    obj = _new_value(type_)\n    obj.__init__(*args)", 'R15.1'),
    ('rawvalue-init-before-zero', _S, "    ctypes.memset(ctypes.addressof(obj), 0, ctypes.sizeof(obj))\n    obj.__init__(*args)\n    return obj", "    obj.__init__(*args)\n    ctypes.memset(ctypes.addressof(obj), 0, ctypes.sizeof(obj))\n    return obj", 'R15.1'),
    ('rawarray-memset-element-count', _S, "        obj = _new_value(type_)\n        ctypes.memset(ctypes.addressof(obj), 0, ctypes.sizeof(obj))\n        return obj", "        obj = _new_value(type_)\n        ctypes.memset(ctypes.addressof(obj), 0, size_or_initializer)\n        return obj", 'R15.1'),
    ('rawarray-init-short', _S, "        result.__init__(*size_or_initializer)", "        result.__init__(*size_or_initializer[:-1])", 'R15.1'),
    ('rawarray-len-minus-one', _S, "        type_ = type_ * len(size_or_initializer)", "        type_ = type_ * (len(size_or_initializer) - 1)", 'R15.1'),
    ('typecode-l-is-int', _S, "    'l': ctypes.c_long, 'L': ctypes.c_ulong,", "    'l': ctypes.c_int, 'L': ctypes.c_ulong,", 'R15.1'),
    ('wrapper-too-small', _S, "    size = ctypes.sizeof(type_)\n    wrapper = heap.BufferWrapper(size)", "    size = ctypes.sizeof(type_)\n    wrapper = heap.BufferWrapper(size // 2)", 'R15.2'),
    ('wrapper-not-kept', _S, "    obj._wrapper = wrapper\n    return obj", "    return obj", 'R15.2'),
    ('copy-shares-storage', _S, "    new_obj = _new_value(type(obj))\n    ctypes.pointer(new_obj)[0] = obj\n    return new_obj", "    new_obj = rebuild_ctype(type(obj), obj._wrapper, None)\n    return new_obj", 'R15.2'),
    ('finalizer-frees-other', _H, "        util.Finalize(self, BufferWrapper._heap.free, args=(block,))", "        util.Finalize(self, BufferWrapper._heap.free, args=(self._state,))", 'R15.2'),
    ('view-off-by-size', _H, "        return memoryview(arena.buffer)[start:start + size]", "        return memoryview(arena.buffer)[start:stop + size]", 'R15.2'),
    ('getitem-unlocked', _S, "    def __getitem__(self, i):\n        with self:\n            return self._obj[i]", "    def __getitem__(self, i):\n        return self._obj[i]", 'R15.3'),
    ('setslice-unlocked', _S, "    def __setslice__(self, start, stop, values):\n        with self:\n            self._obj[start:stop] = values", "    def __setslice__(self, start, stop, values):\n        self._obj[start:stop] = values", 'R15.3'),
    ('template-release-not-finally', _S, "def set%s(self, value):\n    self.acquire()\n    try:\n        self._obj.%s = value\n    finally:\n        self.release()", "def set%s(self, value):\n    self.acquire()\n    self._obj.%s = value\n    self.release()", 'R15.3'),
    ('template-getter-unlocked', _S, "def get%s(self):\n    self.acquire()\n    try:\n        return self._obj.%s\n    finally:\n        self.release()", "def get%s(self):\n    try:\n        return self._obj.%s\n    finally:\n        pass", 'R15.3'),
    ('reduce-without-lock', _S, "        return synchronized, (self._obj, self._lock)", "        return synchronized, (self._obj,)", 'R15.4'),
    ('array-length-lost', _S, "        return rebuild_ctype, (obj._type_, obj._wrapper, obj._length_)", "        return rebuild_ctype, (obj._type_, obj._wrapper, None)", 'R15.4'),
    ('block-keeps-whole-extent', _H, "            block = (arena, start, new_stop)", "            block = (arena, start, stop)", 'R14.4'),
]
TWINS = [
    ('rawvalue-local-size', _S, "    obj = _new_value(type_)\n    ctypes.memset(ctypes.addressof(obj), 0, ctypes.sizeof(obj))\n    obj.__init__(*args)", "    obj = _new_value(type_)\n    ctypes.memset(ctypes.addressof(obj), 0, ctypes.sizeof(obj))  # whole object\n    obj.__init__(*args)"),
    ('getitem-lock-direct', _S, "    def __getitem__(self, i):\n        with self:\n            return self._obj[i]", "    def __getitem__(self, i):\n        with self._lock:\n            return self._obj[i]"),
]
