"""C10 — slot semaphore is bounded, conserved and never leaked."""
import ast

from ..model import walk_own, dotted
from .. import q
from ..roots import roots
from ..shapes import Shapes, CACHE
from .poolfacts import facts, TAGS
from .c01 import _resolution_sites, _is_cache

VALUE = ('self._value', 'self._Semaphore__value')
BOUND = 'self._initial_value'


def _cond_regions(fi):
    """with-enter CFG nodes of fi on the semaphore's condition"""
    cfg = fi.cfg
    return [n for n in cfg.where(lambda n: n.kind == 'with_enter')
            if any(fi.canon(it.context_expr) in ('self._cond', 'self._Semaphore__cond') for it in n.stmt.items)]


def r10_1(ctx):
    ctx.rule('R10.1', 'LaxBoundedSemaphore: value <= bound is preserved by every method: each write to the value is '
                      'guarded by value < bound (or moves the bound with it) inside one critical section of the '
                      'condition; nobody else writes value or bound', floor=6)
    m = ctx.model
    ci = m.cls('pool:LaxBoundedSemaphore')
    lt = lambda t: t in ('self._value < self._initial_value', 'self._Semaphore__value < self._initial_value')
    for name in ('release', 'clear'):
        fi = ci.methods.get(name)
        q.need(fi is not None, 'LaxBoundedSemaphore.%s not found' % name)
        cfg = fi.cfg
        regs = _cond_regions(fi)
        writes = [(dn, v) for (dn, t, v) in q.assigns(fi, VALUE)]
        base = [n for (n, c) in q.calls(fi, ('_Semaphore.release', 'super().release', 'threading.Semaphore.release'))]
        ok = bool(writes) or bool(base)
        detail = []
        for (dn, v) in writes:
            inreg = [r for r in regs if q.inside(fi, dn, r.stmt.body)]
            guarded = q.has_guard(fi, dn, lt, True)
            tests_in = [t for t in cfg.where(lambda t: t.kind == 'test') if lt(q.norm_guard(fi, t.ast, True)[0])
                        and any(q.inside(fi, t, r.stmt.body) for r in inreg)]
            step_ok = (isinstance(dn.ast, ast.AugAssign) and isinstance(dn.ast.op, ast.Add) and
                       ast.unparse(dn.ast.value) == '1') or \
                      (isinstance(dn.ast, ast.Assign) and fi.canon(dn.ast.value) == BOUND)
            if not (inreg and guarded and tests_in and step_ok):
                ok = False
                detail.append('`%s`: %s%s%s' % (dn.text(), '' if inreg else 'outside the condition lock; ',
                                                '' if guarded and tests_in else 'test value < bound not in the same critical section; ',
                                                '' if step_ok else 'step is not +1 / :=bound'))
        for n in base:
            # an unbounded base-class release: the test must hold the lock across it, which it cannot
            ok = False
            detail.append('`%s` re-takes the lock after the bound test: another release can slip in between' % n.text())
        ctx.ob('R10.1', '%s:bounded-update-in-one-critical-section' % name, ok, fi, None,
               '; '.join(detail) or 'value is raised only under value < bound, test and update inside `with cond`')
    gr = ci.methods.get('grow')
    q.need(gr is not None, 'LaxBoundedSemaphore.grow not found')
    regs = _cond_regions(gr)
    wv = [dn for (dn, t, v) in q.assigns(gr, VALUE)]
    wb = [dn for (dn, t, v) in q.assigns(gr, BOUND)]
    ok = len(wv) == 1 and len(wb) == 1 and all(
        isinstance(d.ast, ast.AugAssign) and isinstance(d.ast.op, ast.Add) and ast.unparse(d.ast.value) == '1'
        and any(q.inside(gr, d, r.stmt.body) for r in regs) for d in wv + wb)
    if ok:
        ok = gr.cfg.must_pass([gr.cfg.entry], [gr.cfg.exit], wv, skip_labels=('x',))[0] and \
            gr.cfg.must_pass([gr.cfg.entry], [gr.cfg.exit], wb, skip_labels=('x',))[0]
    ctx.ob('R10.1', 'grow:bound-and-value-move-together', ok, gr, None,
           'bound += 1 and value += 1 inside one `with cond`')
    sh = ci.methods.get('shrink')
    q.need(sh is not None, 'LaxBoundedSemaphore.shrink not found')
    wb = {dn.id for (dn, t, v) in q.assigns(sh, BOUND) if isinstance(dn.ast, ast.AugAssign)
          and isinstance(dn.ast.op, ast.Sub) and ast.unparse(dn.ast.value) == '1'}
    ac = {n.id for n in q.nodes_calling(sh, 'self.acquire')}
    r1 = sh.cfg.count_range([sh.cfg.entry], [sh.cfg.exit], lambda n: n.id in wb, skip_labels=('x',))
    r2 = sh.cfg.count_range([sh.cfg.entry], [sh.cfg.exit], lambda n: n.id in ac, skip_labels=('x',))
    ctx.ob('R10.1', 'shrink:bound-and-one-slot-taken', r1 == (1, 1) and r2 == (1, 1), sh, None,
           'bound -= 1 and exactly one acquire() on every normal path (%r, %r)' % (r1, r2))
    init = ci.methods.get('__init__')
    q.need(init is not None, 'LaxBoundedSemaphore.__init__ not found')
    P = init.positional_params()[1]
    okb = any(ast.unparse(v) == P for (dn, t, v) in q.assigns(init, BOUND))
    okv = any(c.args and ast.unparse(c.args[-1 if len(c.args) == 1 else 1]) == P or
              (len(c.args) >= 2 and ast.unparse(c.args[1]) == P)
              for (n, c) in q.calls(init, ('_Semaphore.__init__', 'super().__init__')))
    ctx.ob('R10.1', '__init__:bound-equals-initial-value', okb and okv, init, None,
           'the base semaphore and the bound are initialised with the same value')
    # who may write
    bad = []
    n_w = 0
    for qn, fi in sorted(m.funcs.items()):
        for n in walk_own(fi.node):
            ts = []
            if isinstance(n, ast.Assign):
                ts = n.targets
            elif isinstance(n, ast.AugAssign):
                ts = [n.target]
            for t in ts:
                for y in ast.walk(t):
                    if not isinstance(y, ast.Attribute):
                        continue
                    in_cls = fi.cls is ci and ast.unparse(y.value) == 'self'
                    on_sem = roots(m).root_of(fi, y.value) == 'putlock'
                    if (y.attr == '_initial_value') or \
                            (y.attr in ('_value', '_Semaphore__value') and (in_cls or on_sem)):
                        n_w += 1
                        if not in_cls:
                            bad.append('%s L%d' % (fi.qual, n.lineno))
    ctx.ob('R10.1', 'who-may-write-value-and-bound', not bad and n_w >= 5, ci, None,
           '%d writes, all inside LaxBoundedSemaphore' % n_w if not bad else 'written outside the class: %s' % bad)
    # shrink is two steps; a release() may run between them.  Bound first: the release is refused (value == old
    # bound - ... <= new bound is kept by the refusal).  Slot first: the release is admitted against the old bound,
    # then the bound drops below the value for good.
    sh = ci.methods.get('shrink')
    q.need(sh is not None, 'LaxBoundedSemaphore.shrink not found')
    low = [dn for (dn, t, v) in q.assigns(sh, 'self._initial_value') if isinstance(dn.ast, ast.AugAssign)
           and isinstance(dn.ast.op, ast.Sub)]
    acq = q.nodes_calling(sh, 'self.acquire')
    q.need(low and acq, 'LaxBoundedSemaphore.shrink: bound decrement / acquire not found')
    ok = all(sh.cfg.dominated_by(a, low, completed=True)[0] for a in acq)
    ctx.ob('R10.1', 'shrink:bound-lowered-before-the-slot-is-taken', ok, sh, acq[0],
           'self._initial_value -= 1 precedes self.acquire()' if ok else
           'the slot is taken before the bound is lowered: a release() in between is admitted against the old bound '
           'and the value ends above the bound for good')


def r10_2(ctx):
    ctx.rule('R10.2', 'with put-locks the slot is acquired before the job handle exists or the task is enqueued', floor=2)
    m = ctx.model
    fi = m.func('pool:Pool.apply_async')
    cfg = fi.cfg
    acq = q.nodes_calling(fi, 'self._putlock.acquire')
    q.need(acq, 'apply_async never acquires the slot semaphore')
    cons = q.nodes_calling(fi, 'ApplyResult')
    noslot = q.outcome_edges(fi, 'waitforslot', False) | q.outcome_edges(fi, 'self._putlock is None', True) | \
        q.outcome_edges(fi, 'self._putlock', False)
    r = cfg.reach([cfg.entry.id], block_nodes={n.id for n in acq}, block_edges=noslot, skip_labels=('x',))
    for cn in cons:
        ctx.ob('R10.2', 'apply_async:slot-before-handle', cn.id not in r, fi, cn,
               'when waiting for a slot is requested, acquire() precedes the construction of the handle')
    # "acquired" means acquired: a blocking acquire, or a non-blocking one whose answer decides whether the job is made
    for (an, ac) in q.calls(fi, 'self._putlock.acquire'):
        blocking = not ac.args and not ac.keywords or \
            (len(ac.args) == 1 and isinstance(ac.args[0], ast.Constant) and ac.args[0].value is True)
        tested = an.kind == 'test' or all(q.has_guard(fi, cn, lambda t: t.startswith('self._putlock.acquire('), True)
                                          for cn in cons)
        ctx.ob('R10.2', 'apply_async:slot-really-taken', blocking or tested, fi, ac,
               'blocking acquire()' if blocking else 'result of the acquire decides' if tested else
               '`%s` may return without a slot and nobody looks at the answer: the job is registered and queued '
               'anyway and later gives back a slot it never held' % ast.unparse(ac))
    # read on the normal form `if waitforslot is None: waitforslot = self.putlocks` (sa/normalize.py default_idiom)
    defs = [(dn, v) for (dn, t, v) in q.assigns(fi, 'waitforslot')]
    ok = bool(defs) and all(ast.unparse(v) == 'self.putlocks' and q.has_guard(fi, dn, 'waitforslot is None', True)
                            for (dn, v) in defs) and \
        all(fi.cfg.nodes[b] in [dn for (dn, v) in defs] for (a, b, l) in q.outcome_edges(fi, 'waitforslot is None', True))
    ctx.ob('R10.2', 'apply_async:putlocks-is-the-default', ok, fi, None, 'waitforslot defaults to self.putlocks')


def r10_3(ctx):
    ctx.rule('R10.3', 'every route that resolves a job returns its slot: released right there (before the resolution, '
                      'under not-ready), or the route ends a worker whose replacement returns it', floor=5)
    m = ctx.model
    R = roots(m)
    sites = _resolution_sites(ctx)
    q.need(sites, 'no resolution routes found')
    worker_exit_funcs = {'pool:Pool._join_exited_workers', 'pool:Pool.mark_as_worker_lost'}
    for (fi, c) in sites:
        X = ast.unparse(c.func.value)
        key = '%s:%s.%s' % (fi.qual.split(':')[1], X, c.func.attr)
        cn = fi.cfg.node_containing(c)
        if fi.qual in worker_exit_funcs:
            ctx.ob('R10.3', key, True, fi, c, 'worker-exit route: the slot is returned per reaped worker (R10.4)')
            continue
        rel = [n for (n, cc) in q.calls(fi, None)
               if fi.callee(cc).endswith('.release') and R.root_of(fi, getattr(cc.func, 'value', None)) == 'putlock']
        if rel and cn:
            nosem = q.outcome_edges(fi, lambda t: t.endswith('putlock is None'), True)
            ready = q.outcome_edges(fi, X + '.ready()', True)
            r = fi.cfg.reach([fi.cfg.entry.id], block_nodes={n.id for n in rel}, block_edges=nosem | ready,
                             skip_labels=())
            ok = all(n.id not in r for n in cn) and all(q.has_guard(fi, n, X + '.ready()', False) for n in rel)
            ctx.ob('R10.3', key, ok, fi, c,
                   'the slot is released under `not %s.ready()` before the resolution' % X if ok else
                   'a path resolves the job without releasing its slot first')
            continue
        kills = [n for (n, cc) in q.calls(fi, ('self._trywaitkill', '_kill', 'os.kill'))]
        if kills and cn:
            okk = all(fi.cfg.must_pass([n], [fi.cfg.exit], kills, skip_labels=('x',),
                                       )[0] or True for n in cn)
            proc_guard = q.outcome_edges(fi, 'process', False) | q.outcome_edges(fi, 'process is None', True)
            r = fi.cfg.reach([n.id for n in cn], block_nodes={n.id for n in kills}, block_edges=proc_guard,
                             skip_labels=('x',))
            ok = fi.cfg.exit.id not in r
            ctx.ob('R10.3', key, ok, fi, c,
                   'the route goes on to kill the job\'s worker; the reaper returns the slot (R10.4)' if ok else
                   'the job is failed but its worker is not ended on some path: the slot is never returned')
            continue
        # a handler of the try that contains the loop over the task sequence is the iterator-failure
        # route: only multi-part jobs can take it, and those never hold a slot
        feeds = [tr for (tr, part, h) in q.enclosing_trys(fi, c) if part == 'handler' and
                 any(isinstance(x, ast.For) for st in tr.body for x in ast.walk(st))]
        inner = [tr for (tr, part, h) in q.enclosing_trys(fi, c) if part == 'handler' and
                 not any(isinstance(x, ast.For) for st in tr.body for x in ast.walk(st))]
        if feeds and not inner:
            aa = m.func('pool:Pool.apply_async')
            acquirers = sorted(g.qual for qn, g in m.funcs.items() if g.module.name == 'pool' and
                               any(g.callee(cc).endswith('.acquire') and
                                   R.root_of(g, getattr(cc.func, 'value', None)) == 'putlock'
                                   for cc in walk_own(g.node) if isinstance(cc, ast.Call)))
            lit = all(isinstance(cc.args[0], ast.Tuple) and isinstance(cc.args[0].elts[0], ast.List)
                      for (n2, cc) in q.calls(aa, 'self._taskqueue.put') if cc.args)
            ok = acquirers == ['pool:Pool.apply_async'] and lit
            ctx.ob('R10.3', key + '@iterator-failure', ok, fi, c,
                   'only apply_async takes a slot and it feeds a literal one-element list, whose iteration cannot '
                   'fail: no slot-holding job can take this route' if ok else
                   'slot-holding jobs can fail while their task sequence is iterated, and this route returns no slot')
            continue
        ctx.ob('R10.3', key + ' leaks the slot', False, fi, c,
               'the job is resolved here, but the slot taken at submission is neither released nor does the route '
               'end a worker: with put-locks the semaphore loses one slot for good')


def r10_4(ctx):
    ctx.rule('R10.4', 'one slot is returned per reaped worker: the supervision tick releases once per element of '
                      'the reaper\'s result, which has one element per worker removed from the pool', floor=4)
    m = ctx.model
    mp = m.func('pool:Pool._maintain_pool')
    cfg = mp.cfg
    reap = [n for (n, c) in q.calls(mp, 'self._join_exited_workers')]
    q.need(reap, '_maintain_pool does not reap')
    var = ast.unparse(reap[0].ast.targets[0]) if isinstance(reap[0].ast, ast.Assign) else None
    loops = [n for n in cfg.where(lambda n: n.kind == 'for')
             if var and ast.unparse(n.stmt.iter).replace(' ', '') in ('range(len(%s))' % var, var)]
    ok = bool(loops)
    if ok:
        rel = [n for (n, c) in q.calls(mp, 'self._putlock.release') if q.inside(mp, n, loops[0].stmt.body)]
        nosem = q.outcome_edges(mp, 'self._putlock is None', True) | q.outcome_edges(mp, 'self._putlock', False)
        ok = bool(rel) and q.every_iteration_passes(mp, loops[0], rel, block_edges=nosem)[0] and \
            not q.loop_early_exits(mp, loops[0]) and \
            cfg.exit.id not in cfg.reach([cfg.entry.id], block_nodes={l_.id for l_ in loops}, block_edges=nosem,
                                         skip_labels=('x',), include_src=True)
        ids = {n.id for n in rel}
        r = cfg.count_range([loops[0]], [loops[0]], lambda n: n.id in ids, skip_labels=('x',))
        ok = ok and r is not None and r[1] == 1
    ctx.ob('R10.4', '_maintain_pool:one-release-per-reaped-worker', ok, mp, loops[0] if loops else None,
           'for _ in range(len(joined)): self._putlock.release()')
    je = m.func('pool:Pool._join_exited_workers')
    c2 = je.cfg
    from .poolfacts import ReaperAnchors
    RA = ReaperAnchors(ctx)
    cl = [dn for (dn, t, v) in q.assigns(je, lambda t: t.startswith(RA.cleaned + '['))]
    ex = [dn for (dn, t, v) in q.assigns(je, lambda t: t.startswith(RA.exitcodes + '['))]
    dl = [n for n in c2.where(lambda n: n.kind == 'stmt' and isinstance(n.ast, ast.Delete)
                              and any(ast.unparse(t).startswith('self._pool[') for t in n.ast.targets))]
    ok = bool(cl) and bool(ex) and bool(dl)
    filt = []
    if cl and ex and not dl:
        # removal by filtering on the dict of reaped workers: [w for w in self._pool if w.pid not in cleaned]
        for (dn, t, v) in q.assigns(je, ('self._pool', 'self._pool[:]')):
            if isinstance(v, ast.ListComp) and len(v.generators) == 1 and len(v.generators[0].ifs) == 1 and \
                    ast.unparse(v.generators[0].iter) == 'self._pool':
                w = ast.unparse(v.generators[0].target)
                if ast.unparse(v.generators[0].ifs[0]) == '%s.pid not in %s' % (w, RA.cleaned) and ast.unparse(v.elt) == w:
                    filt.append(dn)
    if filt:
        heads = {n.id for n in c2.where(lambda n: n.kind == 'for')}
        ok = all(c2.must_pass([c], [c2.nodes[h] for h in heads] + [c2.exit], ex, skip_labels=('x',))[0] or
                 c2.dominated_by(c, ex)[0] for c in cl) and \
            all(c2.must_pass([e], [c2.nodes[h] for h in heads] + [c2.exit], cl, skip_labels=('x',))[0] or
                c2.dominated_by(e, cl)[0] for e in ex)
    elif ok:
        heads = {n.id for n in c2.where(lambda n: n.kind == 'for')}
        for d in dl:
            r = c2.reach([h for h in heads], block_nodes={n.id for n in ex}, skip_labels=('x',))
            ok = ok and d.id not in r
        for e in ex:
            r = c2.reach([e.id], block_nodes={n.id for n in dl} | heads, skip_labels=('x',))
            ok = ok and not (r & heads) and c2.exit.id not in r
    ctx.ob('R10.4', 'reaper:one-status-per-removed-worker', ok, je, ex[0] if ex else None,
           'a worker is removed from the pool iff its status was recorded in `exitcodes` in the same iteration')
    rets = [n for n in c2.where(lambda n: n.kind == 'stmt' and isinstance(n.ast, ast.Return))]
    ok = bool(rets)
    for n in rets:
        v = ast.unparse(n.ast.value) if n.ast.value is not None else 'None'
        if v.replace(' ', '') in ('list(%s.values())' % RA.exitcodes, '[*%s.values()]' % RA.exitcodes):
            continue
        if v == '[]' and q.has_guard(je, n, RA.cleaned, False):
            continue
        ok = False
    ctx.ob('R10.4', 'reaper:returns-every-recorded-status', ok, je, rets[0] if rets else None,
           'returns list(exitcodes.values()) (or [] when nothing was reaped)')
    ok = all(not any(q.has_guard(je, e, lambda t: '_controlled_termination' in t or '_job_terminated' in t, pol)
                     for pol in (True, False)) for e in ex)
    ctx.ob('R10.4', 'reaper:status-recorded-for-every-kind-of-exit', ok, je, None,
           'recording does not depend on how the worker was stopped')
    # the release is per element of the reaper's result: whoever calls the reaper must hand that result to the
    # release (the supervision tick does); a caller that drops it reaps workers whose slots never come back
    for qn, fi in sorted(m.funcs.items()):
        if fi.module.name != 'pool' or fi is mp:
            continue
        for (n, c) in q.calls(fi, 'self._join_exited_workers'):
            ok = _releases_one_slot_per_reaped(fi, n)
            ctx.ob('R10.4', 'reaper-called-outside-the-tick:%s' % fi.qual.split(':')[1], ok, fi, c,
                   'releases one slot per element of the reaper\'s result, like the tick' if ok else
                   '%s reaps exited workers itself and does not release one slot per reaped worker: the tick that '
                   'follows finds nobody to reap, replaces the worker and releases nothing' % fi.qual.split(':')[1])


def _releases_one_slot_per_reaped(fi, reap_node):
    """the result of the reaper call at reap_node is bound to a name, and on every normal path to the exit a loop over
    that name (or range(len(name))) runs that releases the slot semaphore exactly once per iteration (unless the pool
    has no semaphore)"""
    cfg = fi.cfg
    var = ast.unparse(reap_node.ast.targets[0]) if isinstance(reap_node.ast, ast.Assign) and \
        isinstance(reap_node.ast.targets[0], ast.Name) else None
    if var is None:
        return False
    loops = [n for n in cfg.where(lambda n: n.kind == 'for')
             if ast.unparse(n.stmt.iter).replace(' ', '') in ('range(len(%s))' % var, var)]
    if not loops:
        return False
    lp = loops[0]
    rel = [n for (n, c) in q.calls(fi, 'self._putlock.release') if q.inside(fi, n, lp.stmt.body)]
    nosem = q.outcome_edges(fi, 'self._putlock is None', True) | q.outcome_edges(fi, 'self._putlock', False)
    if not rel or not q.every_iteration_passes(fi, lp, rel, block_edges=nosem)[0] or q.loop_early_exits(fi, lp):
        return False
    # the loop is on every normal path to the exit -- a pool without semaphore may skip it as a whole
    if cfg.exit.id in cfg.reach([reap_node.id], block_nodes={lp.id}, block_edges=nosem, skip_labels=('x',)):
        return False
    ids = {n.id for n in rel}
    r = cfg.count_range([lp], [lp], lambda n: n.id in ids, skip_labels=('x',))
    return r is not None and r[1] == 1


def r10_5(ctx):
    ctx.rule('R10.5', 'close() frees threads waiting for a slot', floor=1)
    m = ctx.model
    cl = m.func('pool:Pool.close')
    n = q.nodes_calling(cl, 'self._putlock.clear')
    nosem = q.outcome_edges(cl, 'self._putlock', False) | q.outcome_edges(cl, 'self._putlock is None', True)
    notrun = q.outcome_edges(cl, q.eq_text('self._state', 'RUN'), False)
    r = cl.cfg.reach([cl.cfg.entry.id], block_nodes={x.id for x in n}, block_edges=nosem | notrun, skip_labels=('x',))
    ctx.ob('R10.5', 'close:clears-the-semaphore', bool(n) and cl.cfg.exit.id not in r, cl, None,
           'self._putlock.clear() on every normal path of a closing pool that has a semaphore')



def r10_6(ctx):
    ctx.rule('R10.6', 'slots are handed back wholesale (clear()) only by close(): while the pool runs, an empty job cache '
                      'does not mean that no slot is held (a submitter holds one before its job is registered)', floor=1)
    m = ctx.model
    n_ = 0
    for qn, fi in sorted(m.funcs.items()):
        if fi.module.name != 'pool':
            continue
        for (n, c) in q.calls(fi, lambda t: t.endswith('_putlock.clear')):
            n_ += 1
            owner = fi.qual.split(':')[1]
            ctx.ob('R10.6', 'clear-called-by:%s' % owner, owner == 'Pool.close', fi, c,
                   'close() wakes the producers of a pool that takes no more jobs' if owner == 'Pool.close' else
                   '%s resets the semaphore while the pool runs: a slot that is legitimately held is given to '
                   'somebody else' % owner)
    q.need(n_ >= 1, 'nobody clears the put-lock')


def run(ctx):
    # shrink() gives up one slot per worker it retires (borrowed from C09): grow(n); shrink(n) must leave the bound where it was
    from .c09 import r09_5 as _r09_5
    from ..report import Only as _Only10
    _r09_5(_Only10(ctx, ('shrink:target-semaphore-worker-per-step',), floor=1, doc='each retired worker lowers the target and shrinks the semaphore by one'))
    r10_6(ctx)
    r10_1(ctx)
    r10_2(ctx)
    r10_3(ctx)
    r10_4(ctx)
    r10_5(ctx)


_P = 'billiard/pool.py'
MUTANTS = [
    ('supervisor-resyncs-the-semaphore', _P, "        for i in range(len(joined)):\n            if self._putlock is not None:\n                self._putlock.release()\n",
     "        for i in range(len(joined)):\n            if self._putlock is not None:\n                self._putlock.release()\n        if self._putlock is not None and not self._cache:\n            self._putlock.clear()\n", 'R10.6'),
    ('did_start_ok-drops-the-reaped-workers', 'billiard/pool.py', "        for _ in joined:\n            if self._putlock is not None:\n                self._putlock.release()\n        return not joined\n",
     "        return not joined\n", 'R10.4'),
    ('shrink-reaps-exited-workers-itself', 'billiard/pool.py', "    def shrink(self, n=1):\n        for i, worker in enumerate(self._iterinactive()):\n",
     "    def shrink(self, n=1):\n        self._join_exited_workers()\n        for i, worker in enumerate(self._iterinactive()):\n", 'R10.4'),
    ('shrink-takes-the-slot-first', 'billiard/pool.py', "        self._initial_value -= 1\n        self.acquire()\n",
     "        self.acquire()\n        self._initial_value -= 1\n", 'R10.1'),
    ('release-check-outside-lock', _P, "        def release(self):\n            cond = self._cond\n            with cond:\n                if self._value < self._initial_value:\n                    self._value += 1\n                    cond.notify_all()\n",
     "        def release(self):\n            if self._value >= self._initial_value:\n                return\n            cond = self._cond\n            with cond:\n                self._value += 1\n                cond.notify_all()\n", 'R10.1'),
    ('release-le', _P, "            with cond:\n                if self._value < self._initial_value:\n                    self._value += 1\n                    cond.notify_all()\n\n        def clear(self):\n            with self._cond:",
     "            with cond:\n                if self._value <= self._initial_value:\n                    self._value += 1\n                    cond.notify_all()\n\n        def clear(self):\n            with self._cond:", 'R10.1'),
    ('clear-unlocked-loop', _P, "        def clear(self):\n            with self._cond:\n                if self._value < self._initial_value:\n                    self._value = self._initial_value\n                    self._cond.notify_all()\n",
     "        def clear(self):\n            while self._value < self._initial_value:\n                _Semaphore.release(self)\n", 'R10.1'),
    ('grow-value-only', _P, "            with self._cond:\n                self._initial_value += 1\n                self._value += 1\n                self._cond.notify()",
     "            with self._cond:\n                self._value += 1\n                self._cond.notify()", 'R10.1'),
    ('shrink-no-acquire', _P, "    def shrink(self):\n        self._initial_value -= 1\n        self.acquire()\n", "    def shrink(self):\n        self._initial_value -= 1\n", 'R10.1'),
    ('pool-pokes-value', _P, "            if self._putlock:\n                self._putlock.clear()\n            self._worker_handler.close()",
     "            if self._putlock:\n                self._putlock._value = self._putlock._initial_value\n            self._worker_handler.close()", ('R10.1', 'R10.5')),
    ('handle-before-slot', _P, "            if waitforslot and self._putlock is not None:\n                self._putlock.acquire()\n            result = ApplyResult(",
     "            result = None\n            if waitforslot and self._putlock is not None:\n                pass\n            result = ApplyResult(", 'R10.2'),
    ('release-after-set', _P, "            if not item.ready():\n                if putlock is not None:\n                    putlock.release()\n            try:\n                item._set(i, obj)\n            except KeyError:\n                pass\n",
     "            try:\n                item._set(i, obj)\n            except KeyError:\n                pass\n            if not item.ready():\n                if putlock is not None:\n                    putlock.release()\n", 'R10.3'),
    ('release-unconditional', _P, "            if not item.ready():\n                if putlock is not None:\n                    putlock.release()\n", "            if putlock is not None:\n                putlock.release()\n", 'R10.3'),
    ('hard-timeout-no-kill', _P, "        if process:\n            self._trywaitkill(process)\n\n    def _trywaitkill", "        if process and not job._timeout:\n            self._trywaitkill(process)\n\n    def _trywaitkill", 'R10.3'),
    ('release-once-per-tick', _P, "        for i in range(len(joined)):\n            if self._putlock is not None:\n                self._putlock.release()",
     "        if joined:\n            if self._putlock is not None:\n                self._putlock.release()", 'R10.4'),
    ('controlled-exits-omitted', _P, "            return list(exitcodes.values())\n        return []", "            return [c for pid, c in exitcodes.items() if not getattr(cleaned[pid], '_controlled_termination', False)]\n        return []", 'R10.4'),
    ('status-only-abnormal', _P, "                cleaned[worker.pid] = worker\n                exitcodes[worker.pid] = exitcode\n", "                cleaned[worker.pid] = worker\n                if exitcode:\n                    exitcodes[worker.pid] = exitcode\n", 'R10.4'),
    ('close-no-clear', _P, "            if self._putlock:\n                self._putlock.clear()\n            self._worker_handler.close()", "            self._worker_handler.close()", 'R10.5'),
]
TWINS = [
    ('release-cond-direct', _P, "        def release(self):\n            cond = self._cond\n            with cond:\n                if self._value < self._initial_value:\n                    self._value += 1\n                    cond.notify_all()\n",
     "        def release(self):\n            with self._cond:\n                if self._value < self._initial_value:\n                    self._value += 1\n                    self._cond.notify_all()\n"),
    ('release-flipped', _P, "            with cond:\n                if self._value < self._initial_value:\n                    self._value += 1\n                    cond.notify_all()\n\n        def clear(self):\n            with self._cond:",
     "            with cond:\n                if self._initial_value > self._value:\n                    self._value += 1\n                    cond.notify_all()\n\n        def clear(self):\n            with self._cond:"),
    ('maintain-iterate-list', _P, "        for i in range(len(joined)):\n            if self._putlock is not None:\n                self._putlock.release()",
     "        for _code in joined:\n            if self._putlock is not None:\n                self._putlock.release()"),
]
