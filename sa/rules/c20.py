"""C20 — manager proxies behave like the local object; referents live as long as proxies."""
import ast

from ..model import walk_own, dotted
from .. import q
from .reduce import r12_1


def r20_1(ctx):
    ctx.rule('R20.1', 'the server dispatches only exposed methods of a referent and only public functions of itself',
             floor=4)
    m = ctx.model
    sc = m.func('managers:Server.serve_client')
    cfg = sc.cfg
    gets = [(n, c) for (n, c) in q.calls(sc, 'getattr') if len(c.args) == 2 and ast.unparse(c.args[0]) == 'obj']
    q.need(gets, 'serve_client does not look up the method on the referent')
    for (n, c) in gets:
        mn = ast.unparse(c.args[1])
        ok = q.has_guard(sc, n, '%s in exposed' % mn, True)
        ctx.ob('R20.1', 'serve_client:method-must-be-exposed', ok, sc, c, 'getattr(obj, %s) only under %s in exposed' % (mn, mn))
        rz = [x for x in cfg.where(lambda x: isinstance(x.ast, ast.Raise) and 'AttributeError' in ast.unparse(x.ast))]
        ok = bool(rz) and all(q.has_guard(sc, x, '%s in exposed' % mn, False) for x in rz)
        ctx.ob('R20.1', 'serve_client:unexposed-method-refused', ok, sc, rz[0] if rz else None, 'raise AttributeError otherwise')
    unp = [n for n in cfg.where(lambda n: n.kind == 'stmt' and isinstance(n.ast, ast.Assign) and
                                isinstance(n.ast.targets[0], ast.Tuple) and len(n.ast.targets[0].elts) == 3 and
                                'id_to_obj[' in sc.canon(n.ast.value))]
    ok = bool(unp) and ast.unparse(unp[0].ast.targets[0].elts[1]) == 'exposed' and \
        ast.unparse(unp[0].ast.value.slice) == 'ident'
    ctx.ob('R20.1', 'serve_client:exposed-set-of-that-referent', ok, sc, unp[0] if unp else None,
           'obj, exposed, gettypeid = id_to_obj[ident]')
    fm = m.cls('managers:Server').attrs.get('fallback_mapping')
    keys = sorted(ast.literal_eval(k) for k in fm.keys) if isinstance(fm, ast.Dict) else []
    ok = keys == ['#GETVALUE', '__repr__', '__str__']
    ctx.ob('R20.1', 'Server.fallback_mapping:read-only-names', ok, None, fm, str(keys), line=getattr(fm, 'lineno', 0))
    hr = m.func('managers:Server.handle_request')
    gets = [(n, c) for (n, c) in q.calls(hr, 'getattr') if len(c.args) == 2 and ast.unparse(c.args[0]) == 'self']
    q.need(gets, 'handle_request does not look up the server function')
    for (n, c) in gets:
        fn = ast.unparse(c.args[1])
        asserts = [a for a in hr.cfg.where(lambda a: a.kind == 'stmt' and isinstance(a.ast, ast.Assert)
                                           and ast.unparse(a.ast.test) == '%s in self.public' % fn)]
        ok = (bool(asserts) and hr.cfg.dominated_by(n, asserts, completed=True)[0]) or \
            q.has_guard(hr, n, '%s in self.public' % fn, True)
        ctx.ob('R20.1', 'handle_request:function-must-be-public', ok, hr, c, 'getattr(self, %s) only after `%s in self.public`' % (fn, fn))
    pub = m.cls('managers:Server').attrs.get('public')
    names = sorted(ast.literal_eval(e) for e in pub.elts) if isinstance(pub, (ast.List, ast.Tuple)) else []
    ok = bool(names) and all(not x.startswith('_') for x in names) and 'serve_client' not in names and 'handle_request' not in names
    ctx.ob('R20.1', 'Server.public:no-internal-entry-points', ok, None, pub, str(names), line=getattr(pub, 'lineno', 0))


def r20_2(ctx):
    ctx.rule('R20.2', 'every connection a manager or proxy opens to the server presents the manager\'s key', floor=6)
    m = ctx.model
    n = 0
    for qn, fi in sorted(m.funcs.items()):
        if fi.module.name != 'managers':
            continue
        for c in [x for x in walk_own(fi.node) if isinstance(x, ast.Call)]:
            cal = fi.callee(c)
            if cal.split('.')[-1] in ('_Client', 'Client') and cal != 'listener_client':
                n += 1
                kw = {k.arg: ast.unparse(k.value) for k in c.keywords}
                ok = kw.get('authkey') in ('self._authkey', 'authkey')
                ctx.ob('R20.2', '%s:%s-presents-the-key' % (fi.qual.split(':')[1], cal), ok, fi, c,
                       'authkey=%s' % kw.get('authkey'))
    q.need(n >= 6, 'client constructions in managers.py not found (%d)' % n)
    bi = m.func('managers:BaseProxy.__init__')
    vals = [(dn, ast.unparse(v)) for (dn, t, v) in q.assigns(bi, 'self._authkey')]
    ok = len(vals) == 3 and {v for dn, v in vals} == {'process.AuthenticationString(authkey)', 'self._manager._authkey',
                                                      'process.current_process().authkey'}
    ctx.ob('R20.2', 'BaseProxy.__init__:key-from-argument-manager-or-process', ok, bi, None, str([v for dn, v in vals]))
    si = m.func('managers:Server.__init__')
    ok = any(ast.unparse(v) == 'process.AuthenticationString(authkey)' for (dn, t, v) in q.assigns(si, 'self.authkey'))
    ctx.ob('R20.2', 'Server.__init__:keeps-the-key', ok, si, None, 'self.authkey = AuthenticationString(authkey)')


def r20_3(ctx):
    ctx.rule('R20.3', 'reference pairing: create() registers the object with a count that starts at zero only for a '
                      'new id and pre-increments it under the mutex; every consumer builds the proxy (which '
                      'increments) before it sends the compensating decref; decref disposes at zero under the mutex',
             floor=9)
    m = ctx.model
    cr = m.func('managers:Server.create')
    cfg = cr.cfg
    zero = [(dn, t) for (dn, t, v) in q.assigns(cr, lambda t: t.startswith('self.id_to_refcount[')) if ast.unparse(v) == '0']
    ok = bool(zero) and all(q.has_guard(cr, dn, 'ident in self.id_to_refcount', False) for (dn, t) in zero)
    # ... or the equivalent self.id_to_refcount.setdefault(ident, 0)
    sd = [c for (n_, c) in q.calls(cr, 'self.id_to_refcount.setdefault')
          if len(c.args) == 2 and isinstance(c.args[1], ast.Constant) and c.args[1].value == 0]
    if not zero and sd:
        ok = True
        zero = [(cr.cfg.node_containing(sd[0])[0], None)]
    ctx.ob('R20.3', 'create:count-zeroed-only-for-a-new-id', ok, cr, zero[0][0] if zero else None,
           'if ident not in self.id_to_refcount: self.id_to_refcount[ident] = 0 (an object created twice keeps its count)')
    inc = [(n, c) for (n, c) in q.calls(cr, 'self.incref')]
    rets = [n for n in cfg.where(lambda n: isinstance(n.ast, ast.Return))]
    ok = bool(inc) and all(cfg.dominated_by(r, [n for (n, c) in inc], completed=True)[0] for r in rets) and \
        all(ast.unparse(c.args[1]) == 'ident' for (n, c) in inc)
    ctx.ob('R20.3', 'create:pre-increments-before-returning-the-id', ok, cr, inc[0][1] if inc else None, 'self.incref(c, ident)')
    reg = [dn for (dn, t, v) in q.assigns(cr, lambda t: t.startswith('self.id_to_obj['))]
    ok = bool(reg) and bool(inc) and all(cfg.dominated_by(n, reg)[0] for (n, c) in inc)
    ctx.ob('R20.3', 'create:registered-before-counted', ok, cr, None, 'self.id_to_obj[ident] = ... precedes the increment')
    withs = [w for w in walk_own(cr.node) if isinstance(w, ast.With) and any(ast.unparse(i.context_expr) == 'self.mutex' for i in w.items)]
    body = [s for s in cr.node.body if not (isinstance(s, ast.Expr) and isinstance(s.value, ast.Constant))]
    ctx.ob('R20.3', 'create:under-the-mutex', len(body) == 1 and body[0] in withs, cr, None, 'whole body inside `with self.mutex`')
    for name, op in (('incref', ast.Add), ('decref', ast.Sub)):
        fi = m.func('managers:Server.' + name)
        aug = [dn for (dn, t, v) in q.assigns(fi, lambda t: t.startswith('self.id_to_refcount['))
               if isinstance(dn.ast, ast.AugAssign) and isinstance(dn.ast.op, op) and ast.unparse(dn.ast.value) == '1']
        inw = all(any(isinstance(w, ast.With) and any(ast.unparse(i.context_expr) == 'self.mutex' for i in w.items)
                      and any(x is dn.ast for b in w.body for x in ast.walk(b)) for w in walk_own(fi.node)) for dn in aug)
        ok = len(aug) == 1 and inw and ast.unparse(aug[0].ast.target.slice) == fi.positional_params()[2]
        ctx.ob('R20.3', '%s:one-step-under-the-mutex' % name, ok, fi, aug[0] if aug else None,
               'self.id_to_refcount[ident] %s= 1' % ('+' if op is ast.Add else '-'))
    dc = m.func('managers:Server.decref')
    dels = [n for n in dc.cfg.where(lambda n: n.kind == 'stmt' and isinstance(n.ast, ast.Delete))]
    txt = sorted(ast.unparse(t) for n in dels for t in n.ast.targets)
    I = dc.positional_params()[2]
    ok = txt == ['self.id_to_obj[%s]' % I, 'self.id_to_refcount[%s]' % I] and \
        all(q.has_guard(dc, n, q.eq_text('self.id_to_refcount[%s]' % I, '0'), True) for n in dels)
    ctx.ob('R20.3', 'decref:disposes-both-tables-exactly-at-zero', ok, dc, dels[0] if dels else None, str(txt))
    aug = [dn for (dn, t, v) in q.assigns(dc, lambda t: t.startswith('self.id_to_refcount[')) if isinstance(dn.ast, ast.AugAssign)]
    ok = bool(aug) and bool(dels) and all(dc.cfg.dominated_by(d, aug)[0] for d in dels)
    ctx.ob('R20.3', 'decref:test-after-decrement', ok, dc, None, 'the zero test follows the decrement')
    # consumers of a pre-incremented id
    consumers = []
    reg_temp = m.func('managers:BaseManager.register').children.get('temp')
    if reg_temp is not None:
        consumers.append((reg_temp, 'proxytype'))
    consumers.append((m.func('managers:BaseProxy._callmethod'), 'proxytype'))
    for (fi, ctor) in consumers:
        cfg = fi.cfg
        proxies = [(n, c) for (n, c) in q.calls(fi, ctor)]
        decs = [(n, c) for (n, c) in q.calls(fi, 'dispatch') if len(c.args) >= 3 and ast.unparse(c.args[2]) == "'decref'"]
        ok = bool(proxies) and bool(decs) and \
            all(cfg.dominated_by(n, [p for (p, pc) in proxies], completed=True)[0] for (n, c) in decs)
        ctx.ob('R20.3', '%s:proxy-built-before-compensating-decref' % fi.qual.split(':')[1].split('.')[-2 if fi.parent else -1],
               ok, fi, decs[0][1] if decs else None,
               'the proxy (which increments) exists before the pre-increment is given back')
        ok = all(ast.unparse(c.args[3]).replace(' ', '') == '(token.id,)' for (n, c) in decs) and \
            all(ast.unparse(pc.args[0]) == 'token' for (p, pc) in proxies)
        ctx.ob('R20.3', '%s:decref-names-the-same-token' % fi.qual.split(':')[1].split('.')[-2 if fi.parent else -1],
               ok, fi, None, "dispatch(conn, None, 'decref', (token.id,)) for the token the proxy was built from")
        # incref is not disabled for that proxy
        ok = all(not any(k.arg == 'incref' and ast.unparse(k.value) == 'False' for k in pc.keywords) for (p, pc) in proxies)
        ctx.ob('R20.3', '%s:proxy-takes-its-own-reference' % fi.qual.split(':')[1].split('.')[-2 if fi.parent else -1],
               ok, fi, None, 'the proxy is built with incref enabled')
    bi = m.func('managers:BaseProxy.__init__')
    inc = q.nodes_calling(bi, 'self._incref')
    ok = bool(inc) and all(q.has_guard(bi, n, 'incref', True) for n in inc) and \
        bi.cfg.exit.id not in bi.cfg.reach([bi.cfg.entry.id], block_nodes={n.id for n in inc},
                                           block_edges=q.outcome_edges(bi, 'incref', False), skip_labels=('x',))
    ctx.ob('R20.3', 'BaseProxy.__init__:increments-unless-told-not-to', ok, bi, None, 'if incref: self._incref()')
    pi = m.func('managers:BaseProxy._incref')
    disp = [(n, c) for (n, c) in q.calls(pi, 'dispatch') if ast.unparse(c.args[2]) == "'incref'"]
    fin = [(n, c) for (n, c) in q.calls(pi, 'util.Finalize')]
    ok = bool(disp) and bool(fin) and ast.unparse(disp[0][1].args[3]).replace(' ', '') == '(self._id,)'
    if ok:
        fc = fin[0][1]
        kw = {k.arg: ast.unparse(k.value).replace(' ', '') for k in fc.keywords}
        ok = ast.unparse(fc.args[0]) == 'self' and ast.unparse(fc.args[1]) == 'BaseProxy._decref' and \
            kw.get('args', '').startswith('(self._token,self._authkey,') and \
            pi.cfg.dominated_by(fin[0][0], [disp[0][0]], completed=True)[0]
    ctx.ob('R20.3', 'BaseProxy._incref:finalizer-decrefs-the-same-token', ok, pi, None,
           'after a completed incref a Finalize(self, BaseProxy._decref, args=(self._token, ...)) is registered')
    pd = m.func('managers:BaseProxy._decref')
    disp = [(n, c) for (n, c) in q.calls(pd, 'dispatch') if ast.unparse(c.args[2]) == "'decref'"]
    ok = bool(disp) and ast.unparse(disp[0][1].args[3]).replace(' ', '') == '(token.id,)'
    ctx.ob('R20.3', 'BaseProxy._decref:decrefs-its-token', ok, pd, None, "dispatch(conn, None, 'decref', (token.id,))")


def r20_4(ctx):
    ctx.rule('R20.4', 'every reply kind the server can send is handled by the client; #ERROR re-raises the transported '
                      'exception', floor=5)
    m = ctx.model
    kinds = set()
    for qn in ('managers:Server.serve_client', 'managers:Server.handle_request', 'managers:Server.accept_connection'):
        fi = m.func(qn)
        for n in walk_own(fi.node):
            if isinstance(n, ast.Tuple) and len(n.elts) == 2 and isinstance(n.elts[0], ast.Constant) and \
                    isinstance(n.elts[0].value, str) and n.elts[0].value.startswith('#'):
                kinds.add(n.elts[0].value)
    q.need(kinds >= {'#RETURN', '#ERROR', '#TRACEBACK', '#PROXY', '#UNSERIALIZABLE'}, 'reply kinds sent: %s' % sorted(kinds))
    ce = m.func('managers:convert_to_error')
    cm = m.func('managers:BaseProxy._callmethod')
    dp = m.func('managers:dispatch')

    def handled(fi, kind):
        return any(isinstance(x, ast.Compare) and isinstance(x.ops[0], (ast.Eq, ast.NotEq, ast.In, ast.NotIn)) and
                   any(isinstance(y, ast.Constant) and y.value == kind for z in [x.left] + x.comparators
                       for y in ast.walk(z))
                   for x in walk_own(fi.node))
    for k in sorted(kinds):
        via_call = handled(cm, k) or (handled(ce, k) and bool(q.calls(cm, 'convert_to_error')))
        via_disp = k == '#PROXY' or handled(dp, k) or (handled(ce, k) and bool(q.calls(dp, 'convert_to_error')))
        ctx.ob('R20.4', 'reply-kind %s handled' % k, via_call and via_disp, cm, None,
               '_callmethod: %s; dispatch: %s' % (via_call, via_disp))
    rets = [n for n in ce.cfg.where(lambda n: isinstance(n.ast, ast.Return)) if q.has_guard(ce, n, q.eq_text("'#ERROR'", 'kind'), True)]
    ok = bool(rets) and all(ast.unparse(r.ast.value) == ce.positional_params()[1] for r in rets)
    ctx.ob('R20.4', 'convert_to_error:#ERROR-is-the-transported-exception', ok, ce, rets[0] if rets else None, 'return result')
    for fi in (cm, dp):
        rz = [n for n in fi.cfg.where(lambda n: isinstance(n.ast, ast.Raise) and n.ast.exc is not None
                                      and 'convert_to_error' in ast.unparse(n.ast.exc))]
        ok = bool(rz) and all(not q.has_guard(fi, n, q.eq_text("'#RETURN'", 'kind'), True) for n in rz)
        ctx.ob('R20.4', '%s:raises-converted-error' % fi.name, ok, fi, rz[0] if rz else None, 'raise convert_to_error(kind, result)')
    sc = m.func('managers:Server.serve_client')
    errs = [n for n in sc.cfg.where(lambda n: n.kind == 'stmt' and isinstance(n.ast, ast.Assign) and "'#ERROR'" in ast.unparse(n.ast.value))]
    ok = bool(errs) and all(any(part == 'handler' for (tr, part, h) in q.enclosing_trys(sc, n.ast)) and
                            isinstance(n.ast.value, ast.Tuple) and isinstance(n.ast.value.elts[1], ast.Name) for n in errs)
    ctx.ob('R20.4', 'serve_client:referent-exception-sent-as-#ERROR', ok, sc, errs[0] if errs else None, "msg = ('#ERROR', exc)")


def r20_6(ctx):
    ctx.rule('R20.6', 'shutting a manager down always forgets this process\'s cached connections to its address and '
                      'records the SHUTDOWN state (a later manager on the same address must not inherit them)', floor=2)
    m = ctx.model
    fi = m.func('managers:BaseManager._finalize_manager')
    cfg = fi.cfg
    P = fi.positional_params()
    dels = [n for n in cfg.where(lambda n: n.kind == 'stmt' and isinstance(n.ast, ast.Delete) and any(
        isinstance(t, ast.Subscript) and ast.unparse(t.value) == 'BaseProxy._address_to_local' and
        ast.unparse(t.slice) in P for t in n.ast.targets))]
    pops = [n for (n, c) in q.calls(fi, 'BaseProxy._address_to_local.pop') if c.args and ast.unparse(c.args[0]) in P]
    forget = dels + pops
    q.need(forget, '_finalize_manager never drops BaseProxy._address_to_local[address]')
    ok = cfg.must_pass([cfg.entry], [cfg.exit], forget, skip_labels=('x',))[0]
    w = None if ok else cfg.path([cfg.entry.id], [cfg.exit.id], block_nodes={n.id for n in forget}, skip_labels=('x',))
    ctx.ob('R20.6', '_finalize_manager:connection-cache-dropped-on-every-path', ok, fi, forget[0],
           'del BaseProxy._address_to_local[address] on every normal path' if ok else
           'a path returns without dropping the cached connections: proxies of the next manager at this address '
           'talk to the dead server\'s socket', path=w)
    sets = [dn for (dn, t, v) in q.assigns(fi, lambda t: t.endswith('.value')) if v is not None and
            ast.unparse(v) == 'State.SHUTDOWN']
    ok = bool(sets) and cfg.must_pass([cfg.entry], [cfg.exit], sets, skip_labels=('x',))[0]
    ctx.ob('R20.6', '_finalize_manager:state-recorded-on-every-path', ok, fi, sets[0] if sets else None,
           'state.value = State.SHUTDOWN on every normal path')


def r20_12(ctx):
    ctx.rule('R20.12', 'what a process remembers about a manager address -- the per-thread connection and the ids it '
                       'owns -- is forgotten in a forked child: both stores are of a kind that clears itself after a '
                       'fork (a child that found its parent\'s connection would share one socket and one server thread '
                       'with it)', floor=2)
    m = ctx.model
    fi = m.func('managers:BaseProxy.__init__')
    stores = [(dn, v) for (dn, t, v) in q.assigns(fi, lambda t: t.startswith('BaseProxy._address_to_local['))]
    q.need(stores, 'BaseProxy.__init__ does not fill _address_to_local')
    for (dn, v) in stores:
        val = v
        if isinstance(v, ast.Name):
            defs = [x for (d2, t2, x) in q.assigns(fi, v.id) if isinstance(x, ast.Tuple)]
            val = defs[0] if defs else v
        elts = val.elts if isinstance(val, ast.Tuple) else []
        q.need(len(elts) == 2, 'BaseProxy.__init__: the per-address entry is not a (connections, ids) pair')
        for i, (e, what) in enumerate(zip(elts, ('per-thread-connection-store', 'owned-ids-store'))):
            kind = fi.callee(e) if isinstance(e, ast.Call) else ast.unparse(e)
            ok = False
            if kind.split('.')[-1] == 'ForkAwareLocal':
                ok = True            # multiprocessing.util: registers `obj.__dict__.clear()` after fork
            else:
                ci = m.resolve_class(kind, fi.module) if isinstance(e, ast.Call) else None
                if ci is not None:
                    init = m.method(ci, '__init__')
                    ok = init is not None and any(isinstance(x, ast.Call) and
                                                  init.callee(x).endswith('register_after_fork')
                                                  for x in walk_own(init.node))
            ctx.ob('R20.12', 'BaseProxy.__init__:%s-clears-itself-after-fork' % what, ok, fi, e,
                   '%s() registers an after-fork clear' % kind if ok else
                   '`%s` survives a fork as it is: the child\'s main thread finds the parent\'s connection (same thread '
                   'ident) and talks to the server over the parent\'s socket -- the two processes read each other\'s '
                   'replies' % ast.unparse(e))


def r20_10(ctx):
    ctx.rule('R20.10', 'every proxy that takes a reference takes its own: _incref tells the server and arms the matching '
                       '_decref finalizer on every path (the server counts references per proxy, not per process)',
             floor=3)
    m = ctx.model
    fi = m.func('managers:BaseProxy._incref')
    cfg = fi.cfg
    tells = [n for (n, c) in q.calls(fi, 'dispatch') if len(c.args) >= 3 and isinstance(c.args[2], ast.Constant)
             and c.args[2].value == 'incref']
    arms = [n for (n, c) in q.calls(fi, lambda t: t.endswith('Finalize'))
            if len(c.args) >= 2 and ast.unparse(c.args[1]).endswith('._decref')]
    q.need(tells and arms, 'BaseProxy._incref: incref dispatch / _decref finalizer not found')
    ok = cfg.must_pass([cfg.entry], [cfg.exit], tells, skip_labels=('x',))[0]
    ctx.ob('R20.10', '_incref:server-told-on-every-path', ok, fi, tells[0],
           'dispatch(conn, None, \'incref\', ...) is unconditional' if ok else
           'a path returns without telling the server: this proxy holds no reference of its own, and when the proxy '
           'that does is released the server disposes of the object while this one still exists')
    ok = cfg.must_pass([cfg.entry], [cfg.exit], arms, skip_labels=('x',))[0]
    ctx.ob('R20.10', '_incref:decref-finalizer-armed-on-every-path', ok, fi, arms[0], 'util.Finalize(self, BaseProxy._decref, ...)')
    ok = all(cfg.dominated_by(a, tells)[0] for a in arms)
    ctx.ob('R20.10', '_incref:finalizer-only-after-the-reference-exists', ok, fi, arms[0], 'incref precedes arming _decref')


def r20_7(ctx):
    ctx.rule('R20.7', 'every proxy, also one rebuilt without taking a reference, re-registers itself after a fork / '
                      'in a started child: the after-fork hook is installed on every path through BaseProxy.__init__',
             floor=2)
    m = ctx.model
    fi = m.func('managers:BaseProxy.__init__')
    cfg = fi.cfg
    reg = [(n, c) for (n, c) in q.calls(fi, lambda t: t.endswith('register_after_fork'))]
    q.need(reg, 'BaseProxy.__init__ does not register an after-fork hook')
    ok = cfg.must_pass([cfg.entry], [cfg.exit], [n for (n, c) in reg], skip_labels=('x',))[0]
    ctx.ob('R20.7', 'BaseProxy.__init__:after-fork-hook-on-every-path', ok, fi, reg[0][1],
           'register_after_fork(self, BaseProxy._after_fork) is unconditional' if ok else
           'a proxy built with incref=False (every proxy unpickled while a process is being started) gets no '
           'after-fork hook: the child never takes its own reference and the server may dispose of the object while '
           'the child still holds the proxy')
    for (n, c) in reg:
        ok = len(c.args) == 2 and ast.unparse(c.args[0]) == 'self' and ast.unparse(c.args[1]).endswith('._after_fork')
        ctx.ob('R20.7', 'BaseProxy.__init__:hook-is-_after_fork', ok, fi, c, ast.unparse(c))
    af = m.func('managers:BaseProxy._after_fork')
    ok = bool(q.calls(af, 'self._incref'))
    ctx.ob('R20.7', 'BaseProxy._after_fork:takes-a-reference', ok, af, None, '_after_fork calls self._incref()')



def _proxy_classes(m):
    out = []
    for qn, ci in sorted(m.classes.items()):
        if ci.module.name != 'managers':
            continue
        seen, todo = set(), [ci]
        while todo:
            c = todo.pop()
            if c.qual in seen:
                continue
            seen.add(c.qual)
            todo.extend(c.bases)
        if any(s.endswith(':BaseProxy') for s in seen) or any('MakeProxyType' in b or b.startswith('Base') and b.endswith('Proxy')
                                                              for b in ci.base_names):
            out.append(ci)
    return out


def r20_13(ctx):
    ctx.rule('R20.13', 'an in-place operator of a proxy is one request to the server (one operation on the referent, '
                       'atomic against other clients), on every path', floor=2)
    m = ctx.model
    n_ = 0
    for ci in _proxy_classes(m):
        for name, fi in sorted(ci.methods.items()):
            if not (name.startswith('__i') and name.endswith('__') and name not in ('__init__', '__iter__', '__int__',
                                                                                     '__index__', '__invert__')):
                continue
            cm = {n.id for (n, c) in q.calls(fi, 'self._callmethod')}
            if not cm:
                continue
            n_ += 1
            r = fi.cfg.count_range([fi.cfg.entry], [fi.cfg.exit], lambda n: n.id in cm, skip_labels=('x',))
            ctx.ob('R20.13', '%s.%s:one-request' % (ci.name, name), r == (1, 1), fi, None,
                   'self._callmethod(...) once on every path: min,max = %r' % (r,) if r == (1, 1) else
                   'the operation is sent as %s requests: another client can see, or write into, the half-done result'
                   % ('several' if r[1] != 1 else 'zero or one'))
    q.need(n_ >= 2, 'no in-place proxy operators found')


def r20_14(ctx):
    ctx.rule('R20.14', 'a proxy method hands the referent the arguments it was called with: what it puts into the '
                       'request are its own parameters (and attribute names), not values made up on the way -- the '
                       'referent types disagree about what a made-up value means', floor=10)
    m = ctx.model
    n_ = 0
    for ci in _proxy_classes(m):
        for name, fi in sorted(ci.methods.items()):
            for (n, c) in q.calls(fi, 'self._callmethod'):
                if len(c.args) < 2:
                    continue
                n_ += 1
                e = ast.parse(q.expand(fi, c.args[1]), mode='eval').body
                tuples = []
                todo = [e]
                while todo:
                    x = todo.pop()
                    if isinstance(x, ast.IfExp):
                        todo += [x.body, x.orelse]
                    else:
                        tuples.append(x)
                assigned = fi.assigned_names()
                bad = None
                for t in tuples:
                    elts = t.elts if isinstance(t, ast.Tuple) else [t]
                    for el in elts:
                        if isinstance(el, ast.Starred):
                            el = el.value
                        if isinstance(el, ast.Constant) and isinstance(el.value, str):
                            continue
                        if isinstance(el, ast.Name) and el.id in fi.params and not assigned.get(el.id):
                            continue
                        bad = bad or el
                ctx.ob('R20.14', '%s.%s:forwards-its-own-arguments' % (ci.name, name), bad is None, fi, c,
                       'request arguments are the method\'s parameters' if bad is None else
                       '`%s` goes into the request instead of what the caller passed' % ast.unparse(bad)[:40])
    q.need(n_ >= 5, 'proxy methods with arguments not found')



def r20_15(ctx):
    ctx.rule('R20.15', 'whatever the referent raises goes back to the caller as that exception: the call of the referent '
                       'method sits in its own try whose handler for Exception builds the #ERROR reply -- it must not '
                       'fall through to the dispatcher\'s handlers, which take AttributeError / KeyError for "no such '
                       'method / object"', floor=2)
    m = ctx.model
    fi = m.func('managers:Server.serve_client')
    fdefs = [(dn, t, v) for (dn, t, v) in q.assigns(fi, None) if isinstance(v, ast.Call) and fi.callee(v) == 'getattr'
             and isinstance(t, ast.Name)]
    q.need(fdefs, 'serve_client: the lookup of the referent method was not found')
    F = fdefs[0][1].id
    calls = [(n, c) for (n, c) in q.calls(fi, F)]
    q.need(calls, 'serve_client: the call of the referent method was not found')
    for (n, c) in calls:
        trys = q.enclosing_trys(fi, c)
        inner = [(tr, part, h) for (tr, part, h) in trys if part == 'body']
        ok = False
        why = 'the referent call is not inside a try'
        if inner:
            tr = inner[0][0]
            broad = [h for h in tr.handlers if h.type is None or ast.unparse(h.type) in ('Exception', 'BaseException')]
            makes_error = [h for h in broad if any(isinstance(x, ast.Tuple) and x.elts and isinstance(x.elts[0], ast.Constant)
                                                    and x.elts[0].value == '#ERROR' for st in h.body for x in ast.walk(st))]
            narrow_first = [h for h in tr.handlers if h not in broad and tr.handlers.index(h) < (tr.handlers.index(broad[0]) if broad else 99)]
            only_the_call = all(not any(isinstance(x, ast.Call) and fi.callee(x) == 'getattr' for x in ast.walk(st)) for st in tr.body)
            ok = bool(makes_error) and not narrow_first and only_the_call
            why = 'try: res = function(*args, **kwds) / except Exception as exc: msg = (\'#ERROR\', exc)' if ok else \
                'the innermost try around the referent call does not turn every Exception into #ERROR first: an ' \
                'AttributeError or KeyError raised by the referent is taken for a dispatch error'
        ctx.ob('R20.15', 'serve_client:referent-exceptions-are-#ERROR', ok, fi, c, why)
    rets = [x for x in walk_own(fi.node) if isinstance(x, ast.Tuple) and len(x.elts) == 2 and
            isinstance(x.elts[0], ast.Constant) and x.elts[0].value == '#RETURN']
    res = [ast.unparse(dn.ast.targets[0]) for (dn, t, v) in q.assigns(fi, None) if v is not None and any(v is c for (n, c) in calls)]

    def is_a_result(e):
        # a name every definition of which is the value returned by the referent method (or by the fallback that
        # stands in for a method the referent lacks)
        fb = {t.id for (dn, t, v) in q.assigns(fi, None) if isinstance(t, ast.Name) and isinstance(v, ast.Subscript)
              and 'fallback_mapping' in ast.unparse(v)}

        def the_call(v):
            return isinstance(v, ast.Call) and (fi.callee(v) in ({F} | fb) or 'fallback_mapping' in ast.unparse(v.func))
        if the_call(e):
            return True         # the result handed over where it is produced
        if not isinstance(e, ast.Name):
            return False
        defs = [v for (dn, t, v) in q.assigns(fi, e.id)]
        return bool(defs) and all(the_call(v) for v in defs)
    ok = bool(rets) and bool(res) and all(is_a_result(x.elts[1]) for x in rets)
    ctx.ob('R20.15', 'serve_client:#RETURN-carries-the-result', ok, fi, rets[0] if rets else None,
           "msg = ('#RETURN', %s) and nothing else" % (res[0] if res else '?') if ok else
           'a #RETURN reply carries something else than what the referent returned')


def r20_16(ctx):
    ctx.rule('R20.16', 'wait_for of the condition proxy evaluates the predicate after every wait, timed out or not (the '
                       'local Condition does: the predicate may have become true without a notify, or while the waiter '
                       're-acquired the lock)', floor=1)
    m = ctx.model
    fi = m.func('managers:ConditionProxy.wait_for')
    cfg = fi.cfg
    P = fi.positional_params()[1]
    waits = [n for (n, c) in q.calls(fi, 'self.wait')]
    evals = [n for (n, c) in q.calls(fi, P)]
    q.need(waits and evals, 'ConditionProxy.wait_for: wait / predicate calls not found')
    ok, w = cfg.must_pass(waits, [cfg.exit], evals, skip_labels=('x',))
    ctx.ob('R20.16', 'wait_for:predicate-after-every-wait', ok, fi, waits[0],
           'every path from self.wait(...) to the return passes %s()' % P, path=w)



def r20_17(ctx):
    ctx.rule('R20.17', 'a proxy call reads the reply to its own request before it does anything else with the '
                       'connection: between send and recv there is no way out (a call that gives up after sending leaves '
                       'its reply for the next call of the thread to read as its own)', floor=1)
    m = ctx.model
    fi = m.func('managers:BaseProxy._callmethod')
    cfg = fi.cfg
    # the request: <conn>.send((self._id, methodname, args, kwds)); the reply: <conn>.recv() on the same object
    req = [(n, c) for (n, c) in q.calls(fi, lambda t: t.endswith('.send'))
           if c.args and isinstance(c.args[0], ast.Tuple) and c.args[0].elts and ast.unparse(c.args[0].elts[0]) == 'self._id']
    sends = [n for (n, c) in req]
    recv_names = {ast.unparse(c.func.value) + '.recv' for (n, c) in req}
    recvs = [n for (n, c) in q.calls(fi, lambda t: t.endswith('.recv')) if ast.unparse(c.func) in recv_names]
    q.need(sends and recvs, '_callmethod: send / recv not found')
    between = cfg.reach([s.id for s in sends], block_nodes={r.id for r in recvs}, skip_labels=('x',))
    outs = [cfg.nodes[i] for i in sorted(between) if cfg.nodes[i].kind == 'stmt' and
            isinstance(cfg.nodes[i].ast, (ast.Raise, ast.Return))]
    ctx.ob('R20.17', '_callmethod:reply-read-after-every-request', not outs and cfg.exit.id not in between, fi,
           outs[0] if outs else sends[0],
           'every normal path from conn.send(...) reaches conn.recv()' if not outs else
           '`%s` between send and recv: the request was made, its reply stays unread on the cached connection'
           % ast.unparse(outs[0].ast)[:50])


def r20_18(ctx):
    ctx.rule('R20.18', 'a proxy unpickled while a child process is being set up takes no reference of its own (the '
                       'after-fork hook of the started process does): RebuildProxy suppresses incref while the current '
                       'process is _inheriting', floor=1)
    m = ctx.model
    fi = m.func('managers:RebuildProxy')
    calls = [c for c in walk_own(fi.node) if isinstance(c, ast.Call) and any(k.arg == 'incref' for k in c.keywords)]
    q.need(calls, 'RebuildProxy: call with incref= not found')
    for c in calls:
        v = [k.value for k in c.keywords if k.arg == 'incref'][0]
        text = q.expand(fi, v)
        ok = '_inheriting' in text and 'not' in text
        ctx.ob('R20.18', 'RebuildProxy:no-incref-while-inheriting', ok, fi, c,
               'incref = ... and not getattr(current_process(), \'_inheriting\', False)' if ok else
               'incref=%s: a proxy in the arguments of a spawned child takes a reference whose finalizer is thrown away '
               'when the child clears its registry; the referent is never released' % text[:60])


def run(ctx):
    from .sweep import r20_19 as _r20_19, r20_20 as _r20_20
    _r20_19(ctx)
    _r20_20(ctx)
    r20_17(ctx)
    r20_18(ctx)
    r20_15(ctx)
    r20_16(ctx)
    r20_13(ctx)
    r20_14(ctx)
    r20_12(ctx)
    r20_10(ctx)
    r20_7(ctx)
    # a generated proxy type is cached under everything it was generated from (type name and exposed methods)
    from .generic import memo_key_covers_inputs
    memo_key_covers_inputs(ctx, 'R20.8', ['managers'], floor=1)
    # the server's object table, its reference counts and a proxy's id set belong to one server / one address
    from .generic import per_instance_state
    per_instance_state(ctx, 'R20.9', ['managers'], floor=6)
    from .generic import handlers_match_lookups
    handlers_match_lookups(ctx, 'R20.11', ['managers'], floor=3)
    r20_6(ctx)
    r20_1(ctx)
    r20_2(ctx)
    r20_3(ctx)
    r20_4(ctx)
    r12_1(ctx, rule='R20.5', modules=('managers',), floor=3)
    from .c18 import r18_1, r18_2
    r18_1(ctx)
    r18_2(ctx)
    ctx.note('equivalence with local objects and per-operation atomicity (server threading) are not decided')


_M = 'billiard/managers.py'
MUTANTS = [
    ('proxy-call-gives-up-after-sending', 'billiard/managers.py', "        conn.send((self._id, methodname, args, kwds))\n        kind, result = conn.recv()\n", "        conn.send((self._id, methodname, args, kwds))\n        if not conn.poll(20):\n            raise TimeoutError('no reply')\n        kind, result = conn.recv()\n", 'R20.17'),
    ('rebuilt-proxy-increfs-while-inheriting', 'billiard/managers.py', "        incref = (\n            kwds.pop('incref', True) and\n            not getattr(process.current_process(), '_inheriting', False)\n        )\n", "        incref = kwds.pop('incref', True)\n", 'R20.18'),
    ('referent-errors-fall-through-to-the-dispatcher', 'billiard/managers.py', "                try:\n                    res = function(*args, **kwds)\n                except Exception as exc:\n                    msg = ('#ERROR', exc)\n                else:\n", "                res = function(*args, **kwds)\n                if True:\n", 'R20.15'),
    ('wait_for-skips-the-predicate-after-a-timeout', 'billiard/managers.py', "            self.wait(waittime)\n            result = predicate()\n", "            if not self.wait(waittime):\n                break\n            result = predicate()\n", 'R20.16'),
    ('iadd-sends-items-one-by-one', 'billiard/managers.py', "        self._callmethod('extend', (value,))\n        return self\n", "        for item in value:\n            self._callmethod('append', (item,))\n        return self\n", 'R20.13'),
    ('acquire-makes-up-a-timeout', 'billiard/managers.py', "        args = (blocking, ) if timeout is None else (blocking, timeout)\n", "        args = (blocking, -1) if timeout is None else (blocking, timeout)\n", 'R20.14'),
    ('incref-skipped-for-a-known-referent', _M, "    def _incref(self):\n        conn = self._Client(self._token.address, authkey=self._authkey)\n",
     "    def _incref(self):\n        if self._id in self._idset:\n            return\n        conn = self._Client(self._token.address, authkey=self._authkey)\n", 'R20.10'),
    ('after-fork-hook-only-with-incref', _M, "        if incref:\n            self._incref()\n\n        util.register_after_fork(self, BaseProxy._after_fork)\n",
     "        if incref:\n            self._incref()\n            util.register_after_fork(self, BaseProxy._after_fork)\n", 'R20.7'),
    ('proxy-type-cached-by-name-only', _M,
     "        return _cache[(name, exposed)]\n    except KeyError:\n        pass\n\n    dic = {}\n\n    for meth in exposed:\n        exec('''def %s(self, *args, **kwds):\n        return self._callmethod(%r, args, kwds)''' % (meth, meth), dic)\n\n    ProxyType = type(name, (BaseProxy,), dic)\n    ProxyType._exposed_ = exposed\n    _cache[(name, exposed)] = ProxyType\n",
     "        return _cache[name]\n    except KeyError:\n        pass\n\n    dic = {}\n\n    for meth in exposed:\n        exec('''def %s(self, *args, **kwds):\n        return self._callmethod(%r, args, kwds)''' % (meth, meth), dic)\n\n    ProxyType = type(name, (BaseProxy,), dic)\n    ProxyType._exposed_ = exposed\n    _cache[name] = ProxyType\n", 'R20.8'),
    ('dead-server-keeps-cached-connections', _M, "        if process.is_alive():\n            util.info('sending shutdown message to manager')\n",
     "        if not process.is_alive():\n            state.value = State.SHUTDOWN\n            return\n        if True:\n            util.info('sending shutdown message to manager')\n", 'R20.6'),
    ('shutdown-state-only-when-alive', _M, "        state.value = State.SHUTDOWN\n        try:\n            del BaseProxy._address_to_local[address]\n",
     "        if process.exitcode is None:\n            state.value = State.SHUTDOWN\n        try:\n            del BaseProxy._address_to_local[address]\n", 'R20.6'),
    ('exposed-check-dropped', _M, "                if methodname not in exposed:\n                    raise AttributeError(\n                        'method %r of %r object is not in exposed=%r' % (\n                            methodname, type(obj), exposed)\n                    )\n", "", 'R20.1'),
    ('public-check-dropped', _M, "            assert funcname in self.public, '%r unrecognized' % funcname\n", "", 'R20.1'),
    ('fallback-exposes-setattr', _M, "        '#GETVALUE': fallback_getvalue", "        '__setattr__': fallback_str,\n        '#GETVALUE': fallback_getvalue", 'R20.1'),
    ('connect-without-key', _M, "        conn = self._Client(self._token.address, authkey=self._authkey)\n        dispatch(conn, None, 'accept_connection', (name,))", "        conn = self._Client(self._token.address)\n        dispatch(conn, None, 'accept_connection', (name,))", 'R20.2'),
    ('count-always-zeroed', _M, "            if ident not in self.id_to_refcount:\n                self.id_to_refcount[ident] = 0\n", "            self.id_to_refcount[ident] = 0\n", 'R20.3'),
    ('create-no-preincrement', _M, "            self.incref(c, ident)\n            return ident, tuple(exposed)", "            return ident, tuple(exposed)", 'R20.3'),
    ('decref-before-proxy', _M, "                token, exp = self._create(typeid, *args, **kwds)\n                proxy = proxytype(\n                    token, self._serializer, manager=self,\n                    authkey=self._authkey, exposed=exp\n                )\n                conn = self._Client(token.address, authkey=self._authkey)\n                dispatch(conn, None, 'decref', (token.id,))\n                return proxy",
     "                token, exp = self._create(typeid, *args, **kwds)\n                conn = self._Client(token.address, authkey=self._authkey)\n                dispatch(conn, None, 'decref', (token.id,))\n                proxy = proxytype(\n                    token, self._serializer, manager=self,\n                    authkey=self._authkey, exposed=exp\n                )\n                return proxy", 'R20.3'),
    ('dispose-at-one', _M, "            if self.id_to_refcount[ident] == 0:\n                del self.id_to_obj[ident], self.id_to_refcount[ident]", "            if self.id_to_refcount[ident] <= 1:\n                del self.id_to_obj[ident], self.id_to_refcount[ident]", 'R20.3'),
    ('dispose-leaks-count', _M, "                del self.id_to_obj[ident], self.id_to_refcount[ident]", "                del self.id_to_obj[ident]", 'R20.3'),
    ('incref-unlocked', _M, "    def incref(self, c, ident):\n        with self.mutex:\n            self.id_to_refcount[ident] += 1", "    def incref(self, c, ident):\n        self.id_to_refcount[ident] += 1", 'R20.3'),
    ('proxy-result-no-ref', _M, "            proxy = proxytype(\n                token, self._serializer, manager=self._manager,\n                authkey=self._authkey, exposed=exposed\n            )", "            proxy = proxytype(\n                token, self._serializer, manager=self._manager,\n                authkey=self._authkey, exposed=exposed, incref=False\n            )", 'R20.3'),
    ('finalizer-other-token', _M, "            args=(self._token, self._authkey, state,", "            args=(None, self._authkey, state,", 'R20.3'),
    ('error-kind-swallowed', _M, "    if kind == '#ERROR':\n        return result\n    elif kind == '#TRACEBACK':", "    if kind == '#TRACEBACK':", 'R20.4'),
    ('error-as-remote-error', _M, "    if kind == '#ERROR':\n        return result", "    if kind == '#ERROR':\n        return RemoteError(str(result))", 'R20.4'),
    ('token-state-misordered', _M, "        return (self.typeid, self.address, self.id)", "        return (self.typeid, self.id, self.address)", 'R20.5'),
    ('challenge-default-arg', 'billiard/connection.py', "def deliver_challenge(connection, authkey):\n    import hmac\n    assert isinstance(authkey, bytes)\n    message = os.urandom(MESSAGE_LENGTH)\n",
     "def deliver_challenge(connection, authkey, message=os.urandom(20)):\n    import hmac\n    assert isinstance(authkey, bytes)\n", 'R18.2'),
]
TWINS = [
    ('cache-dropped-with-pop', _M, "        try:\n            del BaseProxy._address_to_local[address]\n        except KeyError:\n            pass\n",
     "        BaseProxy._address_to_local.pop(address, None)\n"),
    ('dead-server-early-exit-with-cleanup', _M, "        if process.is_alive():\n            util.info('sending shutdown message to manager')\n",
     "        if not process.is_alive():\n            state.value = State.SHUTDOWN\n            BaseProxy._address_to_local.pop(address, None)\n            return\n        if True:\n            util.info('sending shutdown message to manager')\n"),
    ('exposed-check-positive', _M, "                if methodname not in exposed:\n                    raise AttributeError(\n                        'method %r of %r object is not in exposed=%r' % (\n                            methodname, type(obj), exposed)\n                    )\n\n                function = getattr(obj, methodname)",
     "                if not (methodname in exposed):\n                    raise AttributeError(\n                        'method %r of %r object is not in exposed=%r' % (\n                            methodname, type(obj), exposed)\n                    )\n\n                function = getattr(obj, methodname)"),
]
