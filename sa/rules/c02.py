"""C02 — results equal the sequential computation: value, order, exception (structural clauses)."""
import ast

from ..model import walk_own, dotted
from .. import q
from ..exprnorm import poly, show
from .reduce import r12_1
from .c01 import feeder_state_is_per_sequence


def _p(text):
    return poly(ast.parse(text, mode='eval').body)


def r02_1(ctx):
    ctx.rule('R02.1', 'chunk layout agreement: batch i of the producer holds input positions [i*c, (i+1)*c); the '
                      'consumer writes result i to that slice and marks that range accepted; producer and consumer '
                      'use the same chunk size', floor=6)
    m = ctx.model
    gt = m.func('pool:Pool._get_tasks')
    P = gt.positional_params()
    func, it, size = P[-3:]
    sl = [c for (n, c) in q.calls(gt, 'itertools.islice')]
    ok = bool(sl) and all([ast.unparse(a) for a in c.args] == [it, size] for c in sl)
    ctx.ob('R02.1', '_get_tasks:batches-of-size', ok, gt, sl[0] if sl else None, 'x = tuple(itertools.islice(it, size))')
    ys = [n for n in walk_own(gt.node) if isinstance(n, ast.Yield)]
    xs = [ast.unparse(dn.ast.targets[0]) for (dn, t, v) in q.assigns(gt, None)
          if v is not None and any(c is x for c in sl for x in ast.walk(v))]
    ok = bool(ys) and bool(xs) and all(ast.unparse(y.value).replace(' ', '') == '(%s,%s)' % (func, xs[0]) for y in ys)
    ctx.ob('R02.1', '_get_tasks:yields-function-and-batch', ok, gt, ys[0] if ys else None, 'yield (func, x)')
    itd = [ast.unparse(v) for (dn, t, v) in q.assigns(gt, it) if v is not None]
    ctx.ob('R02.1', '_get_tasks:one-shared-iterator', itd == ['iter(%s)' % it], gt, None,
           'it = iter(it): successive islice calls continue where the last one stopped')
    # the generator ends exactly when a batch came back empty, and yields only non-empty ones -- whatever the loop
    # looks like (`while 1: x = ...; if not x: return; yield` or `x = ...; while x: yield; x = ...`)
    ok = bool(xs) and len(set(xs)) == 1
    rets = []
    if ok:
        gx = q.norm_guard(gt, ast.Name(id=xs[0], ctx=ast.Load()), True)[0]
        empty_edges = {(a, b) for (a, b, l) in q.outcome_edges(gt, gx, False)}
        for (a, l) in gt.cfg.pred[gt.cfg.exit.id]:
            if l == 'x' or a not in gt.cfg.live:
                continue
            na = gt.cfg.nodes[a]
            rets.append(na)
            if not ((a, gt.cfg.exit.id) in empty_edges or q.has_guard(gt, na, gx, False)):
                ok = False
        ok = ok and bool(rets) and all(q.has_guard(gt, n_, gx, True) for n_ in gt.cfg.where(
            lambda n: n.kind == 'stmt' and isinstance(n.ast, ast.Expr) and isinstance(n.ast.value, ast.Yield)))
        # every batch that is tested or yielded is a fresh one: each definition of x is the islice
        ok = ok and all(any(c is y for c in sl for y in ast.walk(v)) for (dn, t, v) in q.assigns(gt, xs[0]))
    ctx.ob('R02.1', '_get_tasks:stops-at-the-first-empty-batch', ok, gt, rets[0] if rets else None, 'if not x: return')
    ma = m.func('pool:Pool._map_async')
    gts = [c for (n, c) in q.calls(ma, 'Pool._get_tasks')]
    mr = [c for (n, c) in q.calls(ma, 'MapResult')]
    q.need(gts and mr, '_map_async does not chunk / build a MapResult')
    init = m.func('pool:MapResult.__init__')
    MP = init.positional_params()[1:]
    bound = {MP[i]: ast.unparse(a) for i, a in enumerate(mr[0].args) if i < len(MP)}
    ok = ast.unparse(gts[0].args[2]) == bound.get('chunksize') and bound.get('length') == 'len(%s)' % ast.unparse(gts[0].args[1])
    ctx.ob('R02.1', '_map_async:same-chunk-size-and-length-on-both-sides', ok, ma, mr[0],
           '_get_tasks(func, iterable, %s) / MapResult(chunksize=%s, length=%s)' % (
               ast.unparse(gts[0].args[2]), bound.get('chunksize'), bound.get('length')))
    # the part index of the TASK message is the enumerate index of the batches
    gen = [g for g in walk_own(ma.node) if isinstance(g, ast.GeneratorExp)]
    ok = False
    for g in gen:
        comp = g.generators[0]
        if isinstance(comp.iter, ast.Call) and ma.callee(comp.iter) == 'enumerate' and \
                isinstance(comp.target, ast.Tuple) and isinstance(g.elt, ast.Tuple):
            idx, item = [ast.unparse(e) for e in comp.target.elts]
            batches = ast.unparse(comp.iter.args[0])
            bdef = [ast.unparse(v.func) for (dn, t, v) in q.assigns(ma, batches) if isinstance(v, ast.Call)]
            payload = g.elt.elts[1]
            ok = bdef == ['Pool._get_tasks'] and isinstance(payload, ast.Tuple) and \
                ast.unparse(payload.elts[1]) == idx and ast.unparse(payload.elts[3]).replace(' ', '') == '(%s,)' % item
    ctx.ob('R02.1', '_map_async:part-index-is-batch-number', ok, ma, None,
           '(TASK, (job, i, mapper, (x,), {})) for i, x in enumerate(task_batches)')
    st = m.func('pool:MapResult._set')
    I = st.positional_params()[1]
    subs = [t for (dn, t, v) in q.assigns(st, lambda t: t.startswith('self._value[')) if isinstance(t.slice, ast.Slice)]
    q.need(subs, 'MapResult._set writes no slice of self._value')
    lo, hi = subs[0].slice.lower, subs[0].slice.upper
    ok = lo is not None and hi is not None and poly(lo) == _p('%s * self._chunksize' % I) and \
        poly(hi) == _p('%s * self._chunksize + self._chunksize' % I)
    ctx.ob('R02.1', 'MapResult._set:writes-slice-[i*c,(i+1)*c)', ok, st, subs[0],
           'lower = %s, upper = %s' % (show(poly(lo)) if lo is not None else '?', show(poly(hi)) if hi is not None else '?'))
    val = [ast.unparse(v) for (dn, t, v) in q.assigns(st, lambda t: t.startswith('self._value['))]
    res = None
    for n in walk_own(st.node):
        if isinstance(n, ast.Assign) and isinstance(n.targets[0], ast.Tuple) and len(n.targets[0].elts) == 2 and \
                ast.unparse(n.value) == st.positional_params()[2]:
            res = ast.unparse(n.targets[0].elts[1])
    ctx.ob('R02.1', 'MapResult._set:stores-the-chunk-result', val == [res], st, None, 'self._value[...] = %s' % res)
    ak = m.func('pool:MapResult._ack')
    A = ak.positional_params()[1]
    # the loop that marks the items accepted runs over range(lo, hi); lo and hi are read through the locals that
    # name them (start / stop on the reference tree)
    ok = False
    for lp in walk_own(ak.node):
        if isinstance(lp, ast.For) and isinstance(lp.iter, ast.Call) and ak.callee(lp.iter) == 'range' and \
                len(lp.iter.args) == 2 and any(isinstance(x, ast.Attribute) and x.attr == '_accepted' for x in ast.walk(lp)):
            lo = ast.parse(q.expand(ak, lp.iter.args[0]), mode='eval').body
            sv = ast.parse(q.expand(ak, lp.iter.args[1]), mode='eval').body
            ok = poly(lo) == _p('%s * self._chunksize' % A)
            ok = ok and isinstance(sv, ast.Call) and isinstance(sv.func, ast.Name) and sv.func.id == 'min' and \
                len(sv.args) == 2 and \
                {str(sorted(poly(a).items())) for a in sv.args} == {
                    str(sorted(_p('%s * self._chunksize + self._chunksize' % A).items())),
                    str(sorted(_p('self._length').items()))}
    ctx.ob('R02.1', 'MapResult._ack:marks-range-[i*c,min((i+1)*c,length))', ok, ak, None,
           'start = i*c; stop = min((i+1)*c, length)')
    iv = init
    cs = [ast.unparse(v) for (dn, t, v) in q.assigns(iv, 'self._chunksize')]
    ln = [ast.unparse(v) for (dn, t, v) in q.assigns(iv, 'self._length')]
    vv = [ast.unparse(v).replace(' ', '') for (dn, t, v) in q.assigns(iv, 'self._value')]
    ctx.ob('R02.1', 'MapResult.__init__:stores-chunk-size-length-and-buffer', cs == ['chunksize'] and ln == ['length']
           and vv == ['[None]*length'], iv, None, '_chunksize = chunksize; _length = length; _value = [None] * length')


CEIL_FORMS = {
    'length//chunksize+bool(length%chunksize)', 'bool(length%chunksize)+length//chunksize',
    '(length+chunksize-1)//chunksize', '(length+(chunksize-1))//chunksize', '-(-length//chunksize)',
    'math.ceil(length/chunksize)', 'ceil(length/chunksize)',
}


def r02_2(ctx):
    ctx.rule('R02.2', 'the number of parts awaited is ceil(length / chunksize); an empty input resolves at once with an '
                      'empty value whatever chunk size was given; the default chunk size is a ceiling too', floor=5)
    m = ctx.model
    init = m.func('pool:MapResult.__init__')
    nl = [(dn, ast.unparse(v).replace(' ', '')) for (dn, t, v) in q.assigns(init, 'self._number_left')]
    pos = [(dn, v) for (dn, v) in nl if v != '0']
    ok = len(pos) == 1 and pos[0][1] in CEIL_FORMS and q.has_guard(init, pos[0][0], '0 < chunksize', True)
    if len(pos) == 1 and not ok:
        # quotient and remainder taken with divmod(length, chunksize): q + bool(r), q + (1 if r else 0), or q bumped under `if r`
        names = []
        for st_ in walk_own(init.node):
            if isinstance(st_, ast.Assign) and isinstance(st_.targets[0], ast.Tuple) and len(st_.targets[0].elts) == 2 and \
                    isinstance(st_.value, ast.Call) and init.callee(st_.value) == 'divmod' and \
                    [ast.unparse(a) for a in st_.value.args] == ['length', 'chunksize']:
                names = [ast.unparse(e) for e in st_.targets[0].elts]
        if len(names) == 2:
            qn, rn = names
            v = pos[0][1]
            forms = {'%s+bool(%s)' % (qn, rn), 'bool(%s)+%s' % (rn, qn), '%s+(1if%selse0)' % (qn, rn),
                     '%s+(%s!=0)' % (qn, rn), '%s+(%s>0)' % (qn, rn)}
            bump = [dn for (dn, t, vv) in q.assigns(init, qn) if isinstance(dn.ast, ast.AugAssign) and
                    ast.unparse(dn.ast.value) == '1' and q.has_guard(init, dn, rn, True)]
            ok = (v in forms or (v == qn and len(bump) == 1)) and q.has_guard(init, pos[0][0], '0 < chunksize', True)
    ctx.ob('R02.2', 'MapResult:parts-awaited-is-ceiling', ok, init, pos[0][0] if pos else None,
           '_number_left = %s (accepted ceiling forms)' % (pos[0][1] if pos else '?'))
    zero = [dn for (dn, v) in nl if v == '0']
    ev = q.nodes_calling(init, 'self._event.set')
    dl = [n for n in init.cfg.where(lambda n: n.kind == 'stmt' and isinstance(n.ast, ast.Delete) and
                                    'cache[self._job]' in ast.unparse(n.ast))]
    g = lambda n: q.has_guard(init, n, '0 < chunksize', False)
    ok = bool(zero) and bool(ev) and bool(dl) and all(g(n) for n in zero + ev + dl)
    empty_edges = q.outcome_edges(init, '0 < chunksize', False)
    r = init.cfg.reach([b for (a, b, l) in empty_edges], block_nodes={n.id for n in ev}, include_src=True, skip_labels=('x',))
    ok = ok and bool(empty_edges) and init.cfg.exit.id not in r
    ctx.ob('R02.2', 'MapResult:no-parts-means-resolved-and-uncached', ok, init, None,
           'chunksize <= 0: _number_left = 0, event set, entry removed from the cache')
    ma = m.func('pool:Pool._map_async')
    cfg = ma.cfg
    mr = q.nodes_calling(ma, 'MapResult')
    z = [dn for (dn, t, v) in q.assigns(ma, 'chunksize') if v is not None and not isinstance(v, ast.AugAssign)
         and ast.unparse(v) == '0']
    # "the input is empty": len(iterable) == 0, read in its normal form `not iterable` (sa/normalize.py)
    emp = q.outcome_edges(ma, q.eq_text('len(iterable)', '0'), True) | q.outcome_edges(ma, 'iterable', False)
    ok = bool(z) and bool(emp) and all(q.has_guard(ma, n, q.eq_text('len(iterable)', '0'), True) or
                                       q.has_guard(ma, n, 'iterable', False) for n in z)
    # the emptiness test is on every path to the MapResult, whatever chunksize was given
    tests = {a for (a, b, l) in emp}
    r = cfg.reach([cfg.entry.id], block_nodes=tests, include_src=True, skip_labels=('x',))
    ok = ok and not any(n.id in r for n in mr)
    # and on the empty outcome the zero assignment cannot be skipped
    r2 = cfg.reach([b for (a, b, l) in emp], block_nodes={n.id for n in z}, include_src=True, skip_labels=('x',))
    ok = ok and not any(n.id in r2 for n in mr)
    ctx.ob('R02.2', '_map_async:empty-input-forces-zero-chunks', ok, ma, z[0] if z else None,
           'if len(iterable) == 0: chunksize = 0 on every path to the MapResult (also with an explicit chunksize)')
    dv = [v for v in walk_own(ma.node) if isinstance(v, ast.Call) and ma.callee(v) == 'divmod']
    inc = [dn for (dn, t, v) in q.assigns(ma, 'chunksize') if isinstance(dn.ast, ast.AugAssign)]
    ok = len(dv) == 1 and ast.unparse(dv[0].args[0]) == 'len(iterable)' and bool(inc) and \
        all(q.has_guard(ma, n, 'extra', True) and q.has_guard(ma, n, 'chunksize is None', True) for n in inc)
    ctx.ob('R02.2', '_map_async:default-chunk-size-rounds-up', ok, ma, None,
           'chunksize, extra = divmod(len(iterable), ...); if extra: chunksize += 1 -- only when not given')
    ln = [ast.unparse(v) for (dn, t, v) in q.assigns(ma, 'iterable') if v is not None]
    ok = ln == ['list(iterable)'] and all(q.has_guard(ma, dn, "hasattr(iterable, '__len__')", False)
                                          for (dn, t, v) in q.assigns(ma, 'iterable'))
    ctx.ob('R02.2', '_map_async:input-materialised-once', ok, ma, None, 'iterable = list(iterable) when it has no len()')


def r02_3(ctx):
    ctx.rule('R02.3', 'imap releases items in input order: an item is released only at its own index (directly or from '
                      'the reorder buffer at key _index), every release advances the index by one, early items are '
                      'parked under their own index; the unordered variant releases and counts once per item', floor=8)
    m = ctx.model
    st = m.func('pool:IMapIterator._set')
    cfg = st.cfg
    I, O = st.positional_params()[1:3]
    apps = [(n, c) for (n, c) in q.calls(st, 'self._items.append')]
    incs = [dn for (dn, t, v) in q.assigns(st, 'self._index') if isinstance(dn.ast, ast.AugAssign)
            and isinstance(dn.ast.op, ast.Add) and ast.unparse(dn.ast.value) == '1']
    q.need(apps and incs, 'IMapIterator._set: release / index advance not found')
    inc_ids = {n.id for n in incs}
    app_ids = {n.id for (n, c) in apps}
    ok = True
    for (n, c) in apps:
        nxt = [b for (b, l) in cfg.succ[n.id] if l != 'x']
        prv = [a for (a, l) in cfg.pred[n.id] if l != 'x']
        ok = ok and (all(b in inc_ids for b in nxt) or all(a in inc_ids for a in prv))
    for n in incs:
        nxt = [b for (b, l) in cfg.succ[n.id] if l != 'x']
        prv = [a for (a, l) in cfg.pred[n.id] if l != 'x']
        ok = ok and (all(a in app_ids for a in prv) or all(b in app_ids for b in nxt))
    ctx.ob('R02.3', 'IMapIterator._set:release-and-advance-paired', ok and len(apps) == len(incs), st, apps[0][1],
           'each self._items.append(...) is adjacent to exactly one self._index += 1')
    own = q.eq_text('self._index', I)
    pops = [(dn, v) for (dn, t, v) in q.assigns(st, None) if isinstance(v, ast.Call) and st.callee(v) == 'self._unsorted.pop']
    for (n, c) in apps:
        arg = ast.unparse(c.args[0])
        loops_ = [w for w in cfg.where(lambda x: x.kind == 'loop') if q.inside(st, n, w.stmt.body)]
        if loops_:
            # released from the reorder buffer: the value must have been popped at key self._index in this iteration
            w0 = loops_[0]
            src = [dn for (dn, v) in pops if ast.unparse(dn.ast.targets[0]) == arg and
                   ast.unparse(v.args[0]) == 'self._index' and q.inside(st, dn, w0.stmt.body)]
            ok = bool(src) and ast.unparse(w0.stmt.test) == 'self._index in self._unsorted' and \
                q.every_iteration_passes(st, w0, src)[0] and cfg.must_pass([w0], [n], src, skip_labels=('x',))[0]
            if not ok and arg == 'self._unsorted.pop(self._index)':
                # the popped value is appended directly
                ok = ast.unparse(w0.stmt.test) == 'self._index in self._unsorted'
        else:
            ok = arg == O and q.has_guard(st, n, own, True)
        ctx.ob('R02.3', 'IMapIterator._set:item-released-only-at-its-index#L%d' % (c.lineno - st.node.lineno), ok, st, c,
               'appended under self._index == i, or popped from _unsorted at key self._index')
    park = [(dn, t) for (dn, t, v) in q.assigns(st, lambda t: t.startswith('self._unsorted[')) if ast.unparse(v) == O]
    direct = [c for (n, c) in apps if ast.unparse(c.args[0]) == O and
              not any(q.inside(st, n, w.stmt.body) for w in cfg.where(lambda x: x.kind == 'loop'))]
    # "every item goes through the buffer": parked unconditionally under its own index, never appended directly
    always_parked = bool(park) and not direct and all(
        ast.unparse(t.slice) == I and cfg.must_pass([cfg.entry], [cfg.exit], [dn], skip_labels=('x',))[0]
        for (dn, t) in park)
    ok = bool(park) and (always_parked or
                         all(ast.unparse(t.slice) == I and q.has_guard(st, dn, own, False) for (dn, t) in park))
    ctx.ob('R02.3', 'IMapIterator._set:early-item-parked-under-its-own-index', ok, st, park[0][0] if park else None,
           'self._unsorted[i] = obj when i is not the next index')
    drains = [w for w in cfg.where(lambda n: n.kind == 'loop') if ast.unparse(w.stmt.test) == 'self._index in self._unsorted']
    ok = bool(drains) and (always_parked or all(q.has_guard(st, w, own, True) for w in drains))
    ctx.ob('R02.3', 'IMapIterator._set:buffer-drained-while-next-is-present', ok, st, drains[0] if drains else None,
           'while self._index in self._unsorted: release it')
    nt = q.nodes_calling(st, 'self._cond.notify')
    ok = bool(nt) and all(cfg.must_pass([n], [cfg.exit], nt, skip_labels=('x',))[0] for (n, c) in apps
                          if not any(q.inside(st, n, w.stmt.body) for w in drains))
    ctx.ob('R02.3', 'IMapIterator._set:consumer-woken-after-release', ok, st, None, 'self._cond.notify() after releasing')
    # The consumer waits once and reads "woken, nothing to take, not finished" as a timeout: so a wake-up must
    # follow a release or the end of the sequence -- unless the consumer re-tests in a loop around the wait.
    nx0 = m.func('pool:IMapIterator.next')
    waits = q.nodes_calling(nx0, 'self._cond.wait')
    q.need(waits, 'IMapIterator.next: wait on the condition not found')
    loops_nx = [w for w in nx0.cfg.where(lambda x: x.kind == 'loop') if isinstance(w.stmt, ast.While)]
    rechecks = all(any(q.inside(nx0, wn, w.stmt.body) for w in loops_nx) for wn in waits)
    done = q.eq_text('self._index', 'self._length')
    for cls_ in [m.cls('pool:IMapIterator')] + list(m.subclasses(m.cls('pool:IMapIterator'), strict=True)):
        for name, mf in sorted(cls_.methods.items()):
            rel = q.nodes_calling(mf, 'self._items.append')
            for nn in q.nodes_calling(mf, 'self._cond.notify'):
                ok = rechecks or q.has_guard(mf, nn, done, True) or \
                    mf.cfg.must_pass([mf.cfg.entry], [nn], rel, skip_labels=('x',))[0]
                if not ok and mf is st and always_parked:
                    # the item was parked under i on every path: under `_index == i` (or `_index in _unsorted`) the
                    # drain loop that precedes the wake-up runs at least once
                    ok = (q.has_guard(mf, nn, own, True) or
                          q.has_guard(mf, nn, 'self._index in self._unsorted', True)) and \
                        any(mf.cfg.must_pass([mf.cfg.entry], [nn], [w], skip_labels=('x',))[0] for w in drains)
                ctx.ob('R02.3', '%s.%s:no-wake-up-without-a-release#%d' % (cls_.name, name, q.line(nn) - mf.node.lineno),
                       ok, mf, nn,
                       'every path to notify() released an item or ends the sequence' if ok else
                       'the consumer is woken although nothing was released: next() waits once and raises '
                       'TimeoutError when woken with nothing to take')
    us = m.func('pool:IMapUnorderedIterator._set')
    a2 ={n.id for (n, c) in q.calls(us, 'self._items.append') if ast.unparse(c.args[0]) == us.positional_params()[2]}
    i2 = {dn.id for (dn, t, v) in q.assigns(us, 'self._index') if isinstance(dn.ast, ast.AugAssign)
          and ast.unparse(dn.ast.value) == '1'}
    r1 = us.cfg.count_range([us.cfg.entry], [us.cfg.exit], lambda n: n.id in a2, skip_labels=('x',))
    r2 = us.cfg.count_range([us.cfg.entry], [us.cfg.exit], lambda n: n.id in i2, skip_labels=('x',))
    ctx.ob('R02.3', 'IMapUnorderedIterator._set:one-release-one-count-per-item', r1 == (1, 1) and r2 == (1, 1), us, None,
           'appends %r, increments %r on every normal path' % (r1, r2))
    nx = m.func('pool:IMapIterator.next')
    stops = [n for n in nx.cfg.where(lambda n: isinstance(n.ast, ast.Raise) and 'StopIteration' in ast.unparse(n.ast))]
    ok = bool(stops) and all(q.has_guard(nx, n, q.eq_text('self._index', 'self._length'), True) for n in stops)
    ctx.ob('R02.3', 'IMapIterator.next:stops-only-when-all-items-were-released', ok, nx, stops[0] if stops else None,
           'raise StopIteration only under self._index == self._length')
    pops = [(n, c) for (n, c) in q.calls(nx, 'self._items.popleft')]
    ctx.ob('R02.3', 'IMapIterator.next:takes-from-the-left', bool(pops) and not q.calls(nx, 'self._items.pop'), nx, None,
           'items leave in the order they were released')
    # "nothing buffered" and "finished? / wait" are decided in one critical section of the condition: an item (the
    # last one) released between an unlocked look at the buffer and the locked decision is missed
    def _locked(c):
        return any(isinstance(w, ast.With) and any(nx.canon(it.context_expr) == 'self._cond' for it in w.items) and
                   any(x is c for b in w.body for x in ast.walk(b)) for w in walk_own(nx.node))
    loose = [c for (n, c) in pops if not _locked(c)]
    ctx.ob('R02.3', 'IMapIterator.next:buffer-looked-at-under-the-condition', bool(pops) and not loose, nx,
           loose[0] if loose else None,
           'every self._items.popleft() is inside `with self._cond`' if not loose else
           'the buffer is looked at without the condition: a result delivered between that look and the locked '
           '"all items released?" test makes next() raise StopIteration with the item still buffered')
    rz = [n for n in nx.cfg.where(lambda n: isinstance(n.ast, ast.Raise) and n.ast.exc is not None
                                  and ast.unparse(n.ast.exc) == 'Exception(value)')]
    ok = bool(rz) and all(q.has_guard(nx, n, 'success', False) for n in rz)
    ctx.ob('R02.3', 'IMapIterator.next:failed-item-raises-at-its-position', ok, nx, rz[0] if rz else None,
           'raise Exception(value) for an item whose success flag is false, after which iteration can go on')
    sl = m.func('pool:IMapIterator._set_length')
    L = sl.positional_params()[1]
    ok = any(ast.unparse(v) == L for (dn, t, v) in q.assigns(sl, 'self._length'))
    ctx.ob('R02.3', 'IMapIterator._set_length:records-the-announced-length', ok, sl, None, 'self._length = length')


def r02_4(ctx):
    ctx.rule('R02.4', 'the length announced to an imap iterator is the number of tasks fed: enumerate index + 1 after a '
                      'loop that completed without break, 0 for an empty input', floor=3)
    m = ctx.model
    fi = m.func('pool:TaskHandler.body')
    cfg = fi.cfg
    fors = sorted(cfg.where(lambda n: n.kind == 'for'), key=lambda n: n.stmt.lineno)
    q.need(len(fors) >= 2, 'TaskHandler.body loops not found')
    outer, inner = fors[0], fors[1]
    t = inner.stmt.target
    ok = isinstance(inner.stmt.iter, ast.Call) and fi.callee(inner.stmt.iter) == 'enumerate' and isinstance(t, ast.Tuple)
    idx = ast.unparse(t.elts[0]) if ok else '?'
    sl = [(n, c) for (n, c) in q.calls(fi, 'set_length')]
    q.need(sl, 'TaskHandler.body never announces a length')
    normal = [(n, c) for (n, c) in sl if q.inside(fi, n, inner.stmt.orelse)]
    ok = ok and bool(normal) and all(poly(c.args[0]) == _p('%s + 1' % idx) for (n, c) in normal)
    ctx.ob('R02.4', 'body:length-is-last-index-plus-one', ok, fi, normal[0][1] if normal else None,
           'set_length(%s + 1) in the else of `for %s, task in enumerate(taskseq)`' % (idx, idx))
    resets = [(dn, v) for (dn, t2, v) in q.assigns(fi, idx) if v is not None and q.inside(fi, dn, outer.stmt.body)
              and not q.inside(fi, dn, inner.stmt.body)]
    ok = bool(resets) and all(ast.unparse(v) == '-1' for dn, v in resets)
    ctx.ob('R02.4', 'body:empty-input-announces-zero', ok, fi, resets[0][0] if resets else None,
           '%s = -1 before the loop, so that an empty sequence announces length 0' % idx)
    ok = all(q.has_guard(fi, n, 'set_length', True) for (n, c) in sl)
    ctx.ob('R02.4', 'body:announced-only-when-asked', ok, fi, None, 'if set_length: set_length(...)')
    feeder_state_is_per_sequence(ctx, 'R02.4')
    # the announcement hook handed over is the iterator's own _set_length
    pool = m.cls('pool:Pool')
    n_ok = 0
    for name in ('imap', 'imap_unordered'):
        f2 = pool.methods[name]
        for (n, c) in q.calls(f2, 'self._taskqueue.put'):
            tup = c.args[0]
            if isinstance(tup, ast.Tuple) and len(tup.elts) == 2:
                n_ok += ast.unparse(tup.elts[1]) == 'result._set_length'
    ctx.ob('R02.4', 'imap:hands-over-its-own-_set_length', n_ok == 4, pool, None,
           '(tasks, result._set_length) at the four imap submission sites (%d)' % n_ok)


def r02_5(ctx):
    ctx.rule('R02.5', 'mapper agreement: map uses mapstar, starmap uses starmapstar, chunked imap uses mapstar and '
                      'flattens; the mappers materialise their results in order', floor=7)
    m = ctx.model
    pool = m.cls('pool:Pool')
    for name, mapper in (('map_async', 'mapstar'), ('starmap', 'starmapstar'), ('starmap_async', 'starmapstar')):
        fi = pool.methods[name]
        calls_ = [c for (n, c) in q.calls(fi, 'self._map_async')]
        ok = bool(calls_) and all(len(c.args) >= 3 and ast.unparse(c.args[2]) == mapper and
                                  ast.unparse(c.args[0]) == 'func' and ast.unparse(c.args[1]) == 'iterable' for c in calls_)
        ctx.ob('R02.5', '%s:uses-%s' % (name, mapper), ok, fi, calls_[0] if calls_ else None,
               'self._map_async(func, iterable, %s, ...)' % mapper)
    mp = pool.methods['map']
    ok = bool(q.calls(mp, 'self.map_async')) and '.get()' in ast.unparse(mp.node)
    ctx.ob('R02.5', 'map:is-map_async-get', ok, mp, None, 'self.map_async(func, iterable, chunksize).get()')
    ap = pool.methods['apply']
    ok = any([ast.unparse(a) for a in c.args] == ['func', 'args', 'kwds'] for (n, c) in q.calls(ap, 'self.apply_async'))
    ctx.ob('R02.5', 'apply:passes-args-and-kwargs-unchanged', ok, ap, None, 'self.apply_async(func, args, kwds).get()')
    aa = pool.methods['apply_async']
    msgs = [x for x in walk_own(aa.node) if isinstance(x, ast.Tuple) and len(x.elts) == 2 and ast.unparse(x.elts[0]) == 'TASK']
    ok = bool(msgs) and all([ast.unparse(e) for e in x.elts[1].elts[2:]] == ['func', 'args', 'kwds'] for x in msgs)
    ctx.ob('R02.5', 'apply_async:task-carries-func-args-kwds', ok, aa, msgs[0] if msgs else None, '(TASK, (job, None, func, args, kwds))')
    ms = m.func('pool:mapstar')
    rets = [ast.unparse(r.value).replace(' ', '') for r in walk_own(ms.node) if isinstance(r, ast.Return)]
    ctx.ob('R02.5', 'mapstar:list(map(*args))', rets == ['list(map(*args))'], ms, None, str(rets))
    ss = m.func('pool:starmapstar')
    rets = [ast.unparse(r.value).replace(' ', '') for r in walk_own(ss.node) if isinstance(r, ast.Return)]
    ctx.ob('R02.5', 'starmapstar:list(starmap(f, batch))', rets == ['list(itertools.starmap(args[0],args[1]))'], ss, None, str(rets))
    for name in ('imap', 'imap_unordered'):
        fi = pool.methods[name]
        gens = [g for g in walk_own(fi.node) if isinstance(g, ast.GeneratorExp) and isinstance(g.elt, ast.Tuple)
                and ast.unparse(g.elt.elts[0]) == 'TASK']
        one = [g for g in gens if ast.unparse(g.elt.elts[1].elts[2]) == 'func']
        chunked = [g for g in gens if ast.unparse(g.elt.elts[1].elts[2]) == 'mapstar']
        ok = len(one) == 1 and len(chunked) == 1 and \
            ast.unparse(one[0].generators[0].iter) == 'enumerate(iterable)' and \
            ast.unparse(chunked[0].generators[0].iter) == 'enumerate(task_batches)'
        ctx.ob('R02.5', '%s:item-tasks-and-chunk-tasks' % name, ok, fi, None,
               'chunksize 1: (func, (x,)) per item; otherwise (mapstar, (batch,)) per batch, both numbered by enumerate')
        flat = [r for r in walk_own(fi.node) if isinstance(r, ast.Return) and r.value is not None and
                isinstance(r.value, ast.GeneratorExp)]
        ok = bool(flat) and all(ast.unparse(r.value).replace(' ', '') == '(itemforchunkinresultforiteminchunk)' for r in flat)
        ctx.ob('R02.5', '%s:chunks-flattened-in-order' % name, ok, fi, flat[0] if flat else None,
               '(item for chunk in result for item in chunk)')
        g = [c for (n, c) in q.calls(fi, 'Pool._get_tasks')]
        ok = bool(g) and all([ast.unparse(a) for a in c.args] == ['func', 'iterable', 'chunksize'] for c in g)
        ctx.ob('R02.5', '%s:batches-of-chunksize' % name, ok, fi, None, 'Pool._get_tasks(func, iterable, chunksize)')


def run(ctx):
    from .sweep import r02_9 as _r02_9
    _r02_9(ctx)
    # a result is handed to its handle whatever the per-worker tables hold (borrowed from C01): a KeyError between the
    # cache lookup and _set throws the value away
    from .c01 import r01_4 as _r01_4b
    from ..report import Only as _OnlyS2
    _r01_4b(_OnlyS2(ctx, ('on_ready:on_ready_counters-lookup-cannot-raise-into-the-dispatcher',), floor=1, doc='no table lookup in on_ready can raise into the dispatcher before the result reached its handle'))
    r02_1(ctx)
    r02_2(ctx)
    r02_3(ctx)
    r02_4(ctx)
    r02_5(ctx)
    r12_1(ctx, rule='R02.6', modules=('einfo',), floor=5)
    from .c12 import r12_5, r12_2, task_failure_record
    r12_5(ctx)
    r12_2(ctx)
    task_failure_record(ctx, 'R02.8')
    # the reorder buffer, the item queue and the value list of a handle belong to that handle alone
    from .generic import per_instance_state
    per_instance_state(ctx, 'R02.7', ['pool'], floor=8)
    ctx.note('equality with a sequential map for all functions and inputs, pickling fidelity and which error a '
             'failed map reports are runtime facts and are not decided')


_P = 'billiard/pool.py'
MUTANTS = [
    ('map-parts-not-counted', 'billiard/pool.py', '                self._number_left -= 1\n', '', 'R02.9'),
    ('map-ready-after-the-first-part', 'billiard/pool.py', '                if self._number_left == 0:\n                    if self._callback:\n', '                if self._number_left >= 0:\n                    if self._callback:\n', 'R02.9'),
    ('reorder-buffer-shared-by-all-iterators', _P,
     "    _worker_lost = None\n\n    def __init__(self, cache, lost_worker_timeout=LOST_WORKER_TIMEOUT):\n        self._cond = threading.Condition(threading.Lock())\n        self._job = next(job_counter)\n        self._cache = cache\n        self._items = deque()\n        self._index = 0\n        self._length = None\n        self._ready = False\n        self._unsorted = {}\n",
     "    _worker_lost = None\n    _unsorted = {}\n\n    def __init__(self, cache, lost_worker_timeout=LOST_WORKER_TIMEOUT):\n        self._cond = threading.Condition(threading.Lock())\n        self._job = next(job_counter)\n        self._cache = cache\n        self._items = deque()\n        self._index = 0\n        self._length = None\n        self._ready = False\n", 'R02.7'),
    ('item-queue-shared-by-all-iterators', _P,
     "    _worker_lost = None\n\n    def __init__(self, cache, lost_worker_timeout=LOST_WORKER_TIMEOUT):\n        self._cond = threading.Condition(threading.Lock())\n        self._job = next(job_counter)\n        self._cache = cache\n        self._items = deque()\n",
     "    _worker_lost = None\n    _items = deque()\n\n    def __init__(self, cache, lost_worker_timeout=LOST_WORKER_TIMEOUT):\n        self._cond = threading.Condition(threading.Lock())\n        self._job = next(job_counter)\n        self._cache = cache\n", 'R02.7'),
    ('wake-up-for-a-parked-item', _P, "                self._cond.notify()\n            else:\n                self._unsorted[i] = obj\n",
     "            else:\n                self._unsorted[i] = obj\n            self._cond.notify()\n", 'R02.3'),
    ('wake-up-when-parking', _P, "                self._unsorted[i] = obj\n", "                self._unsorted[i] = obj\n                self._cond.notify()\n", 'R02.3'),
    ('traceback-depth-not-advanced', 'billiard/einfo.py', "depth + 1", "depth", 'R12.2'),
    ('slice-off-by-one', _P, "self._value[i * self._chunksize:(i + 1) * self._chunksize] = result", "self._value[i * self._chunksize:(i + 1) * self._chunksize - 1] = result", 'R02.1'),
    ('slice-by-index-only', _P, "self._value[i * self._chunksize:(i + 1) * self._chunksize] = result", "self._value[i:(i + 1)] = result", 'R02.1'),
    ('batches-other-size', _P, "        task_batches = Pool._get_tasks(func, iterable, chunksize)\n        result = MapResult(self._cache, chunksize, len(iterable), callback,",
     "        task_batches = Pool._get_tasks(func, iterable, chunksize + 1)\n        result = MapResult(self._cache, chunksize, len(iterable), callback,", 'R02.1'),
    ('batches-restart-iterator', _P, "        it = iter(it)\n        while 1:\n            x = tuple(itertools.islice(it, size))", "        while 1:\n            x = tuple(itertools.islice(iter(it), size))", 'R02.1'),
    ('ack-range-shifted', _P, "        start = i * self._chunksize\n        stop = min((i + 1) * self._chunksize, self._length)", "        start = i * self._chunksize + 1\n        stop = min((i + 1) * self._chunksize, self._length)", 'R02.1'),
    ('parts-floor', _P, "            self._number_left = length // chunksize + bool(length % chunksize)", "            self._number_left = length // chunksize", 'R02.2'),
    ('empty-only-default-chunks', _P, "            if extra:\n                chunksize += 1\n        if len(iterable) == 0:\n            chunksize = 0\n", "            if extra:\n                chunksize += 1\n            if len(iterable) == 0:\n                chunksize = 0\n", 'R02.2'),
    ('empty-map-stays-cached', _P, "            self._number_left = 0\n            self._event.set()\n            del cache[self._job]", "            self._number_left = 0\n            self._event.set()", 'R02.2'),
    ('default-chunks-floor', _P, "            if extra:\n                chunksize += 1\n        if len(iterable) == 0:", "        if len(iterable) == 0:", 'R02.2'),
    ('imap-release-without-advance', _P, "                while self._index in self._unsorted:\n                    obj = self._unsorted.pop(self._index)\n                    self._items.append(obj)\n                    self._index += 1",
     "                while self._index in self._unsorted:\n                    obj = self._unsorted.pop(self._index)\n                    self._items.append(obj)", 'R02.3'),
    ('imap-drain-once', _P, "                while self._index in self._unsorted:\n                    obj = self._unsorted.pop(self._index)", "                if self._index in self._unsorted:\n                    obj = self._unsorted.pop(self._index)", 'R02.3'),
    ('imap-pop-wrong-key', _P, "                    obj = self._unsorted.pop(self._index)", "                    obj = self._unsorted.pop(i)", 'R02.3'),
    ('imap-early-item-released', _P, "            else:\n                self._unsorted[i] = obj\n\n            if self._index == self._length:", "            else:\n                self._items.append(obj)\n                self._index += 1\n\n            if self._index == self._length:", 'R02.3'),
    ('imap-stop-early', _P, "            except IndexError:\n                if self._index == self._length:\n                    self._ready = True\n                    raise StopIteration\n                self._cond.wait(timeout)",
     "            except IndexError:\n                if self._length is not None:\n                    self._ready = True\n                    raise StopIteration\n                self._cond.wait(timeout)", 'R02.3'),
    ('unordered-double-count', _P, "            self._items.append(obj)\n            self._index += 1\n            self._cond.notify()\n            if self._index == self._length:\n                self._ready = True\n                del self._cache[self._job]\n\n#\n#\n#",
     "            self._items.append(obj)\n            self._index += 1\n            if obj[0]:\n                self._index += 1\n            self._cond.notify()\n            if self._index == self._length:\n                self._ready = True\n                del self._cache[self._job]\n\n#\n#\n#", 'R02.3'),
    ('length-is-last-index', _P, "                    if set_length:\n                        debug('doing set_length()')\n                        set_length(i + 1)\n                    continue", "                    if set_length:\n                        debug('doing set_length()')\n                        set_length(i)\n                    continue", 'R02.4'),
    ('index-not-reset', _P, "            task = None\n            i = -1\n            try:", "            task = None\n            try:", 'R02.4'),
    ('task-hoisted', _P, "        for taskseq, set_length in iter(taskqueue.get, None):\n            task = None\n            i = -1", "        task = None\n        for taskseq, set_length in iter(taskqueue.get, None):\n            i = -1", 'R02.4'),
    ('starmap-uses-mapstar', _P, "            return self._map_async(func, iterable,\n                                   starmapstar, chunksize).get()", "            return self._map_async(func, iterable,\n                                   mapstar, chunksize).get()", 'R02.5'),
    ('mapstar-lazy', _P, "def mapstar(args):\n    return list(map(*args))", "def mapstar(args):\n    return map(*args)", 'R02.5'),
    ('imap-chunks-not-flattened', _P, "            return (item for chunk in result for item in chunk)\n\n    def imap_unordered", "            return result\n\n    def imap_unordered", 'R02.5'),
    ('apply-drops-kwargs', _P, "            return self.apply_async(func, args, kwds).get()", "            return self.apply_async(func, args).get()", 'R02.5'),
    ('reduce-swapped', 'billiard/einfo.py', "        return rebuild_exc, (self.exc, self.tb)", "        return rebuild_exc, (self.tb, self.exc)", 'R02.6'),
]
TWINS = [
    ('slice-distributed', _P, "self._value[i * self._chunksize:(i + 1) * self._chunksize] = result", "self._value[i * self._chunksize:i * self._chunksize + self._chunksize] = result"),
    ('parts-ceiling-other-form', _P, "            self._number_left = length // chunksize + bool(length % chunksize)", "            self._number_left = (length + chunksize - 1) // chunksize"),
    ('imap-advance-before-release', _P, "            if self._index == i:\n                self._items.append(obj)\n                self._index += 1\n                while", "            if self._index == i:\n                self._index += 1\n                self._items.append(obj)\n                while"),
]
