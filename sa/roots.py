"""Object roots: pool-level shared objects followed through constructor calls.

A root is named after what it is (cache, putlock, workers, ...).  Seeds are
attributes of ``Pool``; a root flows into another class when a Pool method
constructs that class passing ``self.<seed>`` and the constructor stores the
parameter in ``self.<attr>``.
"""
import ast

from .model import walk_own, dotted, AnalysisError

SEEDS = {
    '_cache': 'cache', '_putlock': 'putlock', '_pool': 'workers',
    '_on_ready_counters': 'counters', 'restart_state': 'limiter',
    '_taskqueue': 'taskqueue', '_outqueue': 'outqueue', '_inqueue': 'inqueue',
    '_quick_put': 'inq_put', '_poolctrl': 'poolctrl',
}


class Roots:
    def __init__(self, model):
        self.model = model
        self.table = {}          # (class qual, attr) -> root
        self.sites = []          # (caller fi, call, class, {param: root})
        pool = model.cls('pool:Pool')
        for c in model.subclasses(pool):
            for a, r in SEEDS.items():
                self.table[(c.qual, a)] = r
        changed = True
        rounds = 0
        while changed and rounds < 4:
            changed = False
            rounds += 1
            for fi in list(model.funcs.values()):
                if fi.module.name != 'pool' or fi.cls is None:
                    continue
                for call in [n for n in walk_own(fi.node) if isinstance(n, ast.Call)]:
                    target = self._class_of_callee(fi, call)
                    if target is None:
                        continue
                    init = model.method(target, '__init__')
                    if init is None:
                        continue
                    params = init.positional_params()[1:]
                    bound = {}
                    for i, a in enumerate(call.args):
                        if isinstance(a, ast.Starred) or i >= len(params):
                            break
                        r = self.root_of(fi, a)
                        if r:
                            bound[params[i]] = r
                    for k in call.keywords:
                        if k.arg:
                            r = self.root_of(fi, k.value)
                            if r:
                                bound[k.arg] = r
                    if not bound:
                        continue
                    self.sites.append((fi, call, target, bound))
                    # self.X = param in the constructor
                    owner = init.cls
                    for n in walk_own(init.node):
                        if isinstance(n, ast.Assign) and isinstance(n.value, ast.Name) \
                                and n.value.id in bound:
                            for t in n.targets:
                                if isinstance(t, ast.Attribute) and isinstance(t.value, ast.Name) \
                                        and t.value.id == 'self':
                                    for c in model.subclasses(owner):
                                        key = (c.qual, t.attr)
                                        if self.table.get(key) != bound[n.value.id]:
                                            self.table[key] = bound[n.value.id]
                                            changed = True
                    # parameters themselves are roots inside the constructor
                    for c in model.subclasses(owner):
                        for p, r in bound.items():
                            key = (c.qual + '.__init__', p)
                            self.table[key] = r

    def _class_of_callee(self, fi, call):
        m = self.model
        f = call.func
        d = dotted(f)
        if d is None:
            return None
        if d.startswith('self.') and d.count('.') == 1 and fi.cls is not None:
            v = m.class_attr(fi.cls, d.split('.')[1])
            if v is not None and dotted(v):
                return m.resolve_class(dotted(v), fi.module)
            return None
        return m.resolve_class(d, fi.module)

    def root_of(self, fi, expr):
        """root name denoted by expr inside fi, or None."""
        if expr is None:
            return None
        c = fi.canon(expr)
        if c.startswith('self.') and c.count('.') == 1 and fi.cls is not None:
            attr = c.split('.')[1]
            for k in self.model.mro(fi.cls):
                r = self.table.get((k.qual, attr))
                if r:
                    return r
        if isinstance(expr, ast.Name) or ('.' not in c and '(' not in c):
            # constructor parameter
            f = fi
            while f is not None:
                if f.cls is not None and f.name == '__init__':
                    for k in self.model.mro(f.cls):
                        r = self.table.get((k.qual + '.__init__', c))
                        if r:
                            return r
                f = f.parent
        return None


def roots(model):
    if not hasattr(model, '_roots'):
        model._roots = Roots(model)
    return model._roots
