"""Obligations, findings, known-findings matching, evidence, exit codes."""
import json
import os
import time

from .model import AnalysisError

VERIF = os.path.dirname(os.path.dirname(os.path.abspath(__file__)))
KNOWN_FILE = os.path.join(VERIF, 'known_findings.json')


class Obligation:
    __slots__ = ('rule', 'key', 'ok', 'file', 'qual', 'line', 'detail', 'path')

    def __init__(self, rule, key, ok, file, qual, line, detail, path):
        self.rule, self.key, self.ok = rule, key, bool(ok)
        self.file, self.qual, self.line = file, qual, line
        self.detail, self.path = detail, path

    def as_dict(self):
        d = {'rule': self.rule, 'key': self.key, 'verdict': 'holds' if self.ok else 'VIOLATED',
             'where': '%s:%s' % (self.file, self.line), 'function': self.qual,
             'detail': self.detail}
        if self.path:
            d['path'] = self.path
        return d


class Only:
    """View of a Ctx that keeps only the obligations of a shared rule that are necessary conditions of the property
    borrowing it: ``Only(ctx, ('owner', 'recorded'), floor=2)`` records an obligation iff its key contains one of the
    fragments; everything else of the Ctx is passed through."""

    def __init__(self, ctx, fragments, floor=1, doc=None):
        self._ctx, self._fragments, self._floor, self._doc = ctx, tuple(fragments), floor, doc

    def __getattr__(self, name):
        return getattr(self._ctx, name)

    def rule(self, rule, doc, floor=1):
        self._ctx.rule(rule, (self._doc or doc) + '  [only: %s]' % ', '.join(self._fragments), floor=self._floor)

    def ob(self, rule, key, ok, *a, **k):
        if any(f in key for f in self._fragments):
            return self._ctx.ob(rule, key, ok, *a, **k)
        return bool(ok)


class Except(Only):
    """The complement: everything of the borrowed rule but the obligations whose key contains a fragment."""

    def rule(self, rule, doc, floor=1):
        self._ctx.rule(rule, (self._doc or doc) + '  [without: %s]' % ', '.join(self._fragments),
                       floor=max(1, floor - len(self._fragments)))

    def ob(self, rule, key, ok, *a, **k):
        if not any(f in key for f in self._fragments):
            return self._ctx.ob(rule, key, ok, *a, **k)
        return bool(ok)


class Ctx:
    """One run of one property's rules over one model."""

    def __init__(self, model, prop, tier='quick'):
        self.model, self.prop, self.tier = model, prop, tier
        self.obs = []
        self.notes = []
        self.floors = {}
        self.rules_doc = {}
        self.assumptions = []

    def rule(self, rule, doc, floor=1):
        """Declare a rule: its one-line statement and the minimal number of
        instances it must range over (vacuity guard)."""
        self.rules_doc[rule] = doc
        self.floors[rule] = floor

    def ob(self, rule, key, ok, fi=None, node=None, detail='', path=None, line=None):
        """Record one obligation (rule instance).  ``fi`` a FuncInfo/ClassInfo,
        ``node`` an ast or CFG node for the line number."""
        file = qual = ''
        if fi is not None:
            qual = fi.qual
            file = fi.module.relpath
            if line is None and node is None:
                line = getattr(fi.node, 'lineno', 0)
        if line is None:
            line = 0
            if node is not None:
                line = getattr(node, 'lineno', None) or getattr(node, 'line', 0)
        if path is not None:
            path = ['L%d %s' % (n.line, n.text()) for n in path]
        self.obs.append(Obligation(rule, key, ok, file, qual, line, detail, path))
        return bool(ok)

    def note(self, text):
        self.notes.append(text)

    def assume(self, text):
        if text not in self.assumptions:
            self.assumptions.append(text)

    def check_floors(self):
        counts = {}
        for o in self.obs:
            counts[o.rule] = counts.get(o.rule, 0) + 1
        for r, fl in self.floors.items():
            if counts.get(r, 0) < fl:
                raise AnalysisError('rule %s ranged over %d instances, floor is %d '
                                    '(anchor vanished or rule vacuous)' % (r, counts.get(r, 0), fl))
        return counts

    def violations(self):
        return [o for o in self.obs if not o.ok]


def load_known():
    if not os.path.exists(KNOWN_FILE):
        return []
    with open(KNOWN_FILE) as f:
        return json.load(f).get('findings', [])


def split_known(prop, violations, known=None):
    """-> (known [(obligation, entry)], new [obligation])"""
    known = load_known() if known is None else known
    table = {}
    for e in known:
        if e.get('status') != 'known':
            continue
        table[(e['rule'], e['key'])] = e
    k, n = [], []
    for o in violations:
        e = table.get((o.rule, o.key))
        if e is not None and prop in e.get('properties', [prop]):
            k.append((o, e))
        else:
            n.append(o)
    return k, n


def write_evidence(ctx, wall, seed, extra=None, known=None, new=None, evidence_dir=None,
                   selftest=None):
    evidence_dir = evidence_dir or os.path.join(VERIF, 'evidence')
    os.makedirs(evidence_dir, exist_ok=True)
    counts = {}
    for o in ctx.obs:
        counts[o.rule] = counts.get(o.rule, 0) + 1
    m = ctx.model
    distinct = len({(o.rule, o.key) for o in ctx.obs})
    samples = []
    seen_rules = set()
    for o in ctx.obs:
        if o.rule not in seen_rules:
            seen_rules.add(o.rule)
            samples.append(o.as_dict())
    for o in ctx.violations():
        d = o.as_dict()
        if d not in samples:
            samples.append(d)
    discharged = sum(1 for o in ctx.obs if o.ok)
    evaluations = len(ctx.obs) + (selftest or {}).get('mutants_run', 0) + \
        (selftest or {}).get('twins_run', 0)
    cov = {
        'explanation': 'static analysis (stdlib ast): per-function CFG with exception edges, '
                       'dominance / must-pass / guard / path-count queries, alias and '
                       'constructor-root resolution, tuple-shape and reduce/rebuild matching; '
                       'each obligation is one rule instance decided on /repo\'s current source. '
                       'Only the structural clauses listed in DESIGN.md are decided, never the '
                       'runtime behaviour itself.',
        'obligations': len(ctx.obs),
        'discharged': discharged,
        'evaluations': evaluations,
        'distinct_nontrivial': distinct,
        'rule': 'one case = one (rule, instance key) obligation found by enumerating the '
                'constructs the rule ranges over in the working tree; all are non-trivial '
                '(a rule with fewer instances than its floor aborts the run); distinct by key',
        'exhaustive': True,
        'samples': samples[:40],
        'rules': {r: {'statement': ctx.rules_doc.get(r, ''), 'instances': counts.get(r, 0),
                      'floor': ctx.floors.get(r, 0)} for r in sorted(set(counts) | set(ctx.floors))},
        'analysed': dict(m.stats(), cfgs_built=sum(1 for f in m.funcs.values() if f._cfg is not None)),
        'not_analysed': m.not_analysed()[:60] + ['Modules/_billiard/*.c (not built on Python 3)'],
        'checker_cmd': '/venv/bin/python /verif/check.py %s --tier %s' % (ctx.prop, ctx.tier),
        'trusted_base': ['CPython ast module', 'configuration folding table (linux, CPython 3.12)',
                         'rule tables in /verif/sa/rules (anchors read off the code)'],
        'notes': ctx.notes,
        'known_findings': [{'rule': o.rule, 'key': o.key, 'what': e.get('what', '')}
                           for (o, e) in (known or [])],
        'new_violations': [o.as_dict() for o in (new or [])],
    }
    if selftest:
        cov['selftest'] = selftest
    if extra:
        cov.update(extra)
    ev = {
        'property_id': ctx.prop, 'tier': ctx.tier, 'seed': seed, 'level': 'other',
        'coverage': cov,
        'assumptions': ctx.assumptions,
        'wall_s': round(wall, 3),
        'violations': len(new or []),
    }
    path = os.path.join(evidence_dir, ctx.prop + '.json')
    with open(path, 'w') as f:
        json.dump(ev, f, indent=1, sort_keys=False)
    return path
