"""Fingerprints of local variables: how a local is *defined* inside its function, with every other local name
abstracted away.  Used to follow a pure rename of a local the rules refer to by name: when an anchored local is
missing and exactly one new local of the same function has the fingerprint the anchored one had on the reference
tree, the model reads the function with that local renamed back (positions are kept).  No unique match: no verdict,
as before."""
import ast


def _locals_of(fn):
    params, stores = set(), set()
    for n in ast.walk(fn):
        if isinstance(n, (ast.FunctionDef, ast.AsyncFunctionDef, ast.Lambda)):
            a = n.args
            for x in a.posonlyargs + a.args + a.kwonlyargs:
                params.add(x.arg)
            if a.vararg:
                params.add(a.vararg.arg)
            if a.kwarg:
                params.add(a.kwarg.arg)
        elif isinstance(n, ast.Name) and isinstance(n.ctx, (ast.Store, ast.Del)):
            stores.add(n.id)
        elif isinstance(n, ast.ExceptHandler) and n.name:
            stores.add(n.name)
    return {s for s in stores if s not in params}


def _abstract(expr, local_names):
    class T(ast.NodeTransformer):
        def visit_Name(self, node):
            if node.id in local_names:
                return ast.copy_location(ast.Name('_', node.ctx), node)
            return node
    import copy
    return ast.unparse(T().visit(copy.deepcopy(expr)))


def fingerprints(fn):
    """{local: tuple(sorted definition shapes)} for the FunctionDef fn"""
    L = _locals_of(fn)
    out = {l: [] for l in L}

    def bind(target, shape):
        if isinstance(target, ast.Name) and target.id in out:
            out[target.id].append(shape)
        elif isinstance(target, (ast.Tuple, ast.List)):
            for i, e in enumerate(target.elts):
                bind(e, shape + ('#%d/%d' % (i, len(target.elts)),))
        elif isinstance(target, ast.Starred):
            bind(target.value, shape + ('*',))

    for n in ast.walk(fn):
        if isinstance(n, ast.Assign):
            for t in n.targets:
                bind(t, ('=', _abstract(n.value, L)))
        elif isinstance(n, ast.AugAssign):
            bind(n.target, ('aug', type(n.op).__name__, _abstract(n.value, L)))
        elif isinstance(n, ast.AnnAssign) and n.value is not None:
            bind(n.target, ('=', _abstract(n.value, L)))
        elif isinstance(n, (ast.For, ast.AsyncFor)):
            bind(n.target, ('for', _abstract(n.iter, L)))
        elif isinstance(n, ast.comprehension):
            bind(n.target, ('comp', _abstract(n.iter, L)))
        elif isinstance(n, (ast.With, ast.AsyncWith)):
            for it in n.items:
                if it.optional_vars is not None:
                    bind(it.optional_vars, ('with', _abstract(it.context_expr, L)))
        elif isinstance(n, ast.ExceptHandler) and n.name in out:
            out[n.name].append(('except', ast.unparse(n.type) if n.type else ''))
        elif isinstance(n, ast.NamedExpr):
            bind(n.target, (':=', _abstract(n.value, L)))
    return {l: tuple(sorted(map(repr, v))) for l, v in out.items()}


def rename_in(fn, mapping):
    """rename locals of fn in place (Name nodes and `except ... as name`)"""
    for n in ast.walk(fn):
        if isinstance(n, ast.Name) and n.id in mapping:
            n.id = mapping[n.id]
        elif isinstance(n, ast.ExceptHandler) and n.name in mapping:
            n.name = mapping[n.name]
