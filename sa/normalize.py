"""Normal forms applied to every module before the rules look at it (sa/model.py), so that equivalent spellings of
the same code are read the same way.  "New" always means: not recorded for the reference tree in
rules/reference_names.json.

  default_idiom       X = A if C else X   ->   if C: X = A          (and  X = X if C else B  ->  if not C: X = B)
  fold_new_constants  a new module-level NAME = <literal>, assigned once, is replaced by the literal where it is read
  forward_new_locals  a new local with one definition is replaced by its definition where it is read, when that
                      cannot change what is computed:
                        - the definition reads only names and constants (no attribute, call or subscript), and none
                          of these names is assigned between the definition and the last use; or
                        - the definition reads attributes of names too, and the statements up to the last use contain
                          no with/while/try, no call other than a few pure builtins and no assignment to an attribute
                          of that name (a value read from shared state is not carried across a place where it could
                          change: that is exactly what a stale-copy defect looks like, and it stays visible); or
                        - any definition, read exactly once, in the head of the very next statement."""
import ast
import copy

PURE_CALLS = {'min', 'max', 'len', 'range', 'int', 'abs', 'isinstance', 'tuple', 'float', 'bool'}


def _negate(c):
    flip = {ast.Is: ast.IsNot, ast.IsNot: ast.Is, ast.Eq: ast.NotEq, ast.NotEq: ast.Eq, ast.In: ast.NotIn,
            ast.NotIn: ast.In, ast.Lt: ast.GtE, ast.GtE: ast.Lt, ast.Gt: ast.LtE, ast.LtE: ast.Gt}
    if isinstance(c, ast.Compare) and len(c.ops) == 1 and type(c.ops[0]) in flip:
        return ast.copy_location(ast.Compare(c.left, [flip[type(c.ops[0])]()], c.comparators), c)
    if isinstance(c, ast.UnaryOp) and isinstance(c.op, ast.Not):
        return c.operand
    return ast.copy_location(ast.UnaryOp(ast.Not(), c), c)


class _DefaultIdiom(ast.NodeTransformer):
    def visit_Assign(self, node):
        self.generic_visit(node)
        v = node.value
        if len(node.targets) == 1 and isinstance(node.targets[0], ast.Name) and isinstance(v, ast.IfExp):
            t = node.targets[0].id
            if isinstance(v.orelse, ast.Name) and v.orelse.id == t and not (isinstance(v.body, ast.Name) and v.body.id == t):
                new = ast.If(v.test, [ast.copy_location(ast.Assign(node.targets, v.body), node)], [])
                return ast.fix_missing_locations(ast.copy_location(new, node))
            if isinstance(v.body, ast.Name) and v.body.id == t:
                new = ast.If(_negate(v.test), [ast.copy_location(ast.Assign(node.targets, v.orelse), node)], [])
                return ast.fix_missing_locations(ast.copy_location(new, node))
        return node


def default_idiom(tree):
    return _DefaultIdiom().visit(tree)


def _literal(v):
    if isinstance(v, ast.Constant) and not isinstance(v.value, (bytes,)) or \
            (isinstance(v, ast.Constant) and isinstance(v.value, bytes)):
        return True
    if isinstance(v, ast.UnaryOp) and isinstance(v.op, ast.USub) and isinstance(v.operand, ast.Constant):
        return True
    return False


def fold_new_constants(tree, ref_names):
    """ref_names: the module-level names of this module on the reference tree (None: unknown module, nothing done)"""
    done = []
    if ref_names is None:
        return done
    cands = {}
    for st in tree.body:
        if isinstance(st, ast.Assign) and len(st.targets) == 1 and isinstance(st.targets[0], ast.Name) and \
                _literal(st.value) and st.targets[0].id not in ref_names:
            cands.setdefault(st.targets[0].id, []).append(st)
    if not cands:
        return done
    stores = {}
    for n in ast.walk(tree):
        if isinstance(n, ast.Name) and isinstance(n.ctx, (ast.Store, ast.Del)):
            stores[n.id] = stores.get(n.id, 0) + 1
        elif isinstance(n, (ast.Global, ast.Nonlocal)):
            for x in n.names:
                stores[x] = stores.get(x, 0) + 2
        elif isinstance(n, ast.arg):
            stores[n.arg] = stores.get(n.arg, 0) + 2
        elif isinstance(n, ast.alias):
            nm = (n.asname or n.name).split('.')[0]
            stores[nm] = stores.get(nm, 0) + 2
    consts = {k: v[0].value for k, v in cands.items() if len(v) == 1 and stores.get(k) == 1}
    if not consts:
        return done

    class T(ast.NodeTransformer):
        def visit_Name(self, node):
            if isinstance(node.ctx, ast.Load) and node.id in consts:
                done.append(node.id)
                new = copy.deepcopy(consts[node.id])
                for x in ast.walk(new):
                    ast.copy_location(x, node)
                return new
            return node
    T().visit(tree)
    return sorted(set(done))


def _head_exprs(st):
    if isinstance(st, (ast.Expr, ast.Return, ast.Assign, ast.AugAssign, ast.AnnAssign)):
        return [st.value] if getattr(st, 'value', None) is not None else []
    if isinstance(st, ast.If):
        return [st.test]
    if isinstance(st, ast.For):
        return [st.iter]
    if isinstance(st, ast.With):
        return [st.items[0].context_expr]
    if isinstance(st, ast.Raise):
        return [st.exc] if st.exc is not None else []
    return []


def _walk_unconditional(e):
    yield e
    if isinstance(e, (ast.Lambda, ast.ListComp, ast.SetComp, ast.DictComp, ast.GeneratorExp)):
        return
    if isinstance(e, ast.BoolOp):
        yield from _walk_unconditional(e.values[0])
        return
    if isinstance(e, ast.IfExp):
        yield from _walk_unconditional(e.test)
        return
    for c in ast.iter_child_nodes(e):
        if isinstance(c, ast.expr):
            yield from _walk_unconditional(c)
        elif isinstance(c, ast.keyword):
            yield from _walk_unconditional(c.value)


def _kind(rhs):
    """'names': only names/constants/operators; 'attrs': attributes of names too; None: anything else"""
    kind = 'names'
    for n in ast.walk(rhs):
        if isinstance(n, (ast.Name, ast.Constant, ast.UnaryOp, ast.BinOp, ast.Compare, ast.BoolOp, ast.Tuple,
                          ast.operator, ast.unaryop, ast.cmpop, ast.boolop, ast.expr_context)):
            continue
        if isinstance(n, ast.Attribute):
            kind = 'attrs'
            continue
        return None
    return kind


def _stmt_lists(fn):
    """every list of statements inside fn (not inside nested functions)"""
    todo = [fn.body]
    while todo:
        lst = todo.pop()
        yield lst
        for st in lst:
            if isinstance(st, (ast.FunctionDef, ast.AsyncFunctionDef, ast.ClassDef)):
                continue
            for fld in ('body', 'orelse', 'finalbody'):
                sub = getattr(st, fld, None)
                if isinstance(sub, list) and sub and isinstance(sub[0], ast.stmt):
                    todo.append(sub)
            for h in getattr(st, 'handlers', []):
                todo.append(h.body)
            for c in getattr(st, 'cases', []):
                todo.append(c.body)


def _forward_in(fn, ref_locals, top_level=True):
    done = []
    params = {a.arg for n in ast.walk(fn) if isinstance(n, ast.arguments)
              for a in n.args + n.kwonlyargs + n.posonlyargs + [x for x in (n.vararg, n.kwarg) if x]}
    declared = {x for n in ast.walk(fn) if isinstance(n, (ast.Global, ast.Nonlocal)) for x in n.names}
    now = set(params)
    for n in ast.walk(fn):
        if isinstance(n, ast.Name) and isinstance(n.ctx, (ast.Store, ast.Del)):
            now.add(n.id)
        elif isinstance(n, ast.ExceptHandler) and n.name:
            now.add(n.name)
        elif isinstance(n, (ast.FunctionDef, ast.ClassDef)):
            now.add(n.name)
        elif isinstance(n, ast.alias):
            now.add((n.asname or n.name).split('.')[0])
    if not top_level:
        now |= ref_locals
    if ref_locals - now:
        # a local of the reference tree is gone: one of the new names may be that local renamed, which is followed
        # elsewhere (check.py, sa/localfp.py); nothing is read through here
        return done
    for _round in range(8):
        binds, loads = {}, {}
        for n in ast.walk(fn):
            if isinstance(n, ast.Name):
                (loads if isinstance(n.ctx, ast.Load) else binds).setdefault(n.id, []).append(n)
            elif isinstance(n, ast.ExceptHandler) and n.name:
                binds.setdefault(n.name, []).append(n)
        deferred = set()      # names read inside nested functions, lambdas
        for n in ast.walk(fn):
            if isinstance(n, (ast.FunctionDef, ast.AsyncFunctionDef, ast.Lambda)) and n is not fn:
                deferred |= {x.id for x in ast.walk(n) if isinstance(x, ast.Name)}
        progress = False
        for lst in _stmt_lists(fn):
            for i, st in enumerate(lst):
                if not (isinstance(st, ast.Assign) and len(st.targets) == 1 and isinstance(st.targets[0], ast.Name)):
                    continue
                v = st.targets[0].id
                if v in ref_locals or v in params or v in declared or v in deferred or len(binds.get(v, [])) != 1 \
                        or not loads.get(v):
                    continue
                uses = loads[v]
                if any(x is u for u in uses for x in ast.walk(st.value)):
                    continue
                # every use in the statements that follow in this list
                following = lst[i + 1:]
                where = []
                for u in uses:
                    k = next((j for j, s2 in enumerate(following) if any(x is u for x in ast.walk(s2))), None)
                    where.append(k)
                if any(k is None for k in where):
                    continue
                last = max(where)
                span = following[:last + 1]
                kind = _kind(st.value)
                ok = False
                if len(uses) == 1 and where[0] == 0 and any(
                        x is uses[0] for e in _head_exprs(following[0]) for x in _walk_unconditional(e)):
                    ok = True
                elif kind is not None:
                    roots = {n.id for n in ast.walk(st.value) if isinstance(n, ast.Name)}
                    restored = {x.id for s2 in span for x in ast.walk(s2)
                                if isinstance(x, ast.Name) and isinstance(x.ctx, (ast.Store, ast.Del))}
                    in_loop_rebind = False
                    if roots & restored:
                        ok = False
                    elif kind == 'names':
                        ok = True
                    else:
                        ok = True
                        attrs = {n.attr for n in ast.walk(st.value) if isinstance(n, ast.Attribute)}
                        for s2 in span:
                            for x in ast.walk(s2):
                                if isinstance(x, (ast.With, ast.While, ast.Try, ast.Yield, ast.YieldFrom, ast.Await)):
                                    ok = False
                                elif isinstance(x, ast.Call) and not (
                                        isinstance(x.func, ast.Name) and x.func.id in PURE_CALLS):
                                    ok = False
                                elif isinstance(x, ast.Attribute) and isinstance(x.ctx, (ast.Store, ast.Del)) and \
                                        x.attr in attrs:
                                    ok = False
                    del in_loop_rebind
                if not ok:
                    continue

                class T(ast.NodeTransformer):
                    def visit_Name(self, node):
                        if node.id == v and isinstance(node.ctx, ast.Load):
                            new = copy.deepcopy(st.value)
                            for x in ast.walk(new):
                                if isinstance(x, (ast.expr, ast.stmt)):
                                    ast.copy_location(x, node)
                            return new
                        return node
                for s2 in span:
                    T().visit(s2)
                del lst[i]
                if not lst:
                    lst.append(ast.copy_location(ast.Pass(), st))
                done.append(v)
                progress = True
                break
            if progress:
                break
        if not progress:
            break
    return done


def forward_new_locals(tree, modname, ref_locals):
    """ref_locals: {qualified function name: [local names on the reference tree]}"""
    done = []
    if not ref_locals:
        return done

    def visit(body, prefix):
        for st in body:
            if isinstance(st, (ast.FunctionDef, ast.AsyncFunctionDef)):
                q = '%s:%s%s' % (modname, prefix, st.name)
                if q in ref_locals:
                    for v in _forward_in(st, set(ref_locals[q])):
                        done.append('%s.%s' % (q, v))
                    for sub in ast.walk(st):
                        if isinstance(sub, (ast.FunctionDef, ast.AsyncFunctionDef)) and sub is not st:
                            for v in _forward_in(sub, set(ref_locals[q]), False):
                                done.append('%s.%s.%s' % (q, sub.name, v))
            elif isinstance(st, ast.ClassDef):
                visit(st.body, prefix + st.name + '.')
            elif isinstance(st, (ast.If, ast.Try)):
                for fld in ('body', 'orelse', 'finalbody'):
                    visit(getattr(st, fld, []) or [], prefix)
                for h in getattr(st, 'handlers', []):
                    visit(h.body, prefix)
    visit(tree.body, '')
    return done
