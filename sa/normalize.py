"""Normal forms applied to every module before the rules look at it (sa/model.py), so that equivalent spellings of
the same code are read the same way.  "New" always means: not recorded for the reference tree in
rules/reference_names.json.

  default_idiom       X = A if C else X   ->   if C: X = A          (and  X = X if C else B  ->  if not C: X = B)
  fold_new_constants  a new module-level NAME = <literal>, assigned once, is replaced by the literal where it is read
  forward_new_locals  a new local with one definition is replaced by its definition where it is read, when that
                      cannot change what is computed:
                        - the definition reads only names and constants (no attribute, call or subscript), and none
                          of these names is assigned between the definition and the last use; or
                        - the definition reads attributes of names too, and the statements up to the last use contain
                          no with/while/try, no call other than a few pure builtins and no assignment to an attribute
                          of that name (a value read from shared state is not carried across a place where it could
                          change: that is exactly what a stale-copy defect looks like, and it stays visible); or
                        - any definition, read exactly once, in the head of the very next statement."""
import ast
import copy

PURE_CALLS = {'min', 'max', 'len', 'range', 'int', 'abs', 'isinstance', 'tuple', 'float', 'bool'}


def _negate(c):
    flip = {ast.Is: ast.IsNot, ast.IsNot: ast.Is, ast.Eq: ast.NotEq, ast.NotEq: ast.Eq, ast.In: ast.NotIn,
            ast.NotIn: ast.In, ast.Lt: ast.GtE, ast.GtE: ast.Lt, ast.Gt: ast.LtE, ast.LtE: ast.Gt}
    if isinstance(c, ast.Compare) and len(c.ops) == 1 and type(c.ops[0]) in flip:
        return ast.copy_location(ast.Compare(c.left, [flip[type(c.ops[0])]()], c.comparators), c)
    if isinstance(c, ast.UnaryOp) and isinstance(c.op, ast.Not):
        return c.operand
    return ast.copy_location(ast.UnaryOp(ast.Not(), c), c)


class _DefaultIdiom(ast.NodeTransformer):
    def visit_Assign(self, node):
        self.generic_visit(node)
        v = node.value
        if len(node.targets) == 1 and isinstance(node.targets[0], ast.Name) and isinstance(v, ast.IfExp):
            t = node.targets[0].id
            if isinstance(v.orelse, ast.Name) and v.orelse.id == t and not (isinstance(v.body, ast.Name) and v.body.id == t):
                new = ast.If(v.test, [ast.copy_location(ast.Assign(node.targets, v.body), node)], [])
                return ast.fix_missing_locations(ast.copy_location(new, node))
            if isinstance(v.body, ast.Name) and v.body.id == t:
                new = ast.If(_negate(v.test), [ast.copy_location(ast.Assign(node.targets, v.orelse), node)], [])
                return ast.fix_missing_locations(ast.copy_location(new, node))
        return node


def default_idiom(tree):
    return _DefaultIdiom().visit(tree)


def _all_stmt_lists(tree):
    for n in ast.walk(tree):
        for fld in ('body', 'orelse', 'finalbody'):
            sub = getattr(n, fld, None)
            if isinstance(sub, list) and sub and isinstance(sub[0], ast.stmt):
                yield sub


def _is_call_of(st, attr):
    """`<recv>.<attr>()` as a statement: the receiver's text, else None"""
    if isinstance(st, ast.Expr) and isinstance(st.value, ast.Call) and isinstance(st.value.func, ast.Attribute) and \
            st.value.func.attr == attr and not st.value.args and not st.value.keywords:
        return ast.unparse(st.value.func.value)
    return None


def with_form(tree):
    """X.acquire(); try: BODY finally: X.release()   ->   with X: BODY"""
    n = 0
    for lst in _all_stmt_lists(tree):
        i = 0
        while i + 1 < len(lst):
            recv = _is_call_of(lst[i], 'acquire')
            t = lst[i + 1]
            if recv is not None and isinstance(t, ast.Try) and not t.handlers and not t.orelse and \
                    len(t.finalbody) == 1 and _is_call_of(t.finalbody[0], 'release') == recv:
                w = ast.With([ast.withitem(lst[i].value.func.value, None)], t.body)
                ast.copy_location(w, lst[i])
                ast.fix_missing_locations(w)
                lst[i:i + 2] = [w]
                n += 1
            i += 1
    return n


class _SmallForms(ast.NodeTransformer):
    """one spelling for a few pairs of equivalent statements / expressions:
         with contextlib.suppress(E): BODY        ->  try: BODY  except E: pass
         for k in d.keys()  (also in comprehensions)  ->  for k in d
         isinstance(x, A) or isinstance(x, B)     ->  isinstance(x, (A, B))
         X.update({K: V})   (one pair, a statement)   ->  X[K] = V
         X.pop(K)           (a statement, no default) ->  del X[K]
    """

    def visit_With(self, node):
        self.generic_visit(node)
        if len(node.items) == 1 and node.items[0].optional_vars is None:
            c = node.items[0].context_expr
            if isinstance(c, ast.Call) and ast.unparse(c.func) in ('contextlib.suppress', 'suppress') and c.args and \
                    not c.keywords:
                typ = c.args[0] if len(c.args) == 1 else ast.Tuple(list(c.args), ast.Load())
                h = ast.ExceptHandler(typ, None, [ast.Pass()])
                new = ast.Try(node.body, [h], [], [])
                return ast.fix_missing_locations(ast.copy_location(new, node))
        return node

    @staticmethod
    def _strip_keys(it):
        if isinstance(it, ast.Call) and isinstance(it.func, ast.Attribute) and it.func.attr == 'keys' and \
                not it.args and not it.keywords:
            return it.func.value
        # a snapshot that is only iterated: tuple(x) is read as list(x)
        if isinstance(it, ast.Call) and isinstance(it.func, ast.Name) and it.func.id == 'tuple' and len(it.args) == 1 \
                and not it.keywords:
            return ast.copy_location(ast.Call(ast.copy_location(ast.Name('list', ast.Load()), it.func), it.args, []), it)
        return it

    def visit_For(self, node):
        self.generic_visit(node)
        node.iter = self._strip_keys(node.iter)
        return node

    def visit_comprehension(self, node):
        self.generic_visit(node)
        node.iter = self._strip_keys(node.iter)
        return node

    def visit_BoolOp(self, node):
        self.generic_visit(node)
        if isinstance(node.op, ast.Or) and len(node.values) >= 2 and all(
                isinstance(v, ast.Call) and isinstance(v.func, ast.Name) and v.func.id == 'isinstance' and
                len(v.args) == 2 and not v.keywords for v in node.values) and \
                len({ast.dump(v.args[0]) for v in node.values}) == 1:
            types = []
            for v in node.values:
                types.extend(v.args[1].elts if isinstance(v.args[1], ast.Tuple) else [v.args[1]])
            new = ast.Call(ast.Name('isinstance', ast.Load()), [node.values[0].args[0], ast.Tuple(types, ast.Load())], [])
            return ast.fix_missing_locations(ast.copy_location(new, node))
        return node

    def visit_Expr(self, node):
        self.generic_visit(node)
        c = node.value
        if isinstance(c, ast.Call) and isinstance(c.func, ast.Attribute) and not c.keywords:
            if c.func.attr == 'update' and len(c.args) == 1 and isinstance(c.args[0], ast.Dict) and \
                    len(c.args[0].keys) == 1 and c.args[0].keys[0] is not None:
                new = ast.Assign([ast.Subscript(c.func.value, c.args[0].keys[0], ast.Store())], c.args[0].values[0])
                return ast.fix_missing_locations(ast.copy_location(new, node))
            if c.func.attr == 'pop' and len(c.args) == 1 and not isinstance(c.args[0], ast.Starred) and \
                    isinstance(c.func.value, (ast.Name, ast.Attribute)) and \
                    not (isinstance(c.args[0], ast.Constant) and isinstance(c.args[0].value, int)):
                # (an integer literal is most likely a list position: list.pop(i) and del list[i] agree too)
                new = ast.Delete([ast.Subscript(c.func.value, c.args[0], ast.Del())])
                return ast.fix_missing_locations(ast.copy_location(new, node))
        return node


def _truth(e):
    """len(X) == 0 / len(X) > 0 / len(X) != 0 / len(X) >= 1 in a boolean position  ->  not X / X"""
    if isinstance(e, ast.Compare) and len(e.ops) == 1 and isinstance(e.left, ast.Call) and \
            isinstance(e.left.func, ast.Name) and e.left.func.id == 'len' and len(e.left.args) == 1 and \
            isinstance(e.comparators[0], ast.Constant) and isinstance(e.comparators[0].value, int):
        x, k, op = e.left.args[0], e.comparators[0].value, type(e.ops[0])
        if (op, k) in ((ast.Eq, 0), (ast.Lt, 1), (ast.LtE, 0)):
            return ast.copy_location(ast.UnaryOp(ast.Not(), x), e)
        if (op, k) in ((ast.Gt, 0), (ast.NotEq, 0), (ast.GtE, 1)):
            return x
    return e


class _SmallForms2(ast.NodeTransformer):
    """  del a, b / del (a, b)                      ->  del a; del b
         if len(x) == 0 / if len(x) > 0 (tests)     ->  if not x / if x
         X = X - E, X = X + E (X a plain name)      ->  X -= E, X += E
         super().m(...) in a class with one base B  ->  B.m(self, ...)
         for x in iter(lambda: tuple(E), ()): BODY  ->  while True: x = tuple(E); if not x: break; BODY
    """

    def __init__(self):
        self.base = []      # (single base name or None, receiver name) of the classes / methods we are inside

    def visit_Delete(self, node):
        flat = []
        for t in node.targets:
            flat.extend(t.elts if isinstance(t, (ast.Tuple, ast.List)) else [t])
        if len(flat) > 1:
            return [ast.fix_missing_locations(ast.copy_location(ast.Delete([t]), node)) for t in flat]
        node.targets = flat
        return node

    def visit_If(self, node):
        self.generic_visit(node)
        node.test = _truth(node.test)
        return node

    def visit_While(self, node):
        self.generic_visit(node)
        node.test = _truth(node.test)
        return node

    def visit_IfExp(self, node):
        self.generic_visit(node)
        node.test = _truth(node.test)
        return node

    def visit_BoolOp(self, node):
        self.generic_visit(node)
        node.values = [_truth(v) for v in node.values]
        return node

    def visit_UnaryOp(self, node):
        self.generic_visit(node)
        if isinstance(node.op, ast.Not):
            node.operand = _truth(node.operand)
            if isinstance(node.operand, ast.UnaryOp) and isinstance(node.operand.op, ast.Not):
                return node.operand.operand       # not not x in a test position is x
        return node

    def visit_Assign(self, node):
        self.generic_visit(node)
        v = node.value
        if len(node.targets) == 1 and isinstance(node.targets[0], ast.Name) and isinstance(v, ast.BinOp) and \
                isinstance(v.op, (ast.Add, ast.Sub)) and isinstance(v.left, ast.Name) and \
                v.left.id == node.targets[0].id and \
                not any(isinstance(x, ast.Name) and x.id == v.left.id for x in ast.walk(v.right)):
            return ast.copy_location(ast.AugAssign(node.targets[0], v.op, v.right), node)
        return node

    def visit_ClassDef(self, node):
        one = node.bases[0] if len(node.bases) == 1 and isinstance(node.bases[0], (ast.Name, ast.Attribute)) and \
            not node.keywords else None
        self.base.append(one)
        self.generic_visit(node)
        self.base.pop()
        return node

    def visit_FunctionDef(self, node):
        recv = node.args.args[0].arg if node.args.args else None
        static = any(isinstance(d, ast.Name) and d.id in ('staticmethod', 'classmethod') for d in node.decorator_list)
        self.base.append(('fn', None if static else recv))
        self.generic_visit(node)
        self.base.pop()
        return node

    def visit_Call(self, node):
        self.generic_visit(node)
        f = node.func
        if isinstance(f, ast.Attribute) and isinstance(f.value, ast.Call) and isinstance(f.value.func, ast.Name) and \
                f.value.func.id == 'super' and len(self.base) >= 2 and isinstance(self.base[-1], tuple) and \
                self.base[-1][1] and not isinstance(self.base[-2], tuple) and self.base[-2] is not None:
            import copy as _copy
            b = _copy.deepcopy(self.base[-2])
            recv = ast.Name(self.base[-1][1], ast.Load())
            new = ast.Call(ast.Attribute(b, f.attr, ast.Load()), [recv] + node.args, node.keywords)
            return ast.fix_missing_locations(ast.copy_location(new, node))
        return node

    def visit_For(self, node):
        self.generic_visit(node)
        it = node.iter
        if isinstance(it, ast.Call) and isinstance(it.func, ast.Name) and it.func.id == 'iter' and len(it.args) == 2 and \
                isinstance(it.args[0], ast.Lambda) and not it.args[0].args.args and not node.orelse and \
                isinstance(it.args[1], ast.Tuple) and not it.args[1].elts and \
                isinstance(it.args[0].body, ast.Call) and isinstance(it.args[0].body.func, ast.Name) and \
                it.args[0].body.func.id == 'tuple' and isinstance(node.target, ast.Name):
            x = node.target.id
            body = [ast.Assign([ast.Name(x, ast.Store())], it.args[0].body),
                    ast.If(ast.UnaryOp(ast.Not(), ast.Name(x, ast.Load())), [ast.Break()], [])] + node.body
            new = ast.While(ast.Constant(True), body, [])
            return ast.fix_missing_locations(ast.copy_location(new, node))
        return node


def counting_loops(tree):
    """i = A; while i < B: BODY; i += 1   (i not otherwise assigned in BODY, no continue in it, B not assigned in it)
       ->  for i in range(A, B): BODY        (range(B) when A is 0)"""
    n = 0
    for lst in _all_stmt_lists(tree):
        k = 0
        while k + 1 < len(lst):
            a, w = lst[k], lst[k + 1]
            if isinstance(a, ast.Assign) and len(a.targets) == 1 and isinstance(a.targets[0], ast.Name) and \
                    isinstance(w, ast.While) and not w.orelse and isinstance(w.test, ast.Compare) and \
                    len(w.test.ops) == 1 and isinstance(w.test.ops[0], ast.Lt) and \
                    isinstance(w.test.left, ast.Name) and w.test.left.id == a.targets[0].id and w.body and \
                    isinstance(w.body[-1], ast.AugAssign) and isinstance(w.body[-1].op, ast.Add) and \
                    isinstance(w.body[-1].target, ast.Name) and w.body[-1].target.id == a.targets[0].id and \
                    isinstance(w.body[-1].value, ast.Constant) and w.body[-1].value.value == 1:
                i = a.targets[0].id
                body = w.body[:-1]
                bound_names = {x.id for x in ast.walk(w.test.comparators[0]) if isinstance(x, ast.Name)}
                stores = {x.id for s in body for x in ast.walk(s) if isinstance(x, ast.Name) and
                          isinstance(x.ctx, (ast.Store, ast.Del))}

                def has_continue(stmts):
                    for s in stmts:
                        if isinstance(s, ast.Continue):
                            return True
                        if isinstance(s, (ast.For, ast.While, ast.FunctionDef, ast.AsyncFunctionDef)):
                            continue
                        for fld in ('body', 'orelse', 'finalbody'):
                            if has_continue(getattr(s, fld, []) or []):
                                return True
                        for h in getattr(s, 'handlers', []):
                            if has_continue(h.body):
                                return True
                    return False
                used_after = any(isinstance(x, ast.Name) and x.id == i for s in lst[k + 2:] for x in ast.walk(s))
                if body and i not in stores and not (bound_names & stores) and not has_continue(body) and not used_after:
                    start = a.value
                    args = [w.test.comparators[0]] if isinstance(start, ast.Constant) and start.value == 0 else \
                        [start, w.test.comparators[0]]
                    new = ast.For(ast.Name(i, ast.Store()), ast.Call(ast.Name('range', ast.Load()), args, []), body, [])
                    ast.copy_location(new, w)
                    ast.fix_missing_locations(new)
                    lst[k:k + 2] = [new]
                    n += 1
                    continue
            k += 1
    return n


def fold_struct_constants(tree):
    """NAME = struct.Struct(<literal format>) at module level, NAME.pack(..) / NAME.unpack(..) / NAME.size  ->
    struct.pack(<format>, ..) / struct.unpack(<format>, ..) / struct.calcsize(<format>)"""
    fmts = {}
    for st in tree.body:
        if isinstance(st, ast.Assign) and len(st.targets) == 1 and isinstance(st.targets[0], ast.Name) and \
                isinstance(st.value, ast.Call) and ast.unparse(st.value.func) in ('struct.Struct', 'Struct') and \
                len(st.value.args) == 1 and isinstance(st.value.args[0], ast.Constant):
            fmts[st.targets[0].id] = st.value.args[0]
    if not fmts:
        return 0
    n = 0

    class T(ast.NodeTransformer):
        def visit_Call(self, node):
            nonlocal n
            self.generic_visit(node)
            f = node.func
            if isinstance(f, ast.Attribute) and isinstance(f.value, ast.Name) and f.value.id in fmts and \
                    f.attr in ('pack', 'unpack', 'pack_into', 'unpack_from'):
                import copy as _copy
                new = ast.Call(ast.Attribute(ast.Name('struct', ast.Load()), f.attr, ast.Load()),
                               [_copy.deepcopy(fmts[f.value.id])] + node.args, node.keywords)
                n += 1
                return ast.fix_missing_locations(ast.copy_location(new, node))
            return node
    T().visit(tree)
    return n


def int_bytes_forms(tree):
    """n.to_bytes(4, 'big', signed=True) -> struct.pack('!i', n);  int.from_bytes(b, 'big', signed=True) ->
    struct.unpack('!i', b)[0]   (unsigned: '!I'; sizes 1/2/4/8 -> b/h/i/q).  `x = struct.unpack(f, b)[0]` is then
    read as `x, = struct.unpack(f, b)`.  The signedness is kept in the format, so a writer and a reader that disagree
    about it disagree about the format."""
    codes = {1: 'b', 2: 'h', 4: 'i', 8: 'q'}
    n = 0

    def kw(node, name, pos, default=None):
        for k in node.keywords:
            if k.arg == name:
                return k.value
        return node.args[pos] if len(node.args) > pos else default

    def fmt(size, order, signed):
        if not (isinstance(size, ast.Constant) and size.value in codes and isinstance(order, ast.Constant)
                and order.value in ('big', 'little')):
            return None
        sg = isinstance(signed, ast.Constant) and signed.value is True
        c = codes[size.value]
        return ('!' if order.value == 'big' else '<') + (c if sg else c.upper())

    class T(ast.NodeTransformer):
        def visit_Call(self, node):
            nonlocal n
            self.generic_visit(node)
            f = node.func
            if isinstance(f, ast.Attribute) and f.attr == 'to_bytes' and 1 <= len(node.args) + len(node.keywords) <= 3:
                fm = fmt(kw(node, 'length', 0), kw(node, 'byteorder', 1, ast.Constant('big')),
                         kw(node, 'signed', 2, ast.Constant(False)))
                if fm:
                    n += 1
                    new = ast.Call(ast.Attribute(ast.Name('struct', ast.Load()), 'pack', ast.Load()),
                                   [ast.Constant(fm), f.value], [])
                    return ast.fix_missing_locations(ast.copy_location(new, node))
            return node

        def visit_Assign(self, node):
            nonlocal n
            self.generic_visit(node)
            v = node.value
            if isinstance(v, ast.Call) and ast.unparse(v.func) == 'int.from_bytes' and v.args and \
                    len(node.targets) == 1 and isinstance(node.targets[0], ast.Name):
                order = kw(v, 'byteorder', 1, ast.Constant('big'))
                signed = kw(v, 'signed', 2, ast.Constant(False))
                sg = isinstance(signed, ast.Constant) and signed.value is True
                if isinstance(order, ast.Constant) and order.value in ('big', 'little'):
                    # the size is the reader's business (it reads calcsize bytes): assume the 4-byte header code
                    fm = ('!' if order.value == 'big' else '<') + ('i' if sg else 'I')
                    n += 1
                    call = ast.Call(ast.Attribute(ast.Name('struct', ast.Load()), 'unpack', ast.Load()),
                                    [ast.Constant(fm), v.args[0]], [])
                    new = ast.Assign([ast.Tuple([node.targets[0]], ast.Store())], call)
                    return ast.fix_missing_locations(ast.copy_location(new, node))
            return node
    T().visit(tree)
    return n


def flag_loops(tree):
    """A loop whose early exits are recorded in a boolean flag and tested right after it is read as for/else:

        FLAG = c                      for ...:
        for ...:                          ... break           (FLAG = not c dropped)
            ... FLAG = not c; break   else:
        if <FLAG is not c>: JUMP          REST; continue
        REST                          JUMP

    Conditions: FLAG is a local assigned only a boolean constant, once before the loop (same statement list) and, inside
    the loop, only directly before a `break` of that loop; every `break` of the loop is preceded by such an assignment;
    FLAG is read nowhere but in the test that directly follows the loop; JUMP is a single break / continue / return /
    raise; REST runs to the end of a statement list from whose end the next thing executed is the next iteration of
    the enclosing loop (each enclosing statement up to that loop is the last of its list; a `try` in between has no
    else / finally), so that `continue` is the same as falling off the end."""
    n = 0

    def const_bool(v):
        return isinstance(v, ast.Constant) and isinstance(v.value, bool)

    def breaks_of(loop):
        out = []

        def rec(lst, parent_lists):
            for i, st in enumerate(lst):
                if isinstance(st, ast.Break):
                    out.append((lst, i))
                elif isinstance(st, (ast.For, ast.While, ast.FunctionDef, ast.AsyncFunctionDef, ast.ClassDef)):
                    if isinstance(st, (ast.For, ast.While)):
                        rec(st.orelse, parent_lists)
                    continue
                else:
                    for f in ('body', 'orelse', 'finalbody'):
                        sub = getattr(st, f, None)
                        if isinstance(sub, list) and sub and isinstance(sub[0], ast.stmt):
                            rec(sub, parent_lists)
                    for h in getattr(st, 'handlers', []) or []:
                        rec(h.body, parent_lists)
        rec(loop.body, None)
        return out

    def tail_to_loop(fn, target_list):
        """Is falling off the end of target_list the same as `continue` of the nearest enclosing loop?"""
        # find the chain of (list, index) from fn down to target_list
        def find(lst, chain):
            if lst is target_list:
                return chain
            for i, st in enumerate(lst):
                for f in ('body', 'orelse', 'finalbody'):
                    sub = getattr(st, f, None)
                    if isinstance(sub, list) and sub and isinstance(sub[0], ast.stmt):
                        r = find(sub, chain + [(lst, i, st, f)])
                        if r is not None:
                            return r
                for h in getattr(st, 'handlers', []) or []:
                    r = find(h.body, chain + [(lst, i, st, 'handler')])
                    if r is not None:
                        return r
            return None
        chain = find(fn.body, [])
        if chain is None:
            return False
        for (lst, i, st, f) in reversed(chain):
            if isinstance(st, (ast.For, ast.While)):
                return f == 'body'
            if isinstance(st, (ast.FunctionDef, ast.AsyncFunctionDef, ast.ClassDef)):
                return False
            if isinstance(st, ast.Try):
                if f != 'body' or st.orelse or st.finalbody:
                    return False
            elif isinstance(st, ast.With):
                pass
            elif isinstance(st, ast.If):
                pass
            else:
                return False
            if i != len(lst) - 1:
                return False
        return False

    for fn in [x for x in ast.walk(tree) if isinstance(x, (ast.FunctionDef, ast.AsyncFunctionDef))]:
        changed = True
        while changed:
            changed = False
            for lst in _all_stmt_lists(fn):
                for k, loop in enumerate(lst):
                    if not (isinstance(loop, (ast.For, ast.While)) and not loop.orelse and k + 1 < len(lst)):
                        continue
                    test_if = lst[k + 1]
                    if not (isinstance(test_if, ast.If) and not test_if.orelse and len(test_if.body) == 1 and
                            isinstance(test_if.body[0], (ast.Break, ast.Continue, ast.Return, ast.Raise))):
                        continue
                    t = test_if.test
                    neg = False
                    if isinstance(t, ast.UnaryOp) and isinstance(t.op, ast.Not):
                        t, neg = t.operand, True
                    if not isinstance(t, ast.Name):
                        continue
                    flag = t.id
                    inits = []
                    for olst in _all_stmt_lists(fn):
                        for j, st in enumerate(olst):
                            if isinstance(st, ast.Assign) and len(st.targets) == 1 and \
                                    isinstance(st.targets[0], ast.Name) and st.targets[0].id == flag and \
                                    const_bool(st.value) and (olst is lst and j < k or olst is not lst and any(
                                        any(x is loop for x in ast.walk(later)) for later in olst[j + 1:])):
                                inits.append((olst, st))
                    if len(inits) != 1:
                        continue
                    c = inits[0][1].value.value
                    # the test must be true exactly when the flag was flipped: (flag, c False) or (not flag, c True)
                    if (not neg and c is not False) or (neg and c is not True):
                        continue
                    brs = breaks_of(loop)
                    if not brs:
                        continue
                    ok = True
                    marks = []
                    for (bl, bi) in brs:
                        prev = bl[bi - 1] if bi > 0 else None
                        if not (isinstance(prev, ast.Assign) and len(prev.targets) == 1 and
                                isinstance(prev.targets[0], ast.Name) and prev.targets[0].id == flag and
                                const_bool(prev.value) and prev.value.value is (not c)):
                            ok = False
                            break
                        marks.append((bl, prev))
                    if not ok:
                        continue
                    # no other use of the flag in the function
                    uses = [x for x in ast.walk(fn) if isinstance(x, ast.Name) and x.id == flag]
                    if len(uses) != 1 + len(marks) + 1:
                        continue
                    rest = lst[k + 2:]
                    if rest and not tail_to_loop(fn, lst):
                        continue
                    for (bl, prev) in marks:
                        bl.remove(prev)
                    inits[0][0].remove(inits[0][1])
                    k2 = lst.index(loop)
                    loop.orelse = (rest + [ast.copy_location(ast.Continue(), loop)]) if rest else \
                        [ast.copy_location(ast.Pass(), loop)]
                    del lst[k2 + 1:]
                    lst.append(test_if.body[0])
                    ast.fix_missing_locations(fn)
                    n += 1
                    changed = True
                    break
                if changed:
                    break
    return n


def new_from_imports(tree, ref_names):
    """A NEW module-level `from M import f [as g]` (g not a module-level name of the reference tree, M a standard
    module the reference code calls through its name: os, signal, errno, struct, time, sys) is read as M.f at every
    load of g that no local or parameter shadows."""
    mods = ('os', 'signal', 'errno', 'struct', 'sys', 'select', 'socket', 'itertools', 'bisect', 'threading')
    table = {}
    for st in tree.body:
        if isinstance(st, ast.ImportFrom) and st.level == 0 and st.module in mods:
            for a in st.names:
                g = a.asname or a.name
                if ref_names is not None and g not in ref_names and a.name != '*':
                    table[g] = (st.module, a.name)
    if not table:
        return []
    done = set()

    class T(ast.NodeTransformer):
        def __init__(self):
            self.shadow = [set()]

        def visit_FunctionDef(self, node):
            names = {a.arg for a in node.args.posonlyargs + node.args.args + node.args.kwonlyargs}
            if node.args.vararg:
                names.add(node.args.vararg.arg)
            if node.args.kwarg:
                names.add(node.args.kwarg.arg)
            for x in ast.walk(node):
                if isinstance(x, ast.Name) and isinstance(x.ctx, (ast.Store, ast.Del)):
                    names.add(x.id)
            self.shadow.append(self.shadow[-1] | names)
            self.generic_visit(node)
            self.shadow.pop()
            return node
        visit_AsyncFunctionDef = visit_FunctionDef
        visit_Lambda = visit_FunctionDef

        def visit_Name(self, node):
            if isinstance(node.ctx, ast.Load) and node.id in table and node.id not in self.shadow[-1]:
                m, f = table[node.id]
                done.add('%s -> %s.%s' % (node.id, m, f))
                return ast.copy_location(ast.Attribute(ast.Name(m, ast.Load()), f, ast.Load()), node)
            return node
    T().visit(tree)
    ast.fix_missing_locations(tree)
    return sorted(done)


def insort_form(tree):
    """L.insert(bisect.bisect_right(L, x), x)  (also bisect.bisect)  ->  bisect.insort(L, x);  bisect_left -> insort_left"""
    n = 0

    class T(ast.NodeTransformer):
        def visit_Call(self, node):
            nonlocal n
            self.generic_visit(node)
            f = node.func
            if isinstance(f, ast.Attribute) and f.attr == 'insert' and len(node.args) == 2 and not node.keywords and \
                    isinstance(node.args[0], ast.Call) and len(node.args[0].args) == 2:
                inner = node.args[0]
                name = ast.unparse(inner.func)
                if name in ('bisect.bisect_right', 'bisect.bisect', 'bisect.bisect_left') and \
                        ast.dump(inner.args[0]) == ast.dump(f.value) and ast.dump(inner.args[1]) == ast.dump(node.args[1]):
                    n += 1
                    new = ast.Call(ast.Attribute(ast.Name('bisect', ast.Load()),
                                                 'insort_left' if name.endswith('_left') else 'insort', ast.Load()),
                                   [f.value, node.args[1]], [])
                    return ast.fix_missing_locations(ast.copy_location(new, node))
            return node
    T().visit(tree)
    return n


def restore_closures(tree, modname, known, ref_locals=None):
    """a closure of the reference tree (mod:C.m.f) that became a NEW staticmethod C.g used by m only (as self.g / C.g /
    cls.g / type(self).g): read as the closure again -- `def f` nested at the top of m, the references as plain f."""
    done = []
    for c in [n for n in tree.body if isinstance(n, ast.ClassDef)]:
        for g in [st for st in list(c.body) if isinstance(st, ast.FunctionDef) and
                  (any(isinstance(d, ast.Name) and d.id == 'staticmethod' for d in st.decorator_list)
                   or (not st.decorator_list and st.args.args and st.args.args[0].arg == 'self'))]:
            if '%s:%s.%s' % (modname, c.name, g.name) in known:
                continue
            bound = not g.decorator_list
            users = []
            for m_ in c.body:
                if not isinstance(m_, ast.FunctionDef) or m_ is g or not m_.args.args:
                    continue
                recv = m_.args.args[0].arg
                refs = [x for x in ast.walk(m_) if isinstance(x, ast.Attribute) and x.attr == g.name and
                        ast.unparse(x.value) in ((recv,) if bound else
                                                 (recv, c.name, 'type(%s)' % recv, '%s.__class__' % recv))]
                if bound and recv != 'self':
                    refs = []
                if refs:
                    users.append((m_, refs))
            if len(users) != 1:
                continue
            m_, refs = users[0]
            prefix = '%s:%s.%s.' % (modname, c.name, m_.name)
            nested_now = {x.name for x in ast.walk(m_) if isinstance(x, ast.FunctionDef) and x is not m_}
            lost = sorted({k[len(prefix):] for k in known if k.startswith(prefix) and '.' not in k[len(prefix):]
                           and k[len(prefix):] not in nested_now})
            from_locals = False
            if not lost and ref_locals:
                bound_now = {x.id for x in ast.walk(m_) if isinstance(x, ast.Name)} | nested_now | \
                    {a.arg for a in m_.args.args}
                lost = sorted(n_ for n_ in ref_locals.get(prefix[:-1], []) if n_ not in bound_now)
                from_locals = True      # these may be plain variables that moved into a new helper: names must agree
            cands = [f for f in lost if f.lstrip('_') == g.name.lstrip('_')] or \
                (lost if len(lost) == 1 and not from_locals else [])
            if not cands:
                cands = sorted([f for f in lost if len(f.strip('_')) > 3 and f.strip('_') in g.name], key=len)[-1:]
            # `f = self.g` in m: the alias is the closure's old name
            alias = [st for st in ast.walk(m_) if isinstance(st, ast.Assign) and len(st.targets) == 1 and
                     isinstance(st.targets[0], ast.Name) and any(st.value is r for r in refs)]
            if alias and ref_locals and alias[0].targets[0].id in ref_locals.get(prefix[:-1], []):
                cands = [alias[0].targets[0].id]
                for lst_ in _all_stmt_lists(m_):
                    if alias[0] in lst_:
                        lst_.remove(alias[0])
                        if not lst_:
                            lst_.append(ast.copy_location(ast.Pass(), alias[0]))
            if len(cands) != 1:
                continue
            fname = cands[0]
            new = copy.deepcopy(g)
            new.name = fname
            new.decorator_list = []
            if bound:
                # a method used only as self.g inside m: the closure captures m's self
                new.args.args = new.args.args[1:]
            pos = 1 if (m_.body and isinstance(m_.body[0], ast.Expr) and isinstance(m_.body[0].value, ast.Constant)) else 0
            m_.body.insert(pos, ast.copy_location(new, m_.body[pos] if pos < len(m_.body) else m_))

            class T(ast.NodeTransformer):
                def visit_Attribute(self, node):
                    self.generic_visit(node)
                    if any(node is r for r in refs):
                        return ast.copy_location(ast.Name(fname, ast.Load()), node)
                    return node
            T().visit(m_)
            c.body.remove(g)
            ast.fix_missing_locations(tree)
            done.append('%s.%s -> %s.%s.%s' % (c.name, g.name, c.name, m_.name, fname))
    return done


def table_loops(tree):
    """for NAME in <constant tuple/list of strings, literal or a module-level constant>:
           setattr(OBJ, NAME, getattr(SRC, NAME))          ->  OBJ.a = SRC.a; OBJ.b = SRC.b; ...
    (the loop body is that single statement); and, in a class body,
       NAME = property(lambda self: EXPR)                  ->  @property def NAME(self): return EXPR"""
    n = 0
    consts = {}
    for st in tree.body:
        if isinstance(st, ast.Assign) and len(st.targets) == 1 and isinstance(st.targets[0], ast.Name) and \
                isinstance(st.value, (ast.Tuple, ast.List)) and st.value.elts and \
                all(isinstance(e, ast.Constant) and isinstance(e.value, str) and e.value.isidentifier()
                    for e in st.value.elts):
            consts[st.targets[0].id] = [e.value for e in st.value.elts]
    for lst in _all_stmt_lists(tree):
        i = 0
        while i < len(lst):
            st = lst[i]
            if isinstance(st, ast.For) and not st.orelse and isinstance(st.target, ast.Name) and len(st.body) == 1:
                names = None
                if isinstance(st.iter, ast.Name) and st.iter.id in consts:
                    names = consts[st.iter.id]
                elif isinstance(st.iter, (ast.Tuple, ast.List)) and st.iter.elts and \
                        all(isinstance(e, ast.Constant) and isinstance(e.value, str) and e.value.isidentifier()
                            for e in st.iter.elts):
                    names = [e.value for e in st.iter.elts]
                b = st.body[0]
                v = st.target.id
                if names and isinstance(b, ast.Expr) and isinstance(b.value, ast.Call) and \
                        isinstance(b.value.func, ast.Name) and b.value.func.id == 'setattr' and \
                        len(b.value.args) == 3 and isinstance(b.value.args[1], ast.Name) and \
                        b.value.args[1].id == v and isinstance(b.value.args[2], ast.Call) and \
                        isinstance(b.value.args[2].func, ast.Name) and b.value.args[2].func.id == 'getattr' and \
                        len(b.value.args[2].args) == 2 and isinstance(b.value.args[2].args[1], ast.Name) and \
                        b.value.args[2].args[1].id == v:
                    obj, src = b.value.args[0], b.value.args[2].args[0]
                    new = []
                    for nm in names:
                        a = ast.Assign([ast.Attribute(copy.deepcopy(obj), nm, ast.Store())],
                                       ast.Attribute(copy.deepcopy(src), nm, ast.Load()))
                        new.append(ast.fix_missing_locations(ast.copy_location(a, st)))
                    lst[i:i + 1] = new
                    n += 1
                    i += len(new)
                    continue
            i += 1
    for c in [x for x in ast.walk(tree) if isinstance(x, ast.ClassDef)]:
        for i, st in enumerate(list(c.body)):
            if isinstance(st, ast.Assign) and len(st.targets) == 1 and isinstance(st.targets[0], ast.Name) and \
                    isinstance(st.value, ast.Call) and isinstance(st.value.func, ast.Name) and \
                    st.value.func.id == 'property' and len(st.value.args) == 1 and not st.value.keywords and \
                    isinstance(st.value.args[0], ast.Lambda):
                lam = st.value.args[0]
                fn = ast.FunctionDef(name=st.targets[0].id, args=lam.args, body=[ast.Return(lam.body)],
                                     decorator_list=[ast.Name('property', ast.Load())], returns=None,
                                     type_comment=None, type_params=[])
                c.body[c.body.index(st)] = ast.fix_missing_locations(ast.copy_location(fn, st))
                n += 1
    return n


def restore_methods(tree, modname, known, ref_locals):
    """the reverse of restore_closures: a method of the reference tree (mod:C.g) that is gone, and a NEW nested function f
    (not a local of the reference tree's m) in a method m of C that captures nothing of m but `self`: read as the method
    again, the calls f(...) as self.g(...)."""
    done = []
    for c in [n for n in tree.body if isinstance(n, ast.ClassDef)]:
        have = {st.name for st in c.body if isinstance(st, ast.FunctionDef)}
        prefix = '%s:%s.' % (modname, c.name)
        missing = sorted({k[len(prefix):] for k in known if k.startswith(prefix) and '.' not in k[len(prefix):]
                          and k[len(prefix):] not in have})
        if not missing:
            continue
        for m_ in [st for st in list(c.body) if isinstance(st, ast.FunctionDef) and st.args.args]:
            recv = m_.args.args[0].arg
            old_locals = set((ref_locals or {}).get(prefix + m_.name, []))
            for f in [x for x in m_.body if isinstance(x, ast.FunctionDef) and x.name not in old_locals]:
                cands = [g for g in missing if g.strip('_') == f.name.strip('_')]
                if len(cands) != 1:
                    continue
                g = cands[0]
                own = {a.arg for a in f.args.args + f.args.kwonlyargs} | \
                    {x.id for x in ast.walk(f) if isinstance(x, ast.Name) and isinstance(x.ctx, (ast.Store, ast.Del))}
                outer = ({a.arg for a in m_.args.args} |
                         {x.id for x in ast.walk(m_) if isinstance(x, ast.Name) and isinstance(x.ctx, ast.Store)}) - {recv}
                captured = {x.id for x in ast.walk(f) if isinstance(x, ast.Name) and isinstance(x.ctx, ast.Load)
                            and x.id in outer and x.id not in own}
                if captured or any(isinstance(x, (ast.Nonlocal, ast.Global)) for x in ast.walk(f)):
                    continue
                new = copy.deepcopy(f)
                new.name = g
                new.args.args = [ast.arg(recv)] + new.args.args
                m_.body.remove(f)

                class T(ast.NodeTransformer):
                    def visit_Name(self, node):
                        if node.id == f.name and isinstance(node.ctx, ast.Load):
                            return ast.copy_location(ast.Attribute(ast.Name(recv, ast.Load()), g, ast.Load()), node)
                        return node
                T().visit(m_)
                c.body.insert(c.body.index(m_) + 1, new)
                ast.fix_missing_locations(tree)
                missing.remove(g)
                done.append('%s.%s.%s -> %s.%s' % (c.name, m_.name, f.name, c.name, g))
    return done


def small_forms(tree):
    tree = _SmallForms().visit(tree)
    tree = _SmallForms2().visit(tree)
    fold_struct_constants(tree)
    int_bytes_forms(tree)
    flag_loops(tree)
    table_loops(tree)
    counting_loops(tree)
    return tree


def signature_table(trees):
    """{'functions': {name: [param lists]}, 'methods': {name: [param lists without the receiver]},
        'nested': handled per function}: every definition of that name anywhere in the package"""
    functions, methods, by_class, bases = {}, {}, {}, {}

    def params(fn, drop_first):
        a = fn.args
        if a.posonlyargs:
            return None
        names = [x.arg for x in a.args]
        return names[1:] if drop_first else names

    for tree in trees:
        def visit(body, in_class):
            for st in body:
                if isinstance(st, (ast.FunctionDef, ast.AsyncFunctionDef)):
                    static = any(isinstance(d, ast.Name) and d.id == 'staticmethod' for d in st.decorator_list)
                    if in_class:
                        methods.setdefault(st.name, []).append(params(st, not static))
                        by_class.setdefault((in_class, st.name), []).append(params(st, not static))
                    else:
                        functions.setdefault(st.name, []).append(params(st, False))
                elif isinstance(st, ast.ClassDef):
                    bases.setdefault(st.name, []).extend(
                        b.id if isinstance(b, ast.Name) else b.attr for b in st.bases
                        if isinstance(b, (ast.Name, ast.Attribute)))
                    visit(st.body, st.name)
                elif isinstance(st, (ast.If, ast.Try)):
                    for fld in ('body', 'orelse', 'finalbody'):
                        visit(getattr(st, fld, []) or [], in_class)
                    for h in getattr(st, 'handlers', []):
                        visit(h.body, in_class)
        visit(tree.body, None)

    def lookup(cname, mname, seen=()):
        """the definitions of cname.mname, through the base classes of the package (by name)"""
        if cname in seen:
            return []
        if (cname, mname) in by_class:
            return by_class[(cname, mname)]
        out = []
        for b in bases.get(cname, []):
            out = lookup(b, mname, seen + (cname,))
            if out:
                break
        return out
    # calling a class of the package is calling its (possibly inherited) __init__
    for cname in bases:
        d = lookup(cname, '__init__')
        if d:
            functions.setdefault(cname, []).extend(d)
    return {'functions': functions, 'methods': methods, 'lookup': lookup}


def positional_calls(tree, table):
    """f(p1=a) / obj.m(p1=a, p2=b) / Base.m(self, p1=a) -> f(a) / obj.m(a, b) / Base.m(self, a): keyword arguments that
    continue the positional prefix of the callee are read by position, when every definition of that name in the
    package puts these parameters at these positions (so the receiver's class need not be known); a function nested in
    the caller counts for calls of its name inside the caller"""
    n = 0

    def agreed(defs, first, kwnames):
        """the parameter names for positions first.. as far as all definitions agree and kwnames supplies them"""
        defs = [d for d in defs if d is not None]
        if not defs:
            return []
        out = []
        i = first
        while True:
            at = {d[i] if i < len(d) else None for d in defs}
            if len(at) != 1 or None in at:
                break
            name = next(iter(at))
            if name not in kwnames:
                break
            out.append(name)
            i += 1
        # a keyword that some definition has at another position makes the call ambiguous
        for k in kwnames:
            if k not in out and any(k in d[:first + len(out)] for d in defs):
                return []
        return out

    def fix(call, defs, first):
        nonlocal n
        if any(isinstance(a, ast.Starred) for a in call.args) or any(k.arg is None for k in call.keywords):
            return
        kw = {k.arg: k for k in call.keywords}
        names = agreed(defs, first, set(kw))
        if names:
            call.args = list(call.args) + [kw[x].value for x in names]
            call.keywords = [k for k in call.keywords if k.arg not in names]
            n += 1

    # calls on self / cls inside a class: that class's own (or inherited) definition decides
    for c in [x for x in ast.walk(tree) if isinstance(x, ast.ClassDef)]:
        for node in ast.walk(c):
            if isinstance(node, ast.Call) and node.keywords and isinstance(node.func, ast.Attribute) and \
                    isinstance(node.func.value, ast.Name) and node.func.value.id in ('self', 'cls'):
                own = table['lookup'](c.name, node.func.attr)
                if own:
                    fix(node, own, len(node.args))
    for fn in [x for x in ast.walk(tree) if isinstance(x, (ast.FunctionDef, ast.AsyncFunctionDef, ast.Module))]:
        nested = {}
        if not isinstance(fn, ast.Module):
            for st in ast.walk(fn):
                if isinstance(st, (ast.FunctionDef, ast.AsyncFunctionDef)) and st is not fn and not st.args.posonlyargs:
                    nested.setdefault(st.name, []).append([x.arg for x in st.args.args])
        for node in ast.walk(fn):
            if not (isinstance(node, ast.Call) and node.keywords):
                continue
            f = node.func
            if isinstance(f, ast.Name):
                if f.id in nested:
                    fix(node, nested[f.id], len(node.args))
                elif f.id in table['functions'] and not isinstance(fn, ast.Module) or \
                        (isinstance(fn, ast.Module) and f.id in table['functions']):
                    fix(node, table['functions'][f.id], len(node.args))
            elif isinstance(f, ast.Attribute):
                if isinstance(f.value, ast.Name) and node.args and table['lookup'](f.value.id, f.attr):
                    # Base.method(self, ...): that class's own definition; the receiver is the first positional argument
                    fix(node, table['lookup'](f.value.id, f.attr), len(node.args) - 1)
                elif f.attr in table['methods']:
                    fix(node, table['methods'][f.attr], len(node.args))
    return n


def unpack_form(tree):
    """a = E[0]; b = E[1]; ... (consecutive, E one plain name, all positions from 0 in order)  ->  a, b, ... = E"""
    n = 0
    for lst in _all_stmt_lists(tree):
        i = 0
        while i < len(lst):
            run = []
            j = i
            src = None
            while j < len(lst):
                st = lst[j]
                if isinstance(st, ast.Assign) and len(st.targets) == 1 and isinstance(st.targets[0], ast.Name) and \
                        isinstance(st.value, ast.Subscript) and isinstance(st.value.value, ast.Name) and \
                        isinstance(st.value.slice, ast.Constant) and st.value.slice.value == len(run) and \
                        (src is None or st.value.value.id == src):
                    src = st.value.value.id
                    run.append(st)
                    j += 1
                else:
                    break
            names = [st.targets[0].id for st in run]
            if len(run) >= 2 and len(set(names)) == len(names) and src not in names:
                new = ast.Assign([ast.Tuple([ast.Name(x, ast.Store()) for x in names], ast.Store())],
                                 ast.Name(src, ast.Load()))
                ast.copy_location(new, run[0])
                ast.fix_missing_locations(new)
                lst[i:j] = [new]
                n += 1
            i += 1
    return n


def _single_if(body):
    """body is `if C: <stmts>` without else: (C, stmts)"""
    if len(body) == 1 and isinstance(body[0], ast.If) and not body[0].orelse:
        return body[0].test, body[0].body
    return None, None


def search_loops(tree):
    """the two spellings of "first match or default" are read as next(<generator>, default):
         for T in IT:                                  V = D
             if C: return E          and               for T in IT:
         return D                                          if C: V = E; break
    """
    n = 0
    for lst in _all_stmt_lists(tree):
        i = 0
        while i + 1 < len(lst):
            a, b = lst[i], lst[i + 1]
            # return form
            if isinstance(a, ast.For) and not a.orelse and isinstance(b, ast.Return) and b.value is not None:
                c, inner = _single_if(a.body)
                if c is not None and len(inner) == 1 and isinstance(inner[0], ast.Return) and \
                        inner[0].value is not None:
                    gen = ast.GeneratorExp(inner[0].value, [ast.comprehension(a.target, a.iter, [c], 0)])
                    new = ast.Return(ast.Call(ast.Name('next', ast.Load()), [gen, b.value], []))
                    ast.copy_location(new, a)
                    ast.fix_missing_locations(new)
                    lst[i:i + 2] = [new]
                    n += 1
                    continue
            # assignment form
            if isinstance(a, ast.Assign) and len(a.targets) == 1 and isinstance(b, ast.For) and not b.orelse:
                c, inner = _single_if(b.body)
                if c is not None and len(inner) == 2 and isinstance(inner[1], ast.Break) and \
                        isinstance(inner[0], ast.Assign) and len(inner[0].targets) == 1 and \
                        ast.dump(inner[0].targets[0]) == ast.dump(a.targets[0]):
                    gen = ast.GeneratorExp(inner[0].value, [ast.comprehension(b.target, b.iter, [c], 0)])
                    new = ast.Assign(a.targets, ast.Call(ast.Name('next', ast.Load()), [gen, a.value], []))
                    ast.copy_location(new, a)
                    ast.fix_missing_locations(new)
                    lst[i:i + 2] = [new]
                    n += 1
                    continue
            i += 1
    # for/else forms:   for T in IT:                         for T in IT:
    #                       if C: break                          if C: break
    #                   else:                                else:
    #                       T = D      (T a plain name)          return D
    #                                                        return E
    for lst in _all_stmt_lists(tree):
        i = 0
        while i < len(lst):
            a = lst[i]
            if isinstance(a, ast.For) and len(a.orelse) == 1:
                c, inner = _single_if(a.body)
                e = a.orelse[0]
                if c is not None and len(inner) == 1 and isinstance(inner[0], ast.Break):
                    if isinstance(a.target, ast.Name) and isinstance(e, ast.Assign) and len(e.targets) == 1 and \
                            isinstance(e.targets[0], ast.Name) and e.targets[0].id == a.target.id:
                        gen = ast.GeneratorExp(ast.Name(a.target.id, ast.Load()),
                                               [ast.comprehension(a.target, a.iter, [c], 0)])
                        new = ast.Assign([ast.Name(a.target.id, ast.Store())],
                                         ast.Call(ast.Name('next', ast.Load()), [gen, e.value], []))
                        ast.copy_location(new, a)
                        ast.fix_missing_locations(new)
                        lst[i] = new
                        n += 1
                elif c is not None and len(inner) == 2 and isinstance(inner[1], ast.Break) and \
                        isinstance(inner[0], ast.Assign) and len(inner[0].targets) == 1 and \
                        isinstance(e, ast.Assign) and len(e.targets) == 1 and \
                        ast.dump(inner[0].targets[0]) == ast.dump(e.targets[0]):
                    # for T in IT: if C: V = E; break  else: V = D
                    gen = ast.GeneratorExp(inner[0].value, [ast.comprehension(a.target, a.iter, [c], 0)])
                    new = ast.Assign(e.targets, ast.Call(ast.Name('next', ast.Load()), [gen, e.value], []))
                    ast.copy_location(new, a)
                    ast.fix_missing_locations(new)
                    lst[i] = new
                    n += 1
                if c is not None and len(inner) == 1 and isinstance(inner[0], ast.Break) and lst[i] is a:
                    if isinstance(e, ast.Return) and e.value is not None and i + 1 < len(lst) and \
                            isinstance(lst[i + 1], ast.Return) and lst[i + 1].value is not None:
                        gen = ast.GeneratorExp(lst[i + 1].value, [ast.comprehension(a.target, a.iter, [c], 0)])
                        new = ast.Return(ast.Call(ast.Name('next', ast.Load()), [gen, e.value], []))
                        ast.copy_location(new, a)
                        ast.fix_missing_locations(new)
                        lst[i:i + 2] = [new]
                        n += 1
            i += 1
    return n


def builder_forms(tree, is_new):
    """two ways to build a value in a NEW local (is_new(function node, name)) are read as one expression, which
    forward_new_locals can then read through:
         V = []                                         if C: V = A
         for T in IT:            ->  V = [E for ...]    else: V = B          ->  V = A if C else B
             if C: V.append(E)
    """
    n = 0
    for fn in ast.walk(tree):
        if not isinstance(fn, (ast.FunctionDef, ast.AsyncFunctionDef)):
            continue
        for lst in _all_stmt_lists(fn):
            i = 0
            while i < len(lst):
                a = lst[i]
                b = lst[i + 1] if i + 1 < len(lst) else None
                if isinstance(a, ast.Assign) and len(a.targets) == 1 and isinstance(a.targets[0], ast.Name) and \
                        isinstance(a.value, ast.List) and not a.value.elts and isinstance(b, ast.For) and \
                        not b.orelse:
                    v = a.targets[0].id
                    c, inner = _single_if(b.body)
                    if c is None:
                        inner = b.body
                    if len(inner) == 1 and isinstance(inner[0], ast.Expr) and isinstance(inner[0].value, ast.Call) \
                            and ast.unparse(inner[0].value.func) == v + '.append' and len(inner[0].value.args) == 1 \
                            and not any(isinstance(x, ast.Name) and x.id == v
                                        for y in [inner[0].value.args[0], b.iter] + ([c] if c is not None else [])
                                        for x in ast.walk(y)):
                        comp = ast.ListComp(inner[0].value.args[0],
                                            [ast.comprehension(b.target, b.iter, [c] if c is not None else [], 0)])
                        new = ast.Assign(a.targets, comp)
                        ast.copy_location(new, a)
                        ast.fix_missing_locations(new)
                        lst[i:i + 2] = [new]
                        n += 1
                        continue
                if isinstance(a, ast.If) and len(a.body) == 1 and len(a.orelse) == 1 and \
                        all(isinstance(s, ast.Assign) and len(s.targets) == 1 and isinstance(s.targets[0], ast.Name)
                            for s in (a.body[0], a.orelse[0])) and \
                        a.body[0].targets[0].id == a.orelse[0].targets[0].id and is_new(fn, a.body[0].targets[0].id):
                    new = ast.Assign(a.body[0].targets, ast.IfExp(a.test, a.body[0].value, a.orelse[0].value))
                    ast.copy_location(new, a)
                    ast.fix_missing_locations(new)
                    lst[i] = new
                    n += 1
                i += 1
    return n


def body_hash(fn):
    """structure of a function without its own name, its docstring and positions (for following a pure rename)"""
    import hashlib
    f = copy.deepcopy(fn)
    own = f.name
    f.name = '_'
    f.body = [s for s in f.body if not (isinstance(s, ast.Expr) and isinstance(s.value, ast.Constant)
                                        and isinstance(s.value.value, str))] or [ast.Pass()]
    for n in ast.walk(f):
        # a recursive call names the function itself
        if isinstance(n, ast.Name) and n.id == own:
            n.id = '_'
        elif isinstance(n, ast.Attribute) and n.attr == own:
            n.attr = '_'
    return hashlib.sha1(ast.dump(f).encode()).hexdigest()[:16]


def restore_function_names(tree, modname, ref):
    """a private function or method of the reference tree that is gone, while exactly one new function in the same
    scope has exactly its body: a rename.  The definition and every mention of the new name in this module are read
    under the old name (the rules name functions; a pure rename changes nothing they decide)."""
    done = []
    bodies = ref.get('bodies') or {}
    known = ref['functions']
    scopes = [('', tree.body)] + [(c.name + '.', c.body) for c in tree.body if isinstance(c, ast.ClassDef)]
    for prefix, body in scopes:
        here = {n.name: n for n in body if isinstance(n, (ast.FunctionDef, ast.AsyncFunctionDef))}
        gone = [q_ for q_ in bodies if q_.startswith('%s:%s' % (modname, prefix)) and
                '.' not in q_[len(modname) + 1 + len(prefix):] and q_[len(modname) + 1 + len(prefix):] not in here]
        if prefix == '':
            gone = [q_ for q_ in gone if '.' not in q_.split(':', 1)[1]]
        new = {name: fn for name, fn in here.items() if '%s:%s%s' % (modname, prefix, name) not in known}
        if not gone or not new:
            continue
        hashes = {name: body_hash(fn) for name, fn in new.items()}
        for q_ in gone:
            old = q_.split(':', 1)[1][len(prefix):]
            if not old.startswith('_') or (old.startswith('__') and old.endswith('__')):
                continue        # public names and special methods are interface: a vanished one stays a vanished anchor
            cands = [name for name, h in hashes.items() if h == bodies[q_]]
            if len(cands) != 1:
                continue
            newname = cands[0]
            # the new name must really be new in this module (then every mention of it means the renamed function;
            # the old name may live on as a method of another class)
            if newname in ((ref.get('attrs') or {}).get(modname) or ()) or \
                    newname in ((ref.get('module_names') or {}).get(modname) or ()):
                continue
            if prefix == '' and any(isinstance(n, ast.Name) and n.id == old for n in ast.walk(tree)):
                continue
            new[newname].name = old
            for n in ast.walk(tree):
                if isinstance(n, ast.Name) and n.id == newname and prefix == '':
                    n.id = old
                elif isinstance(n, ast.Attribute) and n.attr == newname:
                    n.attr = old
            del hashes[newname]
            done.append('%s%s (read as %s)' % (prefix, newname, old))
    return done


def _functions_with_quals(tree, modname):
    out = []

    def visit(body, prefix):
        for st in body:
            if isinstance(st, (ast.FunctionDef, ast.AsyncFunctionDef)):
                out.append(('%s:%s%s' % (modname, prefix, st.name), st))
            elif isinstance(st, ast.ClassDef):
                visit(st.body, prefix + st.name + '.')
            elif isinstance(st, (ast.If, ast.Try)):
                for fld in ('body', 'orelse', 'finalbody'):
                    visit(getattr(st, fld, []) or [], prefix)
                for h in getattr(st, 'handlers', []):
                    visit(h.body, prefix)
    visit(tree.body, '')
    return out


def restore_attribute_names(tree, modname, ref):
    """a private attribute name of the reference tree that is gone from this module while a new private attribute
    name appeared, and reading the new one as the old one gives every function that mentions it exactly the body it
    had: a rename of the attribute.  It is read under the old name."""
    done = []
    ref_attrs = (ref.get('attrs') or {}).get(modname)
    bodies = ref.get('bodies') or {}
    if ref_attrs is None:
        return done
    cur = {n.attr for n in ast.walk(tree) if isinstance(n, ast.Attribute)}
    gone = sorted(a for a in set(ref_attrs) - cur if a.startswith('_') and not a.endswith('__'))
    new = sorted(b for b in cur - set(ref_attrs) if b.startswith('_') and not b.endswith('__'))
    if not gone or not new or len(gone) > 6 or len(new) > 6:
        return done
    funcs = [(q_, fn) for (q_, fn) in _functions_with_quals(tree, modname) if q_ in bodies]
    seqs = ref.get('attr_seq') or {}
    # which old name stood where a new name stands now: from the functions whose attribute sequence has the reference
    # length and differs from it only at gone/new names
    votes = {}
    for q_, fn in funcs:
        cur_seq = [n.attr for n in ast.walk(fn) if isinstance(n, ast.Attribute)]
        ref_seq = seqs.get(q_)
        if ref_seq is None or len(ref_seq) != len(cur_seq) or cur_seq == ref_seq:
            continue
        pairs = {(c, r) for c, r in zip(cur_seq, ref_seq) if c != r}
        if all(c in new and r in gone for (c, r) in pairs):
            for (c, r) in pairs:
                votes.setdefault(c, set()).add(r)
    mapping = {b: next(iter(a)) for b, a in votes.items() if len(a) == 1}
    if len(set(mapping.values())) != len(mapping):
        return done
    # the whole mapping must give every function that mentions a renamed attribute the body it had (functions that
    # changed in other ways too cannot confirm and are left out; each renamed attribute needs one that confirms)
    confirmed = set()
    for q_, fn in funcs:
        mine = {n.attr for n in ast.walk(fn) if isinstance(n, ast.Attribute)} & set(mapping)
        if not mine:
            continue
        f2 = copy.deepcopy(fn)
        for n in ast.walk(f2):
            if isinstance(n, ast.Attribute) and n.attr in mapping:
                n.attr = mapping[n.attr]
        if body_hash(f2) == bodies[q_]:
            confirmed |= mine
    mapping = {b: a for b, a in mapping.items() if b in confirmed}
    if not mapping:
        return done
    for n in ast.walk(tree):
        if isinstance(n, ast.Attribute) and n.attr in mapping:
            n.attr = mapping[n.attr]
        elif isinstance(n, ast.ClassDef):
            # a class-level default of the same attribute
            for st in n.body:
                if isinstance(st, ast.Assign):
                    for t in st.targets:
                        if isinstance(t, ast.Name) and t.id in mapping:
                            t.id = mapping[t.id]
    for b, a in sorted(mapping.items()):
        done.append('%s (read as %s)' % (b, a))
    return done


def restore_staticmethods(tree, modname, known):
    """a staticmethod of the reference tree that became a new module-level function, the class keeping
    `NAME = staticmethod(func)`: read as the staticmethod again, calls from the class's methods as self.NAME(...)"""
    done = []
    top = {n.name: n for n in tree.body if isinstance(n, ast.FunctionDef)}
    for c in [n for n in tree.body if isinstance(n, ast.ClassDef)]:
        for i, st in enumerate(list(c.body)):
            if not (isinstance(st, ast.Assign) and len(st.targets) == 1 and isinstance(st.targets[0], ast.Name) and
                    isinstance(st.value, ast.Call) and isinstance(st.value.func, ast.Name) and
                    st.value.func.id == 'staticmethod' and len(st.value.args) == 1 and
                    isinstance(st.value.args[0], ast.Name)):
                continue
            name, fname = st.targets[0].id, st.value.args[0].id
            f = top.get(fname)
            if f is None or '%s:%s' % (modname, fname) in known or '%s:%s.%s' % (modname, c.name, name) not in known \
                    or f.decorator_list:
                continue
            new = copy.deepcopy(f)
            new.name = name
            new.decorator_list = [ast.Name('staticmethod', ast.Load())]
            ast.copy_location(new.decorator_list[0], new)
            c.body[c.body.index(st)] = new
            for m_ in c.body:
                if not isinstance(m_, ast.FunctionDef) or m_ is new or not m_.args.args:
                    continue
                if any(isinstance(d, ast.Name) and d.id == 'staticmethod' for d in m_.decorator_list):
                    continue
                recv = m_.args.args[0].arg
                for call in [x for x in ast.walk(m_) if isinstance(x, ast.Call)]:
                    if isinstance(call.func, ast.Name) and call.func.id == fname:
                        call.func = ast.copy_location(
                            ast.Attribute(ast.copy_location(ast.Name(recv, ast.Load()), call.func), name, ast.Load()),
                            call.func)
            if not any(isinstance(x, ast.Name) and x.id == fname for x in ast.walk(tree)):
                tree.body.remove(f)
            done.append('%s.%s' % (c.name, name))
    return done


def local_generators(tree, is_new):
    """a NEW nested generator function without parameters whose body is `for T in IT: [if C:] yield E` and which is
    only ever called: each call is read as the generator expression (E for T in IT [if C])"""
    n = 0
    for fn in ast.walk(tree):
        if not isinstance(fn, (ast.FunctionDef, ast.AsyncFunctionDef)):
            continue
        for lst in _all_stmt_lists(fn):
            for g in [s for s in lst if isinstance(s, ast.FunctionDef)]:
                if not is_new(fn, g.name) or g.decorator_list:
                    continue
                a = g.args
                if a.args or a.vararg or a.kwarg or a.kwonlyargs or a.posonlyargs:
                    continue
                body = [s for s in g.body if not (isinstance(s, ast.Expr) and isinstance(s.value, ast.Constant))]
                if len(body) != 1 or not isinstance(body[0], ast.For) or body[0].orelse:
                    continue
                loop = body[0]
                c, inner = _single_if(loop.body)
                if c is None:
                    inner = loop.body
                if not (len(inner) == 1 and isinstance(inner[0], ast.Expr) and isinstance(inner[0].value, ast.Yield)
                        and inner[0].value.value is not None):
                    continue
                refs = [x for x in ast.walk(fn) if isinstance(x, ast.Name) and x.id == g.name]
                calls = [x for x in ast.walk(fn) if isinstance(x, ast.Call) and isinstance(x.func, ast.Name) and
                         x.func.id == g.name and not x.args and not x.keywords]
                if not calls or len(refs) != len(calls):
                    continue
                for call in calls:
                    gen = ast.GeneratorExp(copy.deepcopy(inner[0].value.value), [ast.comprehension(
                        copy.deepcopy(loop.target), copy.deepcopy(loop.iter), [copy.deepcopy(c)] if c is not None else [], 0)])
                    for x in ast.walk(gen):
                        if isinstance(x, (ast.expr, ast.comprehension)):
                            ast.copy_location(x, call) if isinstance(x, ast.expr) else None
                    ast.fix_missing_locations(ast.copy_location(gen, call))
                    for parent in ast.walk(fn):
                        for fld, val in ast.iter_fields(parent):
                            if val is call:
                                setattr(parent, fld, gen)
                            elif isinstance(val, list):
                                for k, item in enumerate(val):
                                    if item is call:
                                        val[k] = gen
                lst.remove(g)
                if not lst:
                    lst.append(ast.copy_location(ast.Pass(), g))
                n += 1
    return n


def _literal(v):
    if isinstance(v, ast.Constant) and not isinstance(v.value, (bytes,)) or \
            (isinstance(v, ast.Constant) and isinstance(v.value, bytes)):
        return True
    if isinstance(v, ast.UnaryOp) and isinstance(v.op, ast.USub) and isinstance(v.operand, ast.Constant):
        return True
    return False


def fold_new_constants(tree, ref_names):
    """ref_names: the module-level names of this module on the reference tree (None: unknown module, nothing done)"""
    done = []
    if ref_names is None:
        return done
    cands = {}
    for st in tree.body:
        if isinstance(st, ast.Assign) and len(st.targets) == 1 and isinstance(st.targets[0], ast.Name) and \
                _literal(st.value) and st.targets[0].id not in ref_names:
            cands.setdefault(st.targets[0].id, []).append(st)
    if not cands:
        return done
    stores = {}
    for n in ast.walk(tree):
        if isinstance(n, ast.Name) and isinstance(n.ctx, (ast.Store, ast.Del)):
            stores[n.id] = stores.get(n.id, 0) + 1
        elif isinstance(n, (ast.Global, ast.Nonlocal)):
            for x in n.names:
                stores[x] = stores.get(x, 0) + 2
        elif isinstance(n, ast.arg):
            stores[n.arg] = stores.get(n.arg, 0) + 2
        elif isinstance(n, ast.alias):
            nm = (n.asname or n.name).split('.')[0]
            stores[nm] = stores.get(nm, 0) + 2
    consts = {k: v[0].value for k, v in cands.items() if len(v) == 1 and stores.get(k) == 1}
    if not consts:
        return done

    class T(ast.NodeTransformer):
        def visit_Name(self, node):
            if isinstance(node.ctx, ast.Load) and node.id in consts:
                done.append(node.id)
                new = copy.deepcopy(consts[node.id])
                for x in ast.walk(new):
                    ast.copy_location(x, node)
                return new
            return node
    T().visit(tree)
    return sorted(set(done))


def _head_exprs(st):
    if isinstance(st, (ast.Expr, ast.Return, ast.Assign, ast.AugAssign, ast.AnnAssign)):
        return [st.value] if getattr(st, 'value', None) is not None else []
    if isinstance(st, ast.If):
        return [st.test]
    if isinstance(st, ast.For):
        return [st.iter]
    if isinstance(st, ast.With):
        return [st.items[0].context_expr]
    if isinstance(st, ast.Raise):
        return [st.exc] if st.exc is not None else []
    return []


def _walk_unconditional(e):
    yield e
    if isinstance(e, (ast.Lambda, ast.ListComp, ast.SetComp, ast.DictComp, ast.GeneratorExp)):
        return
    if isinstance(e, ast.BoolOp):
        yield from _walk_unconditional(e.values[0])
        return
    if isinstance(e, ast.IfExp):
        yield from _walk_unconditional(e.test)
        return
    for c in ast.iter_child_nodes(e):
        if isinstance(c, ast.expr):
            yield from _walk_unconditional(c)
        elif isinstance(c, ast.keyword):
            yield from _walk_unconditional(c.value)


def _kind(rhs):
    """'names': only names/constants/operators; 'attrs': attributes of names too; None: anything else"""
    kind = 'names'
    for n in ast.walk(rhs):
        if isinstance(n, (ast.Name, ast.Constant, ast.UnaryOp, ast.BinOp, ast.Compare, ast.BoolOp, ast.Tuple,
                          ast.operator, ast.unaryop, ast.cmpop, ast.boolop, ast.expr_context)):
            continue
        if isinstance(n, ast.Attribute):
            kind = 'attrs'
            continue
        return None
    return kind


def _stmt_lists(fn):
    """every list of statements inside fn (not inside nested functions)"""
    todo = [fn.body]
    while todo:
        lst = todo.pop()
        yield lst
        for st in lst:
            if isinstance(st, (ast.FunctionDef, ast.AsyncFunctionDef, ast.ClassDef)):
                continue
            for fld in ('body', 'orelse', 'finalbody'):
                sub = getattr(st, fld, None)
                if isinstance(sub, list) and sub and isinstance(sub[0], ast.stmt):
                    todo.append(sub)
            for h in getattr(st, 'handlers', []):
                todo.append(h.body)
            for c in getattr(st, 'cases', []):
                todo.append(c.body)


def _forward_in(fn, ref_locals, top_level=True):
    done = []
    params = {a.arg for n in ast.walk(fn) if isinstance(n, ast.arguments)
              for a in n.args + n.kwonlyargs + n.posonlyargs + [x for x in (n.vararg, n.kwarg) if x]}
    declared = {x for n in ast.walk(fn) if isinstance(n, (ast.Global, ast.Nonlocal)) for x in n.names}
    now = set(params)
    for n in ast.walk(fn):
        if isinstance(n, ast.Name) and isinstance(n.ctx, (ast.Store, ast.Del)):
            now.add(n.id)
        elif isinstance(n, ast.ExceptHandler) and n.name:
            now.add(n.name)
        elif isinstance(n, (ast.FunctionDef, ast.ClassDef)):
            now.add(n.name)
        elif isinstance(n, ast.alias):
            now.add((n.asname or n.name).split('.')[0])
    if not top_level:
        now |= ref_locals
    if ref_locals - now:
        # a local of the reference tree is gone: one of the new names may be that local renamed, which is followed
        # elsewhere (check.py, sa/localfp.py); nothing is read through here
        return done
    for _round in range(8):
        binds, loads = {}, {}
        for n in ast.walk(fn):
            if isinstance(n, ast.Name):
                (loads if isinstance(n.ctx, ast.Load) else binds).setdefault(n.id, []).append(n)
            elif isinstance(n, ast.ExceptHandler) and n.name:
                binds.setdefault(n.name, []).append(n)
        deferred = set()      # names read inside nested functions, lambdas
        for n in ast.walk(fn):
            if isinstance(n, (ast.FunctionDef, ast.AsyncFunctionDef, ast.Lambda)) and n is not fn:
                deferred |= {x.id for x in ast.walk(n) if isinstance(x, ast.Name)}
        progress = False
        for lst in _stmt_lists(fn):
            for i, st in enumerate(lst):
                if not (isinstance(st, ast.Assign) and len(st.targets) == 1 and isinstance(st.targets[0], ast.Name)):
                    continue
                v = st.targets[0].id
                if v in ref_locals or v in params or v in declared or v in deferred or len(binds.get(v, [])) != 1 \
                        or not loads.get(v):
                    continue
                uses = loads[v]
                if any(x is u for u in uses for x in ast.walk(st.value)):
                    continue
                # every use in the statements that follow in this list
                following = lst[i + 1:]
                where = []
                for u in uses:
                    k = next((j for j, s2 in enumerate(following) if any(x is u for x in ast.walk(s2))), None)
                    where.append(k)
                if any(k is None for k in where):
                    continue
                last = max(where)
                span = following[:last + 1]
                kind = _kind(st.value)
                ok = False
                if len(uses) == 1 and where[0] == 0 and any(
                        x is uses[0] for e in _head_exprs(following[0]) for x in _walk_unconditional(e)):
                    ok = True
                elif kind is not None:
                    roots = {n.id for n in ast.walk(st.value) if isinstance(n, ast.Name)}
                    restored = {x.id for s2 in span for x in ast.walk(s2)
                                if isinstance(x, ast.Name) and isinstance(x.ctx, (ast.Store, ast.Del))}
                    in_loop_rebind = False
                    if roots & restored:
                        ok = False
                    elif kind == 'names':
                        ok = True
                    else:
                        ok = True
                        attrs = {n.attr for n in ast.walk(st.value) if isinstance(n, ast.Attribute)}
                        for s2 in span:
                            for x in ast.walk(s2):
                                if isinstance(x, (ast.With, ast.While, ast.Try, ast.Yield, ast.YieldFrom, ast.Await)):
                                    ok = False
                                elif isinstance(x, ast.Call) and not (
                                        isinstance(x.func, ast.Name) and x.func.id in PURE_CALLS):
                                    ok = False
                                elif isinstance(x, ast.Attribute) and isinstance(x.ctx, (ast.Store, ast.Del)) and \
                                        x.attr in attrs:
                                    ok = False
                    del in_loop_rebind
                if not ok:
                    continue

                class T(ast.NodeTransformer):
                    def visit_Name(self, node):
                        if node.id == v and isinstance(node.ctx, ast.Load):
                            new = copy.deepcopy(st.value)
                            for x in ast.walk(new):
                                if isinstance(x, (ast.expr, ast.stmt)):
                                    ast.copy_location(x, node)
                            return new
                        return node
                for s2 in span:
                    T().visit(s2)
                del lst[i]
                if not lst:
                    lst.append(ast.copy_location(ast.Pass(), st))
                done.append(v)
                progress = True
                break
            if progress:
                break
        if not progress:
            break
    return done


def new_local_test(tree, modname, ref_locals):
    """is_new(function node, name): the name is not a local of that function (or of the function it is nested in) on
    the reference tree; False for functions the reference tree does not have"""
    table = {}

    def visit(body, prefix):
        for st in body:
            if isinstance(st, (ast.FunctionDef, ast.AsyncFunctionDef)):
                q = '%s:%s%s' % (modname, prefix, st.name)
                if q in (ref_locals or {}):
                    for sub in ast.walk(st):
                        if isinstance(sub, (ast.FunctionDef, ast.AsyncFunctionDef)):
                            table[id(sub)] = set(ref_locals[q])
            elif isinstance(st, ast.ClassDef):
                visit(st.body, prefix + st.name + '.')
            elif isinstance(st, (ast.If, ast.Try)):
                for fld in ('body', 'orelse', 'finalbody'):
                    visit(getattr(st, fld, []) or [], prefix)
                for h in getattr(st, 'handlers', []):
                    visit(h.body, prefix)
    visit(tree.body, '')
    return lambda fn, name: id(fn) in table and name not in table[id(fn)]


def forward_new_locals(tree, modname, ref_locals):
    """ref_locals: {qualified function name: [local names on the reference tree]}"""
    done = []
    if not ref_locals:
        return done

    def visit(body, prefix):
        for st in body:
            if isinstance(st, (ast.FunctionDef, ast.AsyncFunctionDef)):
                q = '%s:%s%s' % (modname, prefix, st.name)
                if q in ref_locals:
                    for v in _forward_in(st, set(ref_locals[q])):
                        done.append('%s.%s' % (q, v))
                    for sub in ast.walk(st):
                        if isinstance(sub, (ast.FunctionDef, ast.AsyncFunctionDef)) and sub is not st:
                            for v in _forward_in(sub, set(ref_locals[q]), False):
                                done.append('%s.%s.%s' % (q, sub.name, v))
            elif isinstance(st, ast.ClassDef):
                visit(st.body, prefix + st.name + '.')
            elif isinstance(st, (ast.If, ast.Try)):
                for fld in ('body', 'orelse', 'finalbody'):
                    visit(getattr(st, fld, []) or [], prefix)
                for h in getattr(st, 'handlers', []):
                    visit(h.body, prefix)
    visit(tree.body, '')
    return done
